#!/usr/bin/env python3
"""Regenerates section 12 of DESIGN.md from tools/design_asbuilt.md, known_findings.json and seeded/*/meta.json."""
import glob
import json
import os

HERE = os.path.dirname(os.path.dirname(os.path.abspath(__file__)))
kf = json.load(open(os.path.join(HERE, 'known_findings.json')))
fixed = '\n'.join('* ' + f[len('fixed: '):] for f in kf['fixed'])
findings = '\n'.join(f"* `{e['id']}` ({e['property']}, {e['obligation']}): {e['what']}" for e in kf['findings'])
rows = []
for d in sorted(glob.glob(os.path.join(HERE, 'seeded', '*', ''))):
    m = json.load(open(d + 'meta.json'))
    desc = open(d + 'description.md').read().split('\n')[0].lstrip('# ').strip()
    desc = desc.split(':', 1)[-1].strip() if ':' in desc[:24] else desc
    db = m.get('detected_by') or {}
    ded = ', '.join(db.get('deductive_obligations', [])[:2]) or '-'
    bnd = ', '.join(o.replace('bounded/', '') for o in db.get('bounded_obligations', [])[:2]) or '-'
    und = ', '.join(db.get('undecided', [])[:1]) or '-'
    rows.append(f"| {os.path.basename(d.rstrip('/'))} | {desc[:110]} | {ded[:120]} | {bnd[:70]} | {und[:60]} |")
text = open(os.path.join(HERE, 'tools', 'design_asbuilt.md')).read()
text = text.replace('@@FIXED@@', fixed).replace('@@FINDINGS@@', findings).replace('@@SEEDTABLE@@', '\n'.join(rows))
p = os.path.join(HERE, 'DESIGN.md')
s = open(p).read()
marker = '\n\n---------------------------------------------------------------------------\n\n## 12. As built'
if marker in s:
    s = s[:s.index(marker)]
open(p, 'w').write(s.rstrip('\n') + '\n' + text)
print('DESIGN.md section 12 regenerated:', len(rows), 'seeds,', len(kf['fixed']), 'fixed,', len(kf['findings']), 'findings')
