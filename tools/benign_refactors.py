import sys, re, subprocess, tempfile, shutil, os
def run(prop, edits):
    T = tempfile.mkdtemp(prefix='pycel-benign-')
    os.makedirs(T + '/repo'); shutil.copytree('/repo/src', T + '/repo/src')
    for rel, old, new in edits:
        p = f'{T}/repo/{rel}'; s = open(p).read(); assert old in s, (rel, old[:40]); open(p, 'w').write(s.replace(old, new, 1))
    import ast
    for rel, _, _ in edits: ast.parse(open(f'{T}/repo/{rel}').read())
    out = subprocess.run(['python3-vt', '-W', 'ignore', '-m', 'pyvc.check', prop, '--tier', 'quick', '--repo', T + '/repo', '--no-evidence'],
                         capture_output=True, text=True, cwd='/verif', env=dict(os.environ, PYVC_NO_EVIDENCE='1'))
    lines = [l for l in out.stdout.split('\n') if l.startswith(prop + ':') or 'VIOLATION' in l or 'UNDECIDED' in l or 'FAULT' in l]
    shutil.rmtree(T)
    return lines[-4:]
cases = {
 'C06 done rewritten': ('C06', [('src/pycel/excelutil.py', "        return (self.ns.iteration_number >= self.ns.iterations or\n                not self.ns.todo)", "        if self.ns.iteration_number < self.ns.iterations and self.ns.todo:\n            return False\n        return True")]),
 'C09 eval_func extra debug log': ('C09', [('src/pycel/excelformula.py', "            pending = len(error_messages)\n", "            pending = len(error_messages)\n            logger.debug('evaluating %s', excel_formula.python_code)\n")]),
 'C03 cell_value rewritten': ('C03', [('src/pycel/excelcompiler.py', "            elif isinstance(a_cell.value, np.float64):\n                return float(a_cell.value)\n", "            value = a_cell.value\n            if isinstance(value, np.float64):\n                return float(value)\n")]),
 'C08 walk_dependents early continue': ('C08', [('src/pycel/excelcompiler.py', "                if child_addr not in needed_cells:\n                    needed_cells.add(child_addr)\n                    walk_dependents(child_cell)", "                if child_addr in needed_cells:\n                    continue\n                needed_cells.add(child_addr)\n                walk_dependents(child_cell)")]),
 'C12 close_enough local names': ('C12', [('src/pycel/excelcompiler.py', "            if tol is not None:\n                return abs(value - self.value) < (1 + rel) * tol", "            if tol is not None:\n                delta = abs(value - self.value)\n                return delta < tol + rel * tol")]),
 'C04 process_gen_graph local rename': ('C04', [('src/pycel/excelcompiler.py', "                    precedent = self.cell_map[precedent_address.address]\n                    self.dep_graph.add_edge(precedent, dependant)", "                    pre = self.cell_map[precedent_address.address]\n                    precedent = pre\n                    self.dep_graph.add_edge(pre, dependant)")]),
 'C16 _match equivalent rewrites': ('C16', [('src/pycel/lib/lookup.py', "        if result == 0 or lookup_array[result - 1] is None:", "        if not result or lookup_array[result - 1] is None:"), ('src/pycel/lib/lookup.py', "            lo += 1\n", "            lo = lo + 1\n")]),
 'C01 _reset log after the write': ('C01', [('src/pycel/excelcompiler.py', "        self.log.info(f\"Resetting {cell.address}\")\n        cell.value = None\n", "        cell.value = None\n        self.log.info(f\"Resetting {cell.address}\")\n")]),
 'C07 tracker wip docstring+temp': ('C07', [('src/pycel/excelutil.py', "        self.ns.todo.add(cell)", "        todo = self.ns.todo\n        todo.add(cell)")]),
}
for name, (prop, edits) in cases.items():
    if len(sys.argv) > 1 and sys.argv[1] not in name: continue
    print('==', name); print('\n'.join(l[:230] for l in run(prop, edits)))
