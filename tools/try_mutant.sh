#!/bin/bash
# usage: try_mutant.sh <property> <patch-file | -e 'sed-expr' file> ...
# Applies a change to a scratch copy of /repo (outside /repo and /verif), runs the check
# against it with --repo, prints the verdict lines and removes the copy.
set -u
PID=$1; shift
T=$(mktemp -d ${TMPDIR:-/tmp}/pycel-verif-mut.XXXXXX)
trap 'rm -rf "$T"' EXIT
mkdir -p $T/repo && cp -r /repo/src $T/repo/src && (cd $T/repo && git init -q . && git add -A >/dev/null && git -c user.email=a@b -c user.name=x commit -qm base >/dev/null)
if [ "$1" = "-e" ]; then
  sed -i -e "$2" "$T/repo/$3" || exit 9
  (cd $T/repo && git diff --stat | tail -1)
else
  (cd $T/repo && git apply "$1") || { echo "PATCH DOES NOT APPLY"; exit 9; }
fi
cd /verif && PYVC_NO_EVIDENCE=1 python3-vt -m pyvc.check $PID --tier quick --repo $T/repo --no-evidence 2>&1 | grep -E "VIOLATION|UNDECIDED|FAULT|KNOWN|^$PID:" | cut -c1-260 | head -${LINES_MAX:-8}
