"""Light mutation campaign: AST mutations inside chosen functions of /repo/src, kept if the pinned suite still passes,
then the mapped property checks are run against the mutant (quick tier).  Prints survivors."""
import ast, copy, os, random, shutil, subprocess, sys, tempfile, json

TARGETS = {   # file -> {function qualname: [properties]}
 'src/pycel/excelcompiler.py': {
   'ExcelCompiler._reset': ['C01'], 'ExcelCompiler.set_value': ['C01'], 'ExcelCompiler._evaluate': ['C01', 'C05'],
   'ExcelCompiler._evaluate_range': ['C01', 'C05'], 'ExcelCompiler._evaluate_non_iterative': ['C05'],
   'ExcelCompiler._evaluate_iterative': ['C06'], 'ExcelCompiler._process_gen_graph': ['C04', 'C09'],
   'ExcelCompiler._make_cells': ['C05', 'C01'], 'ExcelCompiler.trim_graph': ['C08'], 'ExcelCompiler._to_text': ['C03'],
   'ExcelCompiler.to_file': ['C03'], 'ExcelCompiler.validate_calcs': ['C12'], '_CellBase.close_enough': ['C12', 'C06'],
   '_CycleCell.value': ['C06'], '_CycleCell.start_calcs': ['C06'], '_CompiledImporter._get_cell': ['C03'],
   '_CompiledImporter.get_range': ['C03', 'C05'], 'ExcelCompiler.eval': ['C09', 'C06']},
 'src/pycel/excelformula.py': {
   'ExcelFormula.build_eval_context': ['C09', 'C05'], 'ExcelFormula.needed_addresses': ['C04'], 'OperatorNode.emit': ['C02'],
   'OperandNode.emit': ['C02'], 'Token.Precedence.__lt__': ['C02'], 'RangeNode._emit': ['C02', 'C04']},
 'src/pycel/excelutil.py': {
   '_IterativeEvalTracker.ns': ['C06', 'C07'], '_IterativeEvalTracker.done': ['C06'], '_IterativeEvalTracker.inc_iteration_number': ['C06'],
   '_ArrayFormulaContext.__enter__': ['C09', 'C07'], '_ArrayFormulaContext.__exit__': ['C09', 'C07'], '_ArrayFormulaContext.ns': ['C07']},
}


def functions(tree):
    out = {}
    def visit(node, prefix):
        for ch in ast.iter_child_nodes(node):
            if isinstance(ch, ast.ClassDef):
                visit(ch, prefix + ch.name + '.')
            elif isinstance(ch, ast.FunctionDef):
                out.setdefault(prefix + ch.name, []).append(ch)
                visit(ch, prefix + ch.name + '.')
    visit(tree, '')
    return out


class Mutator(ast.NodeTransformer):
    def __init__(self, k):
        self.k = k; self.n = -1; self.desc = None
    def hit(self):
        self.n += 1
        return self.n == self.k
    def visit_Compare(self, node):
        self.generic_visit(node)
        if len(node.ops) == 1:
            swaps = {ast.Lt: ast.LtE, ast.LtE: ast.Lt, ast.Gt: ast.GtE, ast.GtE: ast.Gt, ast.Eq: ast.NotEq, ast.NotEq: ast.Eq,
                     ast.Is: ast.IsNot, ast.IsNot: ast.Is, ast.In: ast.NotIn, ast.NotIn: ast.In}
            t = type(node.ops[0])
            if t in swaps and self.hit():
                self.desc = f'line {node.lineno}: {t.__name__} -> {swaps[t].__name__}'
                node.ops = [swaps[t]()]
        return node
    def visit_BoolOp(self, node):
        self.generic_visit(node)
        if self.hit():
            self.desc = f'line {node.lineno}: {type(node.op).__name__} swapped'
            node.op = ast.Or() if isinstance(node.op, ast.And) else ast.And()
        return node
    def visit_Constant(self, node):
        if isinstance(node.value, bool) and self.hit():
            self.desc = f'line {node.lineno}: {node.value} negated'
            return ast.copy_location(ast.Constant(not node.value), node)
        if isinstance(node.value, int) and not isinstance(node.value, bool) and abs(node.value) < 100 and self.hit():
            self.desc = f'line {node.lineno}: {node.value} + 1'
            return ast.copy_location(ast.Constant(node.value + 1), node)
        return node
    def visit_Expr(self, node):
        self.generic_visit(node)
        if isinstance(node.value, ast.Call) and self.hit():
            self.desc = f'line {node.lineno}: statement `{ast.unparse(node)[:50]}` removed'
            return ast.copy_location(ast.Pass(), node)
        return node
    def visit_If(self, node):
        self.generic_visit(node)
        if self.hit():
            self.desc = f'line {node.lineno}: if-condition negated'
            node.test = ast.UnaryOp(ast.Not(), node.test)
        return node


def mutants_of(src, qual):
    tree = ast.parse(src)
    fns = functions(tree).get(qual, [])
    res = []
    for fi, fn in enumerate(fns):
        k = 0
        while True:
            t2 = ast.parse(src)
            f2 = functions(t2)[qual][fi]
            m = Mutator(k)
            m.visit(f2)
            if m.desc is None:
                break
            ast.fix_missing_locations(t2)
            res.append((m.desc, ast.unparse(t2)))
            k += 1
    return res


def main():
    rnd = random.Random(int(sys.argv[1]) if len(sys.argv) > 1 else 0)
    per_fn = int(sys.argv[2]) if len(sys.argv) > 2 else 2
    only = sys.argv[3] if len(sys.argv) > 3 else ''
    results = []
    for rel, fns in TARGETS.items():
        src0 = open('/repo/' + rel).read()
        # unparse normalises formatting: compare against the unparsed original so that the prover re-reads consistent text
        for qual, props in fns.items():
            if only and not any(o in qual for o in only.split(',')):
                continue
            ms = mutants_of(src0, qual)
            rnd.shuffle(ms)
            kept = 0
            for desc, text in ms[:14]:
                if kept >= per_fn:
                    break
                T = tempfile.mkdtemp(prefix='pycel-mut-')
                try:
                    shutil.copytree('/repo', T + '/repo', ignore=shutil.ignore_patterns('.git', '__pycache__', '*.pyc'))
                    open(T + '/repo/' + rel, 'w').write(text)
                    try:
                        t = subprocess.run(['/venv/bin/python', '-m', 'pytest', '-q', '-x', '-p', 'no:cacheprovider', '--timeout=60', 'tests'],
                                           cwd=T + '/repo', env=dict(os.environ, PYTHONPATH=T + '/repo/src'), capture_output=True,
                                           text=True, timeout=240)
                    except subprocess.TimeoutExpired:
                        continue
                    if t.returncode != 0:
                        continue            # killed by the pinned suite: not interesting
                    kept += 1
                    verdicts = {}
                    for p in props:
                        try:
                            c = subprocess.run(['python3-vt', '-W', 'ignore', '-m', 'pyvc.check', p, '--tier', 'quick', '--repo', T + '/repo', '--no-evidence'],
                                               cwd='/verif', env=dict(os.environ, PYVC_NO_EVIDENCE='1'), capture_output=True, text=True, timeout=900)
                            last = [l for l in c.stdout.split('\n') if l.startswith(p + ':')]
                            verdicts[p] = last[-1].split('exit=')[-1] if last else f'rc{c.returncode}'
                        except subprocess.TimeoutExpired:
                            verdicts[p] = 'timeout'
                    survived = all(v == '0' for v in verdicts.values())
                    print(('SURVIVED ' if survived else 'detected ') + f'{rel.split("/")[-1]}:{qual} [{desc}] -> {verdicts}', flush=True)
                    results.append((survived, rel, qual, desc))
                finally:
                    shutil.rmtree(T, ignore_errors=True)
    print('survivors:', sum(1 for r in results if r[0]), 'of', len(results))


main()
