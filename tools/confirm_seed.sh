#!/bin/bash
# usage: confirm_seed.sh <property> <A|B>   -- confirms a seeded change on a scratch worktree of /repo HEAD:
#  (1) patch applies, (2) full pinned suite passes with it, (3) demo fails with it, (4) demo passes without it.
# On success copies patch+demo+meta into /verif/seeded/<property>-<X>/ ; always removes the worktree.
set -u
PID=$1; X=$2
SRC=${3:-/tmp/seedout/$PID}
DEST=${4:-$PID-$X}
WT=$(mktemp -d ${TMPDIR:-/tmp}/pycel-seedchk.XXXXXX)
rmdir $WT
git -C /repo worktree add -q --detach $WT HEAD || exit 9
cleanup() { git -C /repo worktree remove --force $WT 2>/dev/null; rm -rf $WT; }
trap cleanup EXIT
cd $WT
export PYTHONPATH=$WT/src
/venv/bin/python $SRC/${X}_demo.py > /tmp/seedchk.$PID.$X.clean.log 2>&1; CLEAN=$?
git apply $SRC/$X.patch || { echo "$PID-$X: PATCH DOES NOT APPLY to HEAD"; exit 1; }
/venv/bin/python $SRC/${X}_demo.py > /tmp/seedchk.$PID.$X.mut.log 2>&1; MUT=$?
/venv/bin/python -m pytest -q -p no:cacheprovider -x tests > /tmp/seedchk.$PID.$X.tests.log 2>&1; TESTS=$?
TAIL=$(tail -1 /tmp/seedchk.$PID.$X.tests.log)
echo "$PID-$X: demo_clean_exit=$CLEAN demo_mutant_exit=$MUT tests_exit=$TESTS ($TAIL)"
if [ $CLEAN -eq 0 ] && [ $MUT -ne 0 ] && [ $TESTS -eq 0 ]; then
  D=/verif/seeded/$DEST; mkdir -p $D
  git diff > $D/patch.diff
  cp $SRC/${X}_demo.py $D/demo.py
  cp $SRC/$X.md $D/description.md
  HEAD=$(git -C /repo rev-parse HEAD)
  python3 - "$PID" "$DEST" "$HEAD" "$TAIL" <<'PY'
import json,sys
pid,dest,head,tail=sys.argv[1:5]
d=f'/verif/seeded/{dest}'
desc=open(f'{d}/description.md').read()
json.dump({'property':pid,'id':dest,'breaks':pid,'needs_to_manifest':desc[:1500],
 'confirmed':{'repo_head':head,'patch_applies':True,'suite_with_patch':tail,'demo_with_patch':'fails (non-zero exit)','demo_without_patch':'passes (exit 0)',
 'commands':['git worktree add --detach <tmp> HEAD','git apply patch.diff','PYTHONPATH=<tmp>/src /venv/bin/python demo.py','PYTHONPATH=<tmp>/src /venv/bin/python -m pytest -q -p no:cacheprovider -x tests']},
 'detected_by':None}, open(f'{d}/meta.json','w'), indent=1)
PY
  echo "$PID-$X: CONFIRMED -> $D"
else
  echo "$PID-$X: NOT CONFIRMED"
fi
