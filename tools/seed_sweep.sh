#!/bin/bash
# Applies every seeded change under /verif/seeded to a scratch copy of /repo HEAD and runs the property's quick check
# against it; prints which obligations flagged it.  Writes detected_by into meta.json.
cd /verif
for d in seeded/*/; do
  id=$(basename $d); pid=${id%-*}
  [ -n "${ONLY:-}" ] && [[ "$id" != $ONLY* ]] && continue
  T=$(mktemp -d ${TMPDIR:-/tmp}/pycel-verif-sweep.XXXXXX)
  mkdir -p $T/repo && cp -r /repo/src $T/repo/src
  (cd $T/repo && git init -q . && git add -A >/dev/null && git -c user.email=a@b -c user.name=x commit -qm base >/dev/null)
  if ! (cd $T/repo && git apply /verif/$d/patch.diff 2>/dev/null); then
    echo "$id: PATCH DOES NOT APPLY"; rm -rf $T; continue
  fi
  out=$(PYVC_NO_EVIDENCE=1 python3-vt -W ignore -m pyvc.check $pid --tier quick --repo $T/repo --no-evidence 2>&1)
  rc=$(echo "$out" | grep -E "^$pid:" | sed 's/.*exit=//')
  ded=$(echo "$out" | grep VIOLATION | grep -v "bounded stand-in" | sed 's/.*obligation=//' | awk '{print $1}' | sort -u | head -4 | tr '\n' ' ')
  bnd=$(echo "$out" | grep VIOLATION | grep "bounded stand-in" | sed 's/.*obligation=//' | awk '{print $1}' | sort -u | head -3 | tr '\n' ' ')
  und=$(echo "$out" | grep UNDECIDED | sed 's/.*obligation=//' | awk '{print $1}' | sort -u | head -3 | tr '\n' ' ')
  echo "$id: exit=$rc deductive=[$ded] bounded=[$bnd] undecided=[$und]"
  python3 - "$d" "$rc" "$ded" "$bnd" "$und" <<'PY'
import json,sys
d,rc,ded,bnd,und=sys.argv[1:6]
p=d+'meta.json'
m=json.load(open(p))
m['detected_by']={'check_exit':rc,'deductive_obligations':ded.split(),'bounded_obligations':bnd.split(),'undecided':und.split()}
json.dump(m,open(p,'w'),indent=1)
PY
  rm -rf $T
done
