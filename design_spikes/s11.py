"""normalize_year contract over A-CAL: fixed vs pinned (buggy) body, hand-encoded."""
import z3, time
t=time.time()
I=z3.IntSort()
dim=z3.Function('dim',I,I,I)          # xdim(y,m) for 1<=m<=12
first=z3.Function('first',I,I,I)      # ordinal of day 1 of month m (1..12) in year y
y,m,d=z3.Ints('y m d'); yy,mm=z3.Ints('yy mm')
ax=[z3.ForAll([yy,mm], z3.Implies(z3.And(1<=mm,mm<=12), z3.And(28<=dim(yy,mm),dim(yy,mm)<=31))),
    z3.ForAll([yy,mm], z3.Implies(z3.And(1<=mm,mm<12), first(yy,mm+1)==first(yy,mm)+dim(yy,mm))),
    z3.ForAll([yy], first(yy+1,1)==first(yy,12)+dim(yy,12))]
def norm_m(y,m):                        # python: y_plus=floor((m-1)/12)
    yp=(m-1)/12                          # z3 Int div = floor for positive divisor
    return z3.If(z3.And(1<=m,m<=12),y,y+yp), z3.If(z3.And(1<=m,m<=12),m,m-yp*12)
def ext(y,m,d):
    y2,m2=norm_m(y,m); return first(y2,m2)+d-1
# contract (assumed at recursive calls): R(y,m,d) = (y',m',d') valid and ext equal  -> use uninterpreted result funcs
ry=z3.Function('ry',I,I,I,I); rm=z3.Function('rm',I,I,I,I); rd=z3.Function('rd',I,I,I,I)
def contract(y,m,d,Y,M,D): return z3.And(1<=M,M<=12,1<=D,D<=dim(Y,M), first(Y,M)+D-1==ext(y,m,d))
def body(fixed):
    y1,m1=norm_m(y,m)
    cases=[]
    # d<=0
    if fixed:
        py,pm=norm_m(y1,m1-1); nd=d+dim(py,pm)
    else:
        nd=d+dim(y1,m1)
    cases.append((d<=0,(y1,m1-1,nd),True))
    cases.append((z3.And(d>0,d>dim(y1,m1)),(y1,m1+1,d-dim(y1,m1)),True))
    cases.append((z3.And(d>0,d<=dim(y1,m1)),(y1,m1,d),False))
    return cases
for fixed in (True,False):
    for cond,(a,b,c),rec in body(fixed):
        s=z3.Solver(); s.set('timeout',20000); s.add(ax); s.add(cond)
        if rec:
            Y,M,D=ry(a,b,c),rm(a,b,c),rd(a,b,c); s.add(contract(a,b,c,Y,M,D))   # callee contract
        else: Y,M,D=a,b,c
        s.add(z3.Not(contract(y,m,d,Y,M,D))); r=s.check()
        print('fixed' if fixed else 'pinned', cond.sexpr()[:30].replace('\n',' '), r, round(time.time()-t,2))
        if r==z3.sat:
            mo=s.model(); print('   model y,m,d =',mo.eval(y,True),mo.eval(m,True),mo.eval(d,True))
