import logging, warnings; logging.disable(logging.CRITICAL); warnings.simplefilter('ignore')
from pycel import ExcelCompiler
f='/repo/tests/fixtures/basic.xlsx'
c=ExcelCompiler(f); a=c.evaluate('Sheet1!A2'); c.set_value('Sheet1!A2', a+100); got=c.evaluate('Sheet1!B2')
d=ExcelCompiler(f); d.evaluate('Sheet1!B2'); d.set_value('Sheet1!A2', a+100); exp=d.evaluate('Sheet1!B2')
print('A2 was',a,'B2 after set (dependant built late):',got,' expected:',exp)
