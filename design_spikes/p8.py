import logging; logging.disable(logging.CRITICAL)
from openpyxl import Workbook
from pycel import ExcelCompiler
exec(open('p1.py').read().split('# C01 histories')[0])
w=wb({'A1':1,'B1':'=A1+B1'})
c=ExcelCompiler(excel=w, cycles={'iterations':5,'tolerance':0.1}); print(c.cycles, w.calculation.iterate, w.calculation.iterateCount, w.calculation.iterateDelta)
print(c.evaluate('S!B1'), c.evaluate('S!B1', iterations=3), c.evaluate('S!B1', iterations=1, tolerance=1e9))
