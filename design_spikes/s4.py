import z3, time
t=time.time()
V=z3.DeclareSort('V'); Row=z3.SeqSort(V); Mat=z3.SeqSort(Row)
NA=z3.Const('NA',V)
res=z3.Const('res',Mat); out=z3.Const('out',Mat); out2=z3.Const('out2',Mat)
H,W,h,w=z3.Ints('H W h w'); i,j=z3.Ints('i j')
repeat=z3.Function('repeat',Row,z3.IntSort(),Row)
ax=[z3.ForAll([z3.Const('r',Row),z3.Int('k')], z3.Implies(z3.Int('k')>=0, z3.Length(repeat(z3.Const('r',Row),z3.Int('k')))==z3.Length(z3.Const('r',Row))*z3.Int('k')))]
r=z3.Const('r',Row); k=z3.Int('k')
ax.append(z3.ForAll([r,k,j], z3.Implies(z3.And(z3.Length(r)==1,0<=j,j<k), repeat(r,k)[j]==r[0])))
rect=[z3.Length(res)==h,h>=1,w>=1,z3.ForAll([i],z3.Implies(z3.And(0<=i,i<h),z3.Length(res[i])==w)),H>=1,W>=1]
# path: w==1 and W!=1 : out = map(lambda r: r*W, res);   then h>H: out2 = out[:H]
mapc=[z3.Length(out)==z3.Length(res), z3.ForAll([i],z3.Implies(z3.And(0<=i,i<z3.Length(res)), out[i]==repeat(res[i],W)))]
s=z3.Solver(); s.set('timeout',30000); s.add(ax+rect+mapc+[w==1,W!=1,h>H, out2==z3.SubSeq(out,0,H)])
post=z3.And(z3.Length(out2)==H, z3.ForAll([i],z3.Implies(z3.And(0<=i,i<H), z3.And(z3.Length(out2[i])==W, z3.ForAll([j],z3.Implies(z3.And(0<=j,j<W), out2[i][j]==res[i][0]))))))
s.add(z3.Not(post)); print('expand-cols+trim-rows', s.check(), round(time.time()-t,2))
# path: w<W fill NA, h<H fill rows
fill=z3.Const('fill',Row)
s=z3.Solver(); s.set('timeout',30000)
out3=z3.Const('out3',Mat); frows=z3.Const('frows',Mat)
s.add(rect+[w!=1, w<W, h!=1, h<H, z3.Length(fill)==W-w, z3.ForAll([j],z3.Implies(z3.And(0<=j,j<W-w),fill[j]==NA)),
  z3.Length(out)==h, z3.ForAll([i],z3.Implies(z3.And(0<=i,i<h), out[i]==z3.Concat(res[i],fill))),
  z3.Length(frows)==H-h, z3.ForAll([i,j],z3.Implies(z3.And(0<=i,i<H-h,0<=j,j<W), z3.And(z3.Length(frows[i])==W, frows[i][j]==NA))),
  out3==z3.Concat(out,frows)])
post=z3.And(z3.Length(out3)==H, z3.ForAll([i,j],z3.Implies(z3.And(0<=i,i<H,0<=j,j<W), z3.And(z3.Length(out3[i])==W, out3[i][j]==z3.If(z3.And(i<h,j<w),res[i][j],NA)))))
s.add(z3.Not(post)); print('fill both', s.check(), round(time.time()-t,2))
