import z3, time
t=time.time()
Val=z3.Datatype('Val')
Val.declare('VNone'); Val.declare('VBool',('b',z3.BoolSort())); Val.declare('VInt',('i',z3.IntSort()))
Val.declare('VFloat',('r',z3.RealSort())); Val.declare('VStr',('s',z3.StringSort()))
Val=Val.create()
lower=z3.Function('lower',z3.StringSort(),z3.StringSort())
def rank(v): return z3.If(Val.is_VBool(v),2,z3.If(Val.is_VStr(v),1,0))
def num(v): return z3.If(Val.is_VInt(v),z3.ToReal(Val.i(v)),z3.If(Val.is_VFloat(v),Val.r(v),0.0))
def blank_sub(l,r):  # left None -> default of right's type
    return z3.If(Val.is_VNone(l), z3.If(Val.is_VBool(r),Val.VBool(False),z3.If(Val.is_VStr(r),Val.VStr(z3.StringVal('')),Val.VFloat(0))), l)
def lt(a,b):
    return z3.Or(rank(a)<rank(b), z3.And(rank(a)==rank(b), z3.If(rank(a)==0, num(a)<num(b), z3.If(rank(a)==1, lower(Val.s(a))<lower(Val.s(b)), z3.And(z3.Not(Val.b(a)),Val.b(b))))))
def eq(a,b):
    return z3.And(rank(a)==rank(b), z3.If(rank(a)==0, num(a)==num(b), z3.If(rank(a)==1, lower(Val.s(a))==lower(Val.s(b)), Val.b(a)==Val.b(b))))
def cmp_pair(l,r):
    l2=blank_sub(l,r); r2=blank_sub(r,l2); return l2,r2
x,y,z=z3.Consts('x y z',Val)
l,r=cmp_pair(x,y)
s=z3.Solver(); s.set('timeout',30000)
one=z3.Sum([z3.If(c,1,0) for c in (lt(l,r),eq(l,r),lt(r,l))])==1
s.add(z3.Not(one)); print('trichotomy', s.check(), round(time.time()-t,2))
# transitivity over non-blank triples
nb=[z3.Not(Val.is_VNone(v)) for v in (x,y,z)]
s=z3.Solver(); s.set('timeout',30000); s.add(nb+[lt(x,y),lt(y,z),z3.Not(lt(x,z))]); print('trans', s.check(), round(time.time()-t,2))
# blank: is transitivity preserved with blanks? (blank = neutral of other side) -> expect sat (not transitive): "a" > blank? blank=''<"a"; blank vs 1: 0<1 ; "a">1. so blank<1<"a" and blank<"a" fine. find any violation:
s=z3.Solver(); s.set('timeout',30000)
def LT(a,b):
    p,q=cmp_pair(a,b); return lt(p,q)
s.add(LT(x,y),LT(y,z),z3.Not(LT(x,z))); r_=s.check(); print('trans with blanks', r_, round(time.time()-t,2))
if r_==z3.sat: m=s.model(); print(m[x],m[y],m[z])
