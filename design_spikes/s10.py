import z3, time
t=time.time()
N=z3.DeclareSort('Node'); n,m,c=z3.Consts('n m c',N); cell,child=z3.Consts('cell child',N)
succ=z3.Function('succ',N,N,z3.BoolSort())
A=z3.ArraySort(N,z3.BoolSort())
C0=z3.Const('C0',A)      # cached at entry of _reset(cell)
def closed(Cin,Cout):   # nodes newly un-cached have all successors un-cached
    return z3.ForAll([n,m], z3.Implies(z3.And(Cin[n],z3.Not(Cout[n]),succ(n,m)), z3.Not(Cout[m])))
def mono(Cin,Cout): return z3.ForAll([n], z3.Implies(z3.Not(Cin[n]), z3.Not(Cout[n])))
def post(Cin,Cout,x): return z3.And(z3.Not(Cout[x]), closed(Cin,Cout), mono(Cin,Cout))
def chk(name,hyp,goal):
    s=z3.Solver(); s.set('timeout',20000); s.add(hyp+[z3.Not(goal)]); print(name,s.check(),round(time.time()-t,2))
# early exit path
chk('early-exit',[z3.Not(C0[cell])], post(C0,C0,cell))
# main path: C1 = C0[cell:=False]; loop over successors with processed set P
C1=z3.Store(C0,cell,False)
P=z3.Const('P',A); Ck=z3.Const('Ck',A); Ck2=z3.Const('Ck2',A)
def inv(Pset,Cur):
    return z3.And(mono(C1,Cur), z3.Not(Cur[cell]),
      z3.ForAll([m], z3.Implies(z3.And(Pset[m],succ(cell,m)), z3.Not(Cur[m]))),
      # closure for nodes newly un-cached since entry, except cell whose successors are only partly processed
      z3.ForAll([n,m], z3.Implies(z3.And(C0[n],z3.Not(Cur[n]),n!=cell,succ(n,m)), z3.Not(Cur[m]))))
hyp=[C0[cell]]
chk('inv-init',hyp, inv(z3.K(N,False),C1))
# body: pick child in succ(cell) not in P; if Cur[child]: call _reset(child) with contract post(Ck,Ck2,child) else Ck2=Ck
body_hyp=hyp+[inv(P,Ck), succ(cell,child), z3.Not(P[child])]
chk('inv-keep(call)', body_hyp+[Ck[child], post(Ck,Ck2,child)], inv(z3.Store(P,child,True),Ck2))
chk('inv-keep(skip)', body_hyp+[z3.Not(Ck[child])], inv(z3.Store(P,child,True),Ck))
# exit: P covers all successors
chk('post', hyp+[inv(P,Ck), z3.ForAll([m], z3.Implies(succ(cell,m),P[m]))], post(C0,Ck,cell))
