"""set_value(c, v) against its contract using only _reset's contract (modular), Local invariant."""
import z3, time
t=time.time()
N=z3.DeclareSort('Node'); n,m=z3.Consts('n m',N); c=z3.Const('c',N)
Val=z3.Datatype('Val'); Val.declare('VNone'); Val.declare('VBool',('b',z3.BoolSort())); Val.declare('VInt',('i',z3.IntSort())); Val.declare('VStr',('s',z3.StringSort())); Val=Val.create()
succ=z3.Function('succ',N,N,z3.BoolSort()); isform=z3.Function('isform',N,z3.BoolSort())
VA=z3.ArraySort(N,Val)
F=z3.Function('F',N,VA,Val)     # one-step meaning (depends on whole value array; frame axiom below)
def cached(h,x): return z3.Not(Val.is_VNone(h[x]))
# frame axiom for F: if two heaps agree on all succ-precedents of d, F equal
h1,h2=z3.Consts('h1 h2',VA); d=z3.Const('d',N)
axF=z3.ForAll([d,h1,h2], z3.Implies(z3.ForAll([n], z3.Implies(succ(n,d), h1[n]==h2[n])), F(d,h1)==F(d,h2)))
def Local(h): return z3.ForAll([d], z3.Implies(z3.And(isform(d),cached(h,d)),
        z3.And(h[d]==F(d,h), z3.ForAll([n], z3.Implies(z3.And(succ(n,d),isform(n)), cached(h,n))))))
def pyne(a,b):  # python a != b on Val (bool is int)
    num=lambda x: z3.If(Val.is_VBool(x), z3.If(Val.b(x),1,0), Val.i(x))
    isnum=lambda x: z3.Or(Val.is_VBool(x),Val.is_VInt(x))
    eq=z3.If(z3.And(isnum(a),isnum(b)), num(a)==num(b), a==b)
    return z3.Not(eq)
def reset_contract(hin,hout,x):
    return z3.And(z3.Not(cached(hout,x)),
        z3.ForAll([n], z3.Implies(z3.Not(cached(hin,n)), z3.Not(cached(hout,n)))),
        z3.ForAll([n], z3.Implies(cached(hout,n), hout[n]==hin[n])),
        z3.ForAll([n,m], z3.Implies(z3.And(cached(hin,n),z3.Not(cached(hout,n)),succ(n,m)), z3.Not(cached(hout,m)))))
h0=z3.Const('h0',VA); v=z3.Const('v',Val); hr=z3.Const('hr',VA)
pre=[axF, Local(h0), z3.Not(isform(c)), z3.ForAll([n],z3.Not(succ(n,n)))]
def post(h): return z3.And(h[c]==v, z3.ForAll([m], z3.Implies(z3.And(succ(c,m),isform(m)), z3.Not(cached(h,m)))), Local(h))
def chk(name,hyp,goal,model=False):
    s=z3.Solver(); s.set('timeout',30000); s.add(hyp+[z3.Not(goal)]); r=s.check(); print(name,r,round(time.time()-t,2))
    if r==z3.sat and model: mo=s.model(); print('   v =',mo.eval(v,True),' old =',mo.eval(h0[c],True))
# path skip (!= false)
chk('skip-path', pre+[z3.Not(pyne(h0[c],v))], post(h0), True)
# path write: h1=h0[c:=v]; reset(c) -> hr ; hf = hr[c:=v]
hw=z3.Store(h0,c,v); hf=z3.Store(hr,c,v)
chk('write-path v!=None', pre+[pyne(h0[c],v), z3.Not(Val.is_VNone(v)), reset_contract(hw,hr,c)], post(hf))
chk('write-path v==None', pre+[pyne(h0[c],v), Val.is_VNone(v), reset_contract(hw,hr,c)], post(hf), True)
