import z3, subprocess, time
s=z3.String('s'); f=z3.String('f'); q=z3.Int('q'); L=z3.Length(s)
idx=z3.IndexOf(s,f,0)
for name,hyp,goal in [('match',[idx>=0], z3.SubString(s,idx,z3.Length(f))==f),('first',[idx>=0,q>=0,q<idx], z3.SubString(s,q,z3.Length(f))!=f)]:
    sv=z3.Solver(); sv.add(hyp+[z3.Not(goal)])
    txt='(set-logic ALL)\n'+sv.to_smt2()
    open(f'{name}.smt2','w').write(txt)
    t=time.time()
    for cmd in (['/usr/bin/cvc5','--strings-exp','--tlimit=30000',f'{name}.smt2'],['/usr/bin/z3','-T:30',f'{name}.smt2']):
        r=subprocess.run(cmd,capture_output=True,text=True); print(name,cmd[0],r.stdout.strip()[:40],r.stderr.strip()[:80],round(time.time()-t,2))
