"""Spike: symbolic execution of the REAL AddressMixin._union_instersection / inc_col from /repo source."""
import ast, z3, time, sys
SRC='/repo/src/pycel/excelutil.py'
tree=ast.parse(open(SRC).read())
def find(cls,fn):
    for n in tree.body:
        if isinstance(n,ast.ClassDef) and n.name==cls:
            for m in n.body:
                if isinstance(m,ast.FunctionDef) and m.name==fn: return m
consts={n.targets[0].id:n.value.value for n in tree.body if isinstance(n,ast.Assign) and isinstance(n.value,ast.Constant) and isinstance(n.targets[0],ast.Name)}
class Rec(dict): pass          # symbolic record: field -> term/Rec
class Ret(Exception): pass
def mk_addr(name):             # abstract address: sheet, col_idx,row, size(height,width)
    r=Rec(sheet=z3.String(name+'_sheet'),col_idx=z3.Int(name+'_c'),row=z3.Int(name+'_r'))
    r['size']=Rec(height=z3.Int(name+'_h'),width=z3.Int(name+'_w')); return r
paths=[]   # (pathcond, result)
def truth(v):
    if isinstance(v,z3.BoolRef): return v
    if z3.is_string(v): return z3.Length(v)>0
    if z3.is_int(v): return v!=0
    if isinstance(v,bool): return z3.BoolVal(v)
    raise NotImplementedError(v)
def ev(e,env,pc):
    if isinstance(e,ast.Name):
        if e.id in env: return env[e.id]
        if e.id in consts: c=consts[e.id]; return z3.StringVal(c) if isinstance(c,str) else z3.IntVal(c)
        raise NotImplementedError(e.id)
    if isinstance(e,ast.Constant):
        return z3.IntVal(e.value) if isinstance(e.value,int) else z3.StringVal(e.value)
    if isinstance(e,ast.Attribute): return ev(e.value,env,pc)[e.attr]
    if isinstance(e,ast.BinOp):
        l,r=ev(e.left,env,pc),ev(e.right,env,pc)
        return {ast.Add:lambda:l+r,ast.Sub:lambda:l-r,ast.Mod:lambda:l%r}[type(e.op)]()   # z3 int mod == python mod for positive modulus
    if isinstance(e,ast.Compare):
        l=ev(e.left,env,pc); out=[]
        for op,c in zip(e.ops,e.comparators):
            r=ev(c,env,pc); out.append({ast.Lt:lambda:l<r,ast.Eq:lambda:l==r,ast.NotEq:lambda:l!=r}[type(op)]()); l=r
        return z3.And(out)
    if isinstance(e,ast.BoolOp):
        vs=[ev(v,env,pc) for v in e.values]
        if isinstance(e.op,ast.And) and all(isinstance(v,z3.BoolRef) for v in vs): return z3.And(vs)
        if isinstance(e.op,ast.Or):   # python 'a or b' on values
            a,b=vs; 
            if isinstance(a,z3.BoolRef): return z3.Or(a,truth(b))
            return z3.If(truth(a),a,b)
        if isinstance(e.op,ast.And): return z3.And([truth(v) for v in vs])
    if isinstance(e,ast.UnaryOp) and isinstance(e.op,ast.Not): return z3.Not(truth(ev(e.operand,env,pc)))
    if isinstance(e,ast.Tuple): return tuple(ev(x,env,pc) for x in e.elts)
    if isinstance(e,ast.Call):
        f=e.func
        args=[ev(a,env,pc) for a in e.args]; kw={k.arg:ev(k.value,env,pc) for k in e.keywords}
        if isinstance(f,ast.Name) and f.id in env and callable(env[f.id]): return env[f.id](*args)
        if isinstance(f,ast.Name) and f.id=='is_address': return z3.BoolVal(True)          # contract: operands are addresses
        if isinstance(f,ast.Name) and f.id in('AddressCell','AddressRange'):               # constructor contract (tuple branch)
            c0,r0,c1,r1=args[0]; return Rec(kind=f.id,sheet=kw['sheet'],c0=c0,r0=r0,c1=c1,r1=r1)
        raise NotImplementedError(ast.dump(e))
    raise NotImplementedError(ast.dump(e))
def run(stmts,env,pc):
    for i,s in enumerate(stmts):
        if isinstance(s,ast.Expr) and isinstance(s.value,ast.Constant): continue       # docstring dropped
        if isinstance(s,ast.Assign): env=dict(env); env[s.targets[0].id]=ev(s.value,env,pc)
        elif isinstance(s,ast.Return): paths.append((pc,ev(s.value,env,pc))); return None
        elif isinstance(s,ast.If):
            c=truth(ev(s.test,env,pc))
            for cond,blk in ((c,s.body),(z3.Not(c),s.orelse)):
                sv=z3.Solver(); sv.add(wf+pc+[cond])
                if sv.check()!=z3.unsat: run(blk+stmts[i+1:],env,pc+[cond])
            return None
        else: raise NotImplementedError(ast.dump(s))
    paths.append((pc,None))
t=time.time()
fn=find('AddressMixin','_union_instersection')
a,b=mk_addr('a'),mk_addr('b')
Min=lambda x,y: z3.If(x<=y,x,y); Max=lambda x,y: z3.If(x>=y,x,y)
wf=[a['col_idx']>=1,a['row']>=1,a['size']['width']>=1,a['size']['height']>=1,b['col_idx']>=1,b['row']>=1,b['size']['width']>=1,b['size']['height']>=1]
def check(label,min_,max_,spec):
    global paths; paths=[]
    run(fn.body,{'self':a,'other':b,'min_':min_,'max_':max_},[])
    ok=True
    for pc,res in paths:
        s=z3.Solver(); s.add(wf+pc); 
        if s.check()!=z3.sat: continue   # unreachable
        s.add(z3.Not(spec(res))); r=s.check(); ok&=(r==z3.unsat)
        print(' ',label,'path',len(pc),'->',res if not isinstance(res,Rec) else res['kind'],r)
    return ok
# spec for intersection: in terms of cells predicate
c,r=z3.Ints('c r')
inA=z3.And(a['col_idx']<=c,c<a['col_idx']+a['size']['width'],a['row']<=r,r<a['row']+a['size']['height'])
inB=z3.And(b['col_idx']<=c,c<b['col_idx']+b['size']['width'],b['row']<=r,r<b['row']+b['size']['height'])
clash=z3.And(z3.Length(a['sheet'])>0,z3.Length(b['sheet'])>0,a['sheet']!=b['sheet'])
def spec_meet(res):
    if isinstance(res,Rec):
        inR=z3.And(res['c0']<=c,c<=res['c1'],res['r0']<=r,r<=res['r1'])
        single=z3.And(res['c0']==res['c1'],res['r0']==res['r1'])
        return z3.And(z3.Not(clash), z3.ForAll([c,r], inR==z3.And(inA,inB)), single==(res['kind']=='AddressCell'))
    return z3.If(clash,res==z3.StringVal('#VALUE!'), z3.And(res==z3.StringVal('#NULL!'), z3.ForAll([c,r],z3.Not(z3.And(inA,inB)))))
print('meet ok:',check('meet',Max,Min,spec_meet), round(time.time()-t,2),'s')
# mutant: swap min/max roles -> must fail
print('mutant(meet with min,max) ok:',check('mut',Min,Max,spec_meet))
