import logging; logging.disable(logging.CRITICAL)
from openpyxl import Workbook
from pycel import ExcelCompiler
from pycel.excelformula import ExcelFormula
exec(open('p1.py').read().split('# C01 histories')[0])
for f in ['=SUM((A1):(A3))','=SUM(A1:A2:A3)','=SUM(A1:A3 A2:B2)','=SUM(A1:INDEX(A1:A3,3))','=ROW(A3)','=INDEX(A1:A3,2)', '=SUM(A:A)', '=A1:A3 A2:B2', '=SUM(S!A1:A3)', "=SUM('S'!A1:A3)"]:
    try:
        class C: sheet='S'; excel=None; address=None
        ef=ExcelFormula(f, cell=C()); print(f,'|',ef.python_code,'|',[str(a) for a in ef.needed_addresses])
    except Exception as e: print(f,'EXC',type(e).__name__,e)
def c04b():
    c=ExcelCompiler(excel=wb({'A1':1,'A2':2,'A3':3,'B2':7,'C1':'=SUM(A1:A3 A2:B2)'})); r=[c.evaluate('S!C1')]; c.set_value('S!A2',20); r.append(c.evaluate('S!C1')); return r
T('C04 intersect', c04b)
def c04c():
    c=ExcelCompiler(excel=wb({'A1':1,'A2':2,'A3':3,'C1':'=SUM(A1:INDEX(A1:A3,3))'})); r=[c.evaluate('S!C1')]; c.set_value('S!A2',20); r.append(c.evaluate('S!C1')); return r
T('C04 A1:INDEX', c04c)
