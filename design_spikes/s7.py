import z3, time
t=time.time()
s=z3.String('s'); n,k,p=z3.Ints('n k p'); tt=z3.String('t'); f=z3.String('f')
L=z3.Length(s)
def clamp(i): return z3.If(i<0,0,z3.If(i>L,L,i))
def pyslice(a,b):   # s[a:b] for a,b >=0
    a2,b2=clamp(a),clamp(b); return z3.SubString(s,a2,z3.If(b2>a2,b2-a2,0))
left=pyslice(0,n); mid=pyslice(n,n+L)   # MID(s,n+1,LEN(s)) -> start=n
def chk(name,hyp,goal):
    sv=z3.Solver(); sv.set('timeout',20000); sv.add(hyp+[z3.Not(goal)]); print(name,sv.check(),round(time.time()-t,2))
chk('left&mid',[n>=0], z3.Concat(left,mid)==s)
rep=z3.Concat(pyslice(0,p-1),tt,pyslice(p-1+k,L+p+k))
chk('replace',[p>=1,k>=0], rep==z3.Concat(pyslice(0,p-1),tt,pyslice(p-1+k,p-1+k+L)))
# right: s[-k:] for k>0  == last min(k,L) chars
right=z3.SubString(s,z3.If(k>=L,0,L-k),z3.If(k>=L,L,k))
chk('right len',[k>0], z3.Length(right)==z3.If(k<L,k,L))
chk('right suffix',[k>0], z3.SuffixOf(right,s))
# find: first match
idx=z3.IndexOf(s,f,0)
q=z3.Int('q')
chk('find is match',[idx>=0], z3.SubString(s,idx,z3.Length(f))==f)
chk('find is first',[idx>=0,q>=0,q<idx], z3.SubString(s,q,z3.Length(f))!=f)
chk('find none',[idx<0,q>=0,q<=L], z3.Or(z3.SubString(s,q,z3.Length(f))!=f, z3.Length(f)+q>L))
