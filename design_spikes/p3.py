import logging, threading, os, tempfile; logging.disable(logging.CRITICAL)
from openpyxl import Workbook
from pycel import ExcelCompiler
exec(open('p1.py').read().split('# C01 histories')[0])
d=tempfile.mkdtemp()
def c03a():
    c=ExcelCompiler(excel=wb({'A1':'=B1&"y"','B1':'x','C1':"'=A1"})); c.excel.workbook['S']['C1']='=A1'; return None
def c03b():
    w=wb({'A1':1,'B1':'=A1+C1','C1':'=1+1'}); c=ExcelCompiler(excel=w); c.evaluate('S!B1'); c.set_value('S!C1','=zzz') ; 
    c.cell_map['S!C1'].formula=None
    fn=os.path.join(d,'m'); c.to_file(fn, file_types=('yml',)); l=ExcelCompiler.from_file(fn+'.yml'); return l.cell_map['S!C1'].formula, l.cell_map['S!C1'].value
T('C03 "=.." text const', c03b)
def c03c():
    w=wb({'A1':1,'B1':'=A1+B1'}); c=ExcelCompiler(excel=w, cycles={'iterations':5,'tolerance':0.1}); c.evaluate('S!B1'); fn=os.path.join(d,'it'); c.to_file(fn, file_types=('yml','pkl'))
    import subprocess, sys
    return subprocess.run([sys.executable,'-c',f"import logging;logging.disable(50)\nfrom pycel import ExcelCompiler\nc=ExcelCompiler.from_file({fn!r}+'.yml')\nprint(c.evaluate('S!B1'))"],capture_output=True,text=True).stderr[-200:]
T('C03 iterative fresh process', c03c)
def c07():
    out=[]
    def run():
        try:
            c=ExcelCompiler(excel=wb({'A1':1,'B1':'=A1+B1'}), cycles={'iterations':5,'tolerance':0.1}); out.append(c.evaluate('S!B1'))
        except Exception as e: out.append(repr(e))
    t=threading.Thread(target=run); t.start(); t.join(); return out
T('C07 fresh thread iterative', c07)
def c09():
    c=ExcelCompiler(excel=wb({'A1':1,'B1':'=NOPE(A1)','C1':'=B1+1','D1':'=A1*2'})); r=[]
    for a in ('S!C1','S!C1','S!D1'):
        try: r.append(c.evaluate(a))
        except Exception as e: r.append(type(e).__name__)
    c.set_value('S!B1', 5); r.append(c.evaluate('S!C1')); return r
T('C09 plain', c09)
def c09b():
    c=ExcelCompiler(excel=wb({'A1':1,'B1':'=NOPE(A1)','C1':'=B1+1','D1':'=A1*2'}), cycles={'iterations':5,'tolerance':0.1}); r=[]
    for a in ('S!C1','S!C1','S!D1'):
        try: r.append(c.evaluate(a))
        except Exception as e: r.append(type(e).__name__)
    c.set_value('S!B1', 5); r.append(c.evaluate('S!C1')); return r
T('C09 iterative', c09b)
def c09c():
    c=ExcelCompiler(excel=wb({'A1':'x','B1':'=NOPE(A1)','C1':'=(A1+1)+B1'}))
    try: return c.evaluate('S!C1')
    except Exception as e: return type(e).__name__
T('C09 outer captured + inner fail', c09c)
