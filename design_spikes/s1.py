import z3, time
t=time.time()
# radix: for mask=2^k, v in [-mask,mask): u = v+2mask if v<0 else v ; (u & ~mask) - (u & mask) == v   using BV64
for k in (9,29,39):
    v=z3.BitVec('v',64); mask=z3.BitVecVal(1<<k,64)
    u=z3.If(v<0, v+(mask<<1), v)
    s=z3.Solver(); s.add(v>=-mask, v<mask); s.add(((u & ~mask)-(u & mask))!=v)
    print(k, s.check())
# Val datatype
Val=z3.Datatype('Val')
Val.declare('VNone'); Val.declare('VBool',('b',z3.BoolSort())); Val.declare('VInt',('i',z3.IntSort()))
Val.declare('VFloat',('r',z3.RealSort())); Val.declare('VStr',('s',z3.StringSort()))
Val=Val.create()
x=z3.Const('x',Val); y=z3.Const('y',Val)
lower=z3.Function('lower',z3.StringSort(),z3.StringSort())
# rank/key total order trichotomy on strings via lower
a,b,c=z3.Strings('a b c')
s=z3.Solver(); s.set('timeout',20000)
lt=lambda p,q: z3.StrLT(p,q) if hasattr(z3,'StrLT') else p<q
s.add(z3.Not(z3.Or(a<b, a==b, b<a)))
print('trich', s.check(), time.time()-t)
s=z3.Solver(); s.set('timeout',20000)
s.add(a<b,b<c,z3.Not(a<c)); print('trans', s.check(), time.time()-t)
