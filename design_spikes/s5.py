import z3, time
t=time.time()
V=z3.DeclareSort('V'); NA=z3.Const('NA',V)
Row=z3.Datatype('Row'); Row.declare('row',('len',z3.IntSort()),('at',z3.ArraySort(z3.IntSort(),V))); Row=Row.create()
Mat=z3.Datatype('Mat'); Mat.declare('mat',('len',z3.IntSort()),('at',z3.ArraySort(z3.IntSort(),Row))); Mat=Mat.create()
i,j=z3.Ints('i j'); H,W,h,w=z3.Ints('H W h w')
res=z3.Const('res',Mat)
def rrepeat(r,k): return Row.row(Row.len(r)*k, z3.Lambda([j], Row.at(r)[j % Row.len(r)]))
def rslice(r,n): return Row.row(z3.If(n<Row.len(r),z3.If(n<0,0,n),Row.len(r)), Row.at(r))
def rcat(a,b): return Row.row(Row.len(a)+Row.len(b), z3.Lambda([j], z3.If(j<Row.len(a),Row.at(a)[j],Row.at(b)[j-Row.len(a)])))
def rconst(v,n): return Row.row(n, z3.Lambda([j], v))
def mmap(f,m): return Mat.mat(Mat.len(m), z3.Lambda([i], f(Mat.at(m)[i])))
def mslice(m,n): return Mat.mat(z3.If(n<Mat.len(m),n,Mat.len(m)), Mat.at(m))
def mcat(a,b): return Mat.mat(Mat.len(a)+Mat.len(b), z3.Lambda([i], z3.If(i<Mat.len(a),Mat.at(a)[i],Mat.at(b)[i-Mat.len(a)])))
def mrepeat(m,k): return Mat.mat(Mat.len(m)*k, z3.Lambda([i], Mat.at(m)[i % Mat.len(m)]))
rect=[Mat.len(res)==h,h>=1,w>=1,z3.ForAll([i],z3.Implies(z3.And(0<=i,i<h),Row.len(Mat.at(res)[i])==w)),H>=1,W>=1]
def expected(ii,jj):
    si=z3.If(h==1,0,ii); sj=z3.If(w==1,0,jj)
    cov=z3.And(z3.Or(h==1,ii<h), z3.Or(w==1,jj<w))
    return z3.If(cov, Row.at(Mat.at(res)[si])[sj], NA)
def post(out):
    a,b=z3.Ints('a b')
    return z3.And(Mat.len(out)==H, z3.ForAll([a,b], z3.Implies(z3.And(0<=a,a<H,0<=b,b<W), z3.And(Row.len(Mat.at(out)[a])==W, Row.at(Mat.at(out)[a])[b]==expected(a,b)))))
# enumerate the 3x3 branch combos as the code does
n=0
for wc,wname in ((z3.And(w==1,W!=1),'expandW'),(z3.And(z3.Not(z3.And(w==1,W!=1)),w>W),'trimW'),(z3.And(z3.Not(z3.And(w==1,W!=1)),z3.Not(w>W),w<W),'fillW'),(z3.And(z3.Not(z3.And(w==1,W!=1)),w==W),'sameW')):
    if wname=='expandW': r1=mmap(lambda r: rrepeat(r,W),res)
    elif wname=='trimW': r1=mmap(lambda r: rslice(r,W),res)
    elif wname=='fillW': r1=mmap(lambda r: rcat(r,rconst(NA,W-w)),res)
    else: r1=res
    for hc,hname in ((z3.And(h==1,H!=1),'expandH'),(z3.And(z3.Not(z3.And(h==1,H!=1)),h>H),'trimH'),(z3.And(z3.Not(z3.And(h==1,H!=1)),z3.Not(h>H),h<H),'fillH'),(z3.And(z3.Not(z3.And(h==1,H!=1)),h==H),'sameH')):
        if hname=='expandH': r2=mrepeat(r1,H)
        elif hname=='trimH': r2=mslice(r1,H)
        elif hname=='fillH': r2=mcat(r1, mrepeat(Mat.mat(1,z3.Lambda([i],rconst(NA,W))),H-h))
        else: r2=r1
        s=z3.Solver(); s.set('timeout',20000); s.add(rect+[wc,hc,z3.Not(post(r2))]); r=s.check(); n+=1
        print(wname,hname,r,round(time.time()-t,2))
