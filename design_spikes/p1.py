import logging; logging.disable(logging.CRITICAL)
from openpyxl import Workbook
from pycel import ExcelCompiler
def wb(cells, sheet='S'):
    w=Workbook(); ws=w.active; ws.title=sheet
    for k,v in cells.items(): ws[k]=v
    return w
def T(name, f):
    try: print(name, '->', f())
    except Exception as e: print(name, 'EXC', type(e).__name__, str(e)[:120].replace('\n',' | '))
# C01 histories
def c01a():
    c=ExcelCompiler(excel=wb({'A1':5,'B1':'=A1+1'})); r=[c.evaluate('S!B1')]; c.set_value('S!A1',None); r.append(c.evaluate('S!B1')); return r
def c01b():
    c=ExcelCompiler(excel=wb({'A1':0,'B1':'=A1&"x"'})); r=[c.evaluate('S!B1')]; c.set_value('S!A1',False); r.append(c.evaluate('S!B1')); return r
T('C01 set None', c01a); T('C01 0->False', c01b)
# C04 union operator
def c04():
    c=ExcelCompiler(excel=wb({'A1':1,'A2':2,'A3':3,'B1':'=SUM((A1):(A3))'})); r=[c.evaluate('S!B1'), c.cell_map['S!B1'].formula.python_code, [str(a) for a in c.cell_map['S!B1'].formula.needed_addresses]]; c.set_value('S!A2',20); r.append(c.evaluate('S!B1')); return r
T('C04 union', c04)
# C08 trim before evaluating on no-data wb
def c08():
    c=ExcelCompiler(excel=wb({'A1':1,'A2':'=10*2','B1':'=A1+A2'})); c.trim_graph(['S!A1'],['S!B1']); return c.evaluate('S!B1'), {k:(str(v.formula),v.value) for k,v in c.cell_map.items()}
T('C08 trim unevaluated', c08)
# C06 iterative ranges
def c06():
    c=ExcelCompiler(excel=wb({'A1':1,'A2':2,'B1':'=SUM(A1:A2)'}), cycles={'iterations':10,'tolerance':0.01}); r=[c.evaluate('S!B1')]; c.set_value('S!A1',100); r.append(c.evaluate('S!B1')); return r
T('C06 iter range', c06)
