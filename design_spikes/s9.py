import z3, time
t=time.time()
n,s=z3.Reals('n s'); k=z3.Int('k')
def chk(name,hyp,goal):
    sv=z3.Solver(); sv.set('timeout',20000); sv.add(hyp+[z3.Not(goal)]); print(name,sv.check(),round(time.time()-t,2))
# ceil(y) as integer k with k-1 < y <= k ; y = n/s  <=> (k-1)*s < n <= k*s for s>0
hyp=[s>0, z3.ToReal(k)-1 < n/s, n/s <= z3.ToReal(k)]
res=s*z3.ToReal(k)
chk('ceil >= n',hyp,res>=n); chk('ceil - n < s',hyp,res-n<s)
# ceiling(number<0<significance): s*int(n/s) trunc toward zero: k with  y<=k<y+1 (since y<0, trunc=ceil)
# mod: n - d*floor(n/d) has sign of d
d=z3.Real('d'); m=z3.Int('m')
hyp=[d!=0, z3.ToReal(m)<=n/d, n/d<z3.ToReal(m)+1]; r=n-d*z3.ToReal(m)
chk('mod sign pos',hyp+[d>0], z3.And(r>=0,r<d)); chk('mod sign neg',hyp+[d<0], z3.And(r<=0,r>d))
# even: copysign(ceil(|v|/2)*2, v)
v=z3.Real('v'); e=z3.Int('e'); av=z3.If(v<0,-v,v)
hyp=[z3.ToReal(e)-1<av/2, av/2<=z3.ToReal(e)]
chk('even', hyp, z3.And(2*z3.ToReal(e)>=av, 2*z3.ToReal(e)-av<2))
