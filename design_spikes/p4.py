import logging; logging.disable(logging.CRITICAL)
from openpyxl import Workbook
from pycel import ExcelCompiler
exec(open('p1.py').read().split('# C01 histories')[0])
def u():
    c=ExcelCompiler(excel=wb({'A1':1,'A2':2,'A3':3,'B1':'=SUM(A:A)'})); r=[c.evaluate('S!B1')]
    r.append(sorted((str(a),str(b)) for a,b in ((x.address,y.address) for x,y in c.dep_graph.edges())))
    c.set_value('S!A2',20); r.append(c.evaluate('S!B1')); return r
T('unbounded', u)
def v():
    c=ExcelCompiler(excel=wb({'A1':1,'A2':2,'A3':3,'B1':'=SUM(A1:A3)','C1':'=B1*2'})); r=[c.evaluate('S!A1:A3')]; c.set_value('S!A2',20); r.append(c.evaluate('S!C1')); r.append(c.evaluate('S!B1')); return r
T('set before dependants built', v)
