"""Symbolic interpreter for the accepted Python subset over the real source.

Reads modules of /repo/src/pycel (and the contract sidecars) as text, parses
them with `ast` and executes function bodies on symbolic values, forking paths
through an Explorer.  Anything outside the subset raises Unsupported, which
makes the whole function "out of reach" (never silently dropped).
"""
import ast
import hashlib
import operator
import os

import z3

from . import sym
from .sym import (PyExc, SBool, SFloat, SInt, SStr, SV, Unsupported,
                  as_int_term, as_real_term, is_floatlike, is_intlike,
                  is_numlike, is_strlike, lift, mk_bool, mk_float, mk_int,
                  mk_str, str_term)


class ReturnSig(Exception):
    def __init__(self, value):
        self.value = value


class BreakSig(Exception):
    pass


class ContinueSig(Exception):
    pass


DROPPED_CALL_PREFIXES = ('self.log.', 'pycel_logger.', 'logging.', 'print',
                         'warnings.')


# ---------------------------------------------------------------------------
# program model: modules, classes, functions
# ---------------------------------------------------------------------------

class ModuleModel:
    def __init__(self, world, name, path):
        self.world = world
        self.name = name
        self.path = path
        with open(path, encoding='utf-8') as f:
            self.source = f.read()
        self.tree = ast.parse(self.source, filename=path)
        self.globals = {}
        self.binders = {}
        self._twins = None
        self._index(self.tree.body)
        self.evaluating = set()

    def _index(self, body):
        for node in body:
            if isinstance(node, (ast.FunctionDef, ast.ClassDef)):
                self.binders[node.name] = node
            elif isinstance(node, ast.Assign):
                for tgt in node.targets:
                    for n in ast.walk(tgt):
                        if isinstance(n, ast.Name):
                            self.binders[n.id] = node
            elif isinstance(node, ast.AnnAssign) and isinstance(node.target, ast.Name):
                self.binders[node.target.id] = node
            elif isinstance(node, (ast.Import, ast.ImportFrom)):
                for a in node.names:
                    self.binders[(a.asname or a.name).split('.')[0]] = node
            elif isinstance(node, ast.If):
                # module-level version switches: index both arms, first wins
                self._index(node.orelse)
                self._index(node.body)
            elif isinstance(node, ast.Try):
                self._index(node.body)

    def segment(self, node):
        return ast.get_source_segment(self.source, node) or ''

    def twins(self):
        """SYMBOLIC_TWINS = {'spec_fn': 'module:impl'} of a sidecar: spec primitives
        whose symbolic meaning is a trusted model instead of their Python body."""
        if self._twins is None:
            self._twins = {}
            node = self.binders.get('SYMBOLIC_TWINS')
            if isinstance(node, ast.Assign):
                self._twins = ast.literal_eval(node.value)
        return self._twins

    def lookup(self, name):
        if name in self.globals:
            return self.globals[name]
        if name not in self.binders:
            raise KeyError(name)
        if name != 'SYMBOLIC_TWINS' and name in self.twins():
            import importlib
            modname, fn = self.twins()[name].split(':')
            impl = getattr(importlib.import_module(modname), fn)
            val = Builtin(f'twin:{name}', impl)
            self.globals[name] = val
            return val
        node = self.binders[name]
        interp = self.world.interp
        if isinstance(node, ast.FunctionDef):
            val = Closure(node, None, self, node.name)
            if node.decorator_list:
                val = interp.apply_decorators(node, val, Env({}, None, self))
        elif isinstance(node, ast.ClassDef):
            val = ClassModel(node, self)
        elif isinstance(node, ast.ImportFrom):
            val = self.world.import_from(node, name, self)
        elif isinstance(node, ast.Import):
            real = name
            for a in node.names:
                if (a.asname or a.name).split('.')[0] == name:
                    real = a.name if a.asname else a.name.split('.')[0]
            val = self.world.import_module_obj(real)
        else:
            if name in self.evaluating:
                raise Unsupported(f'cyclic module global {name}', node)
            self.evaluating.add(name)
            try:
                env = Env({}, None, self)
                if isinstance(node, ast.AnnAssign):
                    val = interp.eval(node.value, env)
                else:
                    interp.exec_stmt(node, env)
                    for k, v in env.vars.items():
                        self.globals[k] = v
                    val = self.globals[name]
            finally:
                self.evaluating.discard(name)
        self.globals[name] = val
        return val


class ClassModel:
    def __init__(self, node, module):
        self.node = node
        self.module = module
        self.name = node.name
        self.attrs = {}
        self.ntfields = None
        self.bases = None
        self._resolved = False
        for st in node.body:
            if isinstance(st, ast.FunctionDef):
                if any(isinstance(d, ast.Attribute) and d.attr in ('setter', 'deleter') for d in st.decorator_list):
                    continue        # reading the attribute finds the getter; stores look the setter up themselves
                self.attrs[st.name] = st
            elif isinstance(st, ast.Assign):
                for tgt in st.targets:
                    if isinstance(tgt, ast.Name):
                        self.attrs[tgt.id] = st

    def resolve(self):
        if self._resolved:
            return
        self._resolved = True
        self.bases = []
        for b in self.node.bases:
            if (isinstance(b, ast.Call) and isinstance(b.func, ast.Attribute)
                    and b.func.attr == 'namedtuple'):
                fields = ast.literal_eval(b.args[1])
                if isinstance(fields, str):
                    fields = fields.replace(',', ' ').split()
                self.ntfields = tuple(fields)
            elif isinstance(b, ast.Name):
                try:
                    base = self.module.lookup(b.id)
                except KeyError:
                    base = None
                if isinstance(base, ClassModel):
                    base.resolve()
                    self.bases.append(base)
                    if base.ntfields and not self.ntfields:
                        self.ntfields = base.ntfields
                elif b.id in ('object',):
                    pass
                elif b.id in sym.EXC_PARENTS or b.id == 'tuple':
                    self.bases.append(b.id)
                else:
                    raise Unsupported(f'base class {b.id}', self.node)
            elif isinstance(b, ast.Attribute):
                self.bases.append(ast.unparse(b))
            else:
                raise Unsupported('base class expression', self.node)

    def mro(self):
        self.resolve()
        out = [self]
        for b in self.bases:
            if isinstance(b, ClassModel):
                for c in b.mro():
                    if c not in out:
                        out.append(c)
        return out

    def find(self, name, after=None):
        """Return (class, ast node) defining `name`, following the MRO."""
        mro = self.mro()
        if after is not None:
            mro = mro[mro.index(after) + 1:]
        for c in mro:
            if name in c.attrs:
                return c, c.attrs[name]
        return None, None

    def is_exception(self):
        self.resolve()
        for b in self.bases:
            if isinstance(b, str) and b in sym.EXC_PARENTS:
                return True
            if isinstance(b, ClassModel) and b.is_exception():
                return True
        return False

    def __repr__(self):
        return f'<class {self.name}>'


class SObj:
    """Instance of a repo class (namedtuple based or plain)."""

    def __init__(self, cls, fields):
        self.cls = cls
        self.fields = fields

    def nt_items(self):
        return tuple(self.fields[f] for f in self.cls.ntfields)

    def __repr__(self):
        return f'<{self.cls.name} {self.fields}>'


class Closure:
    def __init__(self, node, env, module, name, cls=None):
        self.node = node
        self.env = env
        self.module = module
        self.name = name
        self.cls = cls

    def __repr__(self):
        return f'<function {self.name}>'


class BoundMethod:
    def __init__(self, obj, func):
        self.obj = obj
        self.func = func


class Builtin:
    def __init__(self, name, impl):
        self.name = name
        self.impl = impl

    def __repr__(self):
        return f'<builtin {self.name}>'


class Partial:
    def __init__(self, func, args, kwargs):
        self.func = func
        self.args = args
        self.kwargs = kwargs


class SuperProxy:
    def __init__(self, after, cls_or_obj):
        self.after = after
        self.target = cls_or_obj


class NTNew:
    """The namedtuple base's __new__."""

    def __init__(self, cls):
        self.cls = cls


class ExternalModule:
    def __init__(self, name):
        self.name = name

    def __repr__(self):
        return f'<module {self.name}>'


class Env:
    def __init__(self, vars_, parent, module):
        self.vars = vars_
        self.parent = parent
        self.module = module
        self.nonlocals = set()

    def lookup(self, name):
        e = self
        while e is not None:
            if name in e.vars:
                return e.vars[name]
            e = e.parent
        raise KeyError(name)

    def assign_nonlocal(self, name, value):
        e = self.parent
        while e is not None:
            if name in e.vars:
                e.vars[name] = value
                return
            e = e.parent
        raise Unsupported(f'nonlocal {name} not found')


# ---------------------------------------------------------------------------
# the world: module registry + contract registry
# ---------------------------------------------------------------------------

STDLIB_SOURCE_MODULES = {
    'bisect': 'A-CBISECT: the C accelerator _bisect computes the same functions as Lib/bisect.py of the same '
              'interpreter (the python source is what is read and verified)',
}
_STDLIB_DIR = None


def stdlib_dir():
    global _STDLIB_DIR
    if _STDLIB_DIR is None:
        import subprocess
        py = os.environ.get('PYVC_TARGET_PYTHON', '/venv/bin/python')
        try:
            out = subprocess.run([py, '-c', 'import sysconfig; print(sysconfig.get_paths()["stdlib"])'],
                                 capture_output=True, text=True, timeout=60)
            _STDLIB_DIR = out.stdout.strip() or '/nonexistent'
        except Exception:
            _STDLIB_DIR = '/nonexistent'
    return _STDLIB_DIR


class World:
    def __init__(self, repo_src, explorer, extra_roots=None):
        self.repo_src = repo_src
        self.explorer = explorer
        self.modules = {}
        self.roots = [repo_src] + list(extra_roots or [])
        self.contracts = {}      # qualified target -> contract object
        self.inlined = set()     # repo functions executed by inlining
        self.dropped = set()     # dropped constructs (logging etc.)
        self.trusted = set()     # trusted built-in models used
        self.interp = Interp(self)
        from . import builtins_model
        self.builtins = builtins_model.make_builtins(self)
        self.external = builtins_model.make_externals(self)

    def module(self, name):
        if name in self.modules:
            return self.modules[name]
        if name in STDLIB_SOURCE_MODULES:
            # a pure-python module of the standard library of the interpreter that runs pycel, read as
            # source and executed symbolically like repository code (its C accelerator is an assumption)
            path = os.path.join(stdlib_dir(), name + '.py')
            if os.path.exists(path):
                m = ModuleModel(self, name, path)
                self.modules[name] = m
                self.trusted.add(STDLIB_SOURCE_MODULES[name])
                return m
        rel = name.replace('.', '/')
        for root in self.roots:
            for cand in (os.path.join(root, rel + '.py'),
                         os.path.join(root, rel, '__init__.py')):
                if os.path.exists(cand):
                    m = ModuleModel(self, name, cand)
                    self.modules[name] = m
                    return m
        raise KeyError(name)

    def import_module_obj(self, name):
        try:
            return self.module(name)
        except KeyError:
            return ExternalModule(name)

    def import_from(self, node, name, frm):
        modname = node.module or ''
        if node.level:
            base = frm.name.split('.')
            base = base[:len(base) - node.level]
            modname = '.'.join(base + ([modname] if modname else []))
        orig = name
        for a in node.names:
            if (a.asname or a.name) == name:
                orig = a.name
        key = f'{modname}.{orig}'
        if key in self.external:
            return self.external[key]
        try:
            mod = self.module(modname)
        except KeyError:
            try:
                return self.module(key)
            except KeyError:
                pass
            raise Unsupported(f'import of external {key}', node)
        try:
            return mod.lookup(orig)
        except KeyError:
            try:
                return self.module(key)
            except KeyError:
                raise Unsupported(f'cannot resolve {key}', node)

    def resolve_target(self, target):
        """'pycel.excelutil:AddressMixin._union_instersection' -> Closure."""
        modname, qual = target.split(':')
        mod = self.module(modname)
        parts = qual.split('.')
        node0 = mod.binders.get(parts[0])
        if isinstance(node0, ast.FunctionDef):
            obj = Closure(node0, None, mod, node0.name)      # raw, undecorated
        else:
            obj = mod.lookup(parts[0])
        for p in parts[1:]:
            if isinstance(obj, ClassModel) and '@' in p:
                # Class.name@getter / Class.name@setter: the two halves of a property
                pname, half = p.split('@')
                found = None
                for cm in obj.mro():
                    for st in cm.node.body:
                        if isinstance(st, ast.FunctionDef) and st.name == pname:
                            decos = [ast.unparse(d) for d in st.decorator_list]
                            if (half == 'getter' and 'property' in decos) or \
                                    (half == 'setter' and f'{pname}.setter' in decos):
                                found = (cm, st)
                    if found:
                        break
                if found is None:
                    raise KeyError(target)
                obj = Closure(found[1], None, found[0].module, f'{found[0].name}.{p}', cls=found[0])
            elif isinstance(obj, ClassModel):
                cls, node = obj.find(p)
                if node is None:
                    raise KeyError(target)
                obj = Closure(node, None, cls.module, f'{cls.name}.{p}', cls=cls)
            elif isinstance(obj, Closure):
                # nested function: find def inside
                found = None
                for n in ast.walk(obj.node):
                    if isinstance(n, ast.FunctionDef) and n.name == p and n is not obj.node:
                        found = n
                        break
                if found is None:
                    raise KeyError(target)
                obj = Closure(found, None, obj.module, f'{obj.name}.{p}')
            else:
                raise KeyError(target)
        return obj

    def source_hash(self, closure):
        seg = closure.module.segment(closure.node)
        return hashlib.sha256(seg.encode()).hexdigest()


# ---------------------------------------------------------------------------
# interpreter
# ---------------------------------------------------------------------------

CMP_OPS = {ast.Lt: 'lt', ast.LtE: 'le', ast.Gt: 'gt', ast.GtE: 'ge',
           ast.Eq: 'eq', ast.NotEq: 'ne'}

BIN_OPS = {ast.Add: 'add', ast.Sub: 'sub', ast.Mult: 'mul', ast.Div: 'truediv',
           ast.FloorDiv: 'floordiv', ast.Mod: 'mod', ast.Pow: 'pow',
           ast.BitAnd: 'and', ast.BitOr: 'or', ast.BitXor: 'xor',
           ast.LShift: 'lshift', ast.RShift: 'rshift'}

NATIVE_BIN = {'add': operator.add, 'sub': operator.sub, 'mul': operator.mul,
              'truediv': operator.truediv, 'floordiv': operator.floordiv,
              'mod': operator.mod, 'pow': operator.pow, 'and': operator.and_,
              'or': operator.or_, 'xor': operator.xor,
              'lshift': operator.lshift, 'rshift': operator.rshift}

NATIVE_CMP = {'lt': operator.lt, 'le': operator.le, 'gt': operator.gt,
              'ge': operator.ge, 'eq': operator.eq, 'ne': operator.ne}

NATIVE_TYPES = (int, float, str, bool, type(None), tuple, list, dict, set,
                frozenset, range, complex)


def is_native(v):
    """Fully concrete native value (recursively for containers)."""
    if isinstance(v, (int, float, str, bool, type(None), range, complex)):
        return True
    if isinstance(v, (tuple, list, set, frozenset)):
        return all(is_native(x) for x in v)
    if isinstance(v, dict):
        return all(is_native(k) and is_native(x) for k, x in v.items())
    return False


class Interp:
    MAX_DEPTH = 40
    MAX_UNROLL = 4096

    def __init__(self, world):
        self.world = world
        self.depth = 0
        self.call_hook = None     # set by vc for modular calls

    @property
    def ex(self):
        return self.world.explorer

    # -- helpers -----------------------------------------------------------
    def truth(self, v):
        if isinstance(v, SBool):
            return self.ex.branch(v.t)
        if isinstance(v, SInt):
            return self.ex.branch(v.t != 0)
        if isinstance(v, SFloat):
            return self.ex.branch(v.t != 0)
        if isinstance(v, SStr):
            return self.ex.branch(z3.Length(v.t) > 0)
        if isinstance(v, sym.SOpaque):
            from . import heap
            return heap.truth_opaque(self, v)
        if isinstance(v, SV):
            raise Unsupported(f'truth of {v!r}')
        if hasattr(v, 'hm_truth'):
            return v.hm_truth(self)
        if isinstance(v, SObj):
            c, node = v.cls.find('__bool__')
            if node is not None:
                return self.truth(self.call_function(
                    Closure(node, None, c.module, f'{c.name}.__bool__', cls=c), [v], {}))
            c, node = v.cls.find('__len__')
            if node is not None:
                return self.truth(self.call_function(
                    Closure(node, None, c.module, f'{c.name}.__len__', cls=c), [v], {}))
            if v.cls.ntfields is not None:
                return len(v.cls.ntfields) > 0
            return True
        if isinstance(v, (Closure, ClassModel, Builtin, BoundMethod, Partial,
                          ModuleModel, ExternalModule)):
            return True
        from .seqs import SSeq
        if isinstance(v, SSeq):
            return self.ex.branch(v.length_term() > 0)
        return bool(v)

    def raise_exc(self, typ, msg='', node=None):
        raise PyExc(typ, msg, getattr(node, 'lineno', None))

    # -- equality / comparison --------------------------------------------
    def eq_term(self, a, b):
        """Python `a == b` as a Python bool or z3 Bool."""
        if isinstance(a, SObj) or isinstance(b, SObj):
            return self.obj_eq(a, b)
        from .seqs import SSeq
        from .pipes import SPipe, pipe_eq
        if isinstance(a, SPipe) or isinstance(b, SPipe):
            return pipe_eq(self, a, b)
        if isinstance(a, SSeq) or isinstance(b, SSeq):
            raise Unsupported('== on symbolic-length sequence')
        if isinstance(a, sym.SOpaque) or isinstance(b, sym.SOpaque):
            from . import heap
            return heap.eq_opaque(self, a, b)
        if not sym.any_sym(a, b):
            if isinstance(a, (tuple, list)) and isinstance(b, (tuple, list)):
                if type(a) is not type(b) or len(a) != len(b):
                    return False
                terms = [self.eq_term(x, y) for x, y in zip(a, b)]
                return self._and(terms)
            if isinstance(a, (tuple, list)) or isinstance(b, (tuple, list)):
                return False
            return a == b
        if isinstance(a, (tuple, list)) or isinstance(b, (tuple, list)):
            return False
        if a is None or b is None:
            return False
        if is_numlike(a) and is_numlike(b):
            if is_floatlike(a) or is_floatlike(b):
                return z3.simplify(as_real_term(a) == as_real_term(b))
            if isinstance(a, (SBool, bool)) and isinstance(b, (SBool, bool)):
                ta = a.t if isinstance(a, SBool) else z3.BoolVal(a)
                tb = b.t if isinstance(b, SBool) else z3.BoolVal(b)
                return z3.simplify(ta == tb)
            return z3.simplify(as_int_term(a) == as_int_term(b))
        if is_strlike(a) and is_strlike(b):
            return z3.simplify(str_term(a) == str_term(b))
        if isinstance(a, sym.SComplex) or isinstance(b, sym.SComplex):
            raise Unsupported('== on complex')
        # different kinds (str vs number, function vs value ...)
        return False

    def obj_eq(self, a, b):
        if a is b:
            return True
        if isinstance(a, SObj):
            c, node = a.cls.find('__eq__')
            if node is not None:
                r = self.call_function(
                    Closure(node, None, c.module, f'{c.name}.__eq__', cls=c), [a, b], {})
                return r.t if isinstance(r, SBool) else bool(r)
        if isinstance(b, SObj) and not isinstance(a, SObj):
            c, node = b.cls.find('__eq__')
            if node is not None:
                r = self.call_function(
                    Closure(node, None, c.module, f'{c.name}.__eq__', cls=c), [b, a], {})
                return r.t if isinstance(r, SBool) else bool(r)
        if isinstance(a, SObj) and isinstance(b, SObj):
            if a.cls.ntfields is not None and b.cls.ntfields is not None:
                ia, ib = a.nt_items(), b.nt_items()
                if len(ia) != len(ib):
                    return False
                return self._and([self.eq_term(x, y) for x, y in zip(ia, ib)])
            return False
        if isinstance(a, SObj) and a.cls.ntfields is not None and isinstance(b, tuple):
            ia = a.nt_items()
            if len(ia) != len(b):
                return False
            return self._and([self.eq_term(x, y) for x, y in zip(ia, b)])
        if isinstance(b, SObj) and b.cls.ntfields is not None and isinstance(a, tuple):
            return self.obj_eq(b, a)
        return False

    @staticmethod
    def _and(terms):
        out = []
        for t in terms:
            if t is False:
                return False
            if t is True:
                continue
            out.append(t)
        if not out:
            return True
        return z3.simplify(z3.And(*out))

    @staticmethod
    def _or(terms):
        out = []
        for t in terms:
            if t is True:
                return True
            if t is False:
                continue
            out.append(t)
        if not out:
            return False
        return z3.simplify(z3.Or(*out))

    @staticmethod
    def wrap_bool(t):
        if isinstance(t, bool):
            return t
        return mk_bool(t)

    def compare(self, op, a, b, node=None):
        if op == 'eq':
            return self.wrap_bool(self.eq_term(a, b))
        if op == 'ne':
            t = self.eq_term(a, b)
            return (not t) if isinstance(t, bool) else mk_bool(z3.Not(t))
        from .arrays import SAbstractKey
        if isinstance(a, SAbstractKey) or isinstance(b, SAbstractKey):
            if op == 'lt' and isinstance(a, SAbstractKey) and not isinstance(b, SAbstractKey):
                return a.lt(self, b, node)
            raise Unsupported(f'abstract key used in a comparison other than key < value ({op})', node)
        if isinstance(a, SObj) or isinstance(b, SObj):
            return self.obj_compare(op, a, b, node)
        if not sym.any_sym(a, b) and is_native(a) and is_native(b):
            try:
                return NATIVE_CMP[op](a, b)
            except TypeError as e:
                self.raise_exc('TypeError', str(e), node)
        if isinstance(a, (tuple, list)) and isinstance(b, (tuple, list)) and type(a) is type(b):
            return self.lex_compare(op, list(a), list(b), node)
        if is_numlike(a) and is_numlike(b):
            if is_floatlike(a) or is_floatlike(b):
                ta, tb = as_real_term(a), as_real_term(b)
            else:
                ta, tb = as_int_term(a), as_int_term(b)
            return mk_bool({'lt': ta < tb, 'le': ta <= tb, 'gt': ta > tb, 'ge': ta >= tb}[op])
        if is_strlike(a) and is_strlike(b):
            ta, tb = str_term(a), str_term(b)
            self.world.trusted.add('A-STRORDER: str comparison = SMT-LIB lexicographic order on code points')
            vr = self.world.verifier
            if vr is not None and getattr(getattr(vr, 'active', None), 'abstract_str_order', False):
                from .strorder import abstract_lt
                lt = lambda x, y: abstract_lt(self.ex, x, y)
                return mk_bool({'lt': lt(ta, tb), 'le': z3.Not(lt(tb, ta)), 'gt': lt(tb, ta),
                                'ge': z3.Not(lt(ta, tb))}[op])
            return mk_bool({'lt': ta < tb, 'le': ta <= tb, 'gt': tb < ta, 'ge': tb <= ta}[op])
        self.raise_exc('TypeError', f"'{op}' not supported between {type(a).__name__} and {type(b).__name__}", node)

    def lex_compare(self, op, a, b, node):
        """Lexicographic tuple comparison as a (possibly symbolic) bool."""
        strict = {'lt': 'lt', 'le': 'lt', 'gt': 'gt', 'ge': 'gt'}[op]
        # result = OR_i (prefix equal_i and a_i strict b_i) or (all equal and length rule)
        terms = []
        prefix = []
        n = min(len(a), len(b))
        decided = False
        for i in range(n):
            # python compares only the first pair of elements that differ
            eq = self.eq_term(a[i], b[i])
            if eq is True:
                continue
            lt = self.compare(strict, a[i], b[i], node)
            lt = lt.t if isinstance(lt, SBool) else lt
            terms.append(self._and(prefix + [lt]))
            if eq is False:
                decided = True
                break
            prefix.append(eq)
        if decided:
            return self.wrap_bool(self._or(terms))
        if op in ('lt',):
            tail = len(a) < len(b)
        elif op == 'le':
            tail = len(a) <= len(b)
        elif op == 'gt':
            tail = len(a) > len(b)
        else:
            tail = len(a) >= len(b)
        terms.append(self._and(prefix + [tail]))
        return self.wrap_bool(self._or(terms))

    def obj_compare(self, op, a, b, node):
        dunder = {'lt': '__lt__', 'le': '__le__', 'gt': '__gt__', 'ge': '__ge__'}[op]
        refl = {'lt': '__gt__', 'le': '__ge__', 'gt': '__lt__', 'ge': '__le__'}[op]
        if isinstance(a, SObj):
            c, fn = a.cls.find(dunder)
            if fn is not None:
                return self.call_function(
                    Closure(fn, None, c.module, f'{c.name}.{dunder}', cls=c), [a, b], {})
            if a.cls.ntfields is not None:
                other = b.nt_items() if isinstance(b, SObj) and b.cls.ntfields else b
                if isinstance(other, tuple):
                    return self.lex_compare(op, list(a.nt_items()), list(other), node)
        if isinstance(b, SObj):
            c, fn = b.cls.find(refl)
            if fn is not None:
                return self.call_function(
                    Closure(fn, None, c.module, f'{c.name}.{refl}', cls=c), [b, a], {})
            if b.cls.ntfields is not None and isinstance(a, tuple):
                return self.lex_compare(op, list(a), list(b.nt_items()), node)
        self.raise_exc('TypeError', f'{op} on objects', node)

    def contains(self, item, container, node=None):
        """`item in container` -> Python bool or SBool."""
        from .seqs import SSeq
        if isinstance(container, SObj):
            c, fn = container.cls.find('__contains__')
            if fn is not None:
                r = self.call_function(
                    Closure(fn, None, c.module, f'{c.name}.__contains__', cls=c),
                    [container, item], {})
                return r if isinstance(r, (bool, SBool)) else self.truth(r)
            if container.cls.ntfields is not None:
                container = container.nt_items()
            else:
                self.raise_exc('TypeError', 'not a container', node)
        if isinstance(container, SSeq):
            return container.contains(self, item)
        if hasattr(container, 'contains') and not isinstance(container, (str, SV)):
            return container.contains(self, item)
        if isinstance(container, SStr) or (isinstance(container, str) and isinstance(item, SStr)):
            if not is_strlike(item):
                self.raise_exc('TypeError', 'in <string> requires string', node)
            return mk_bool(z3.Contains(str_term(container), str_term(item)))
        if isinstance(container, str):
            if not isinstance(item, str):
                self.raise_exc('TypeError', 'in <string> requires string', node)
            return item in container
        if isinstance(container, dict):
            container = list(container.keys())
        if isinstance(container, (tuple, list, set, frozenset, range)):
            if isinstance(container, range) and isinstance(item, SInt):
                r = container
                if r.step == 1:
                    return mk_bool(z3.And(item.t >= r.start, item.t < r.stop))
            if isinstance(container, (set, frozenset)) and isinstance(item, (SObj,)):
                return any(item is x for x in container)
            elems = list(container)
            if isinstance(container, (set, frozenset)):
                elems = sorted(elems, key=repr)
            return self.wrap_bool(self._or([self.eq_term(item, e) for e in elems]))
        raise Unsupported(f'in on {type(container).__name__}', node)

    # -- arithmetic ---------------------------------------------------------
    def binop(self, op, a, b, node=None):
        from .seqs import SSeq
        from .calendar_model import SDate, STimedelta, date_binop
        if isinstance(a, (SDate, STimedelta)) or isinstance(b, (SDate, STimedelta)):
            return date_binop(self, op, a, b, node)
        if isinstance(a, SObj) or isinstance(b, SObj):
            return self.obj_binop(op, a, b, node)
        from .arrays import SArr, seq_concat, seq_repeat
        if isinstance(a, SArr) or isinstance(b, SArr):
            if op == 'add' and isinstance(a, (SArr, tuple, list)) and isinstance(b, (SArr, tuple, list)):
                return seq_concat(self, a, b)
            if op == 'mul':
                seq, k = (a, b) if isinstance(a, SArr) else (b, a)
                if is_intlike(k):
                    return seq_repeat(self, seq, k)
            self.raise_exc('TypeError', f'{op} on array', node)
        if isinstance(a, SSeq) or isinstance(b, SSeq):
            return SSeq.binop(self, op, a, b, node)
        if not sym.any_sym(a, b):
            if isinstance(a, (tuple, list)) or isinstance(b, (tuple, list)):
                if op == 'add' and type(a) is type(b):
                    return a + b
                if op == 'mul' and isinstance(b, int) and not isinstance(b, bool):
                    return a * b
                if op == 'mul' and isinstance(a, int) and not isinstance(a, bool):
                    return a * b
                if op == 'mul' and isinstance(b, SInt):
                    return seq_repeat(self, a, b)
                if op == 'mul' and isinstance(a, SInt):
                    return seq_repeat(self, b, a)
                self.raise_exc('TypeError', f'{op} on sequences', node)
            if is_native(a) and is_native(b):
                try:
                    return NATIVE_BIN[op](a, b)
                except ZeroDivisionError as e:
                    self.raise_exc('ZeroDivisionError', str(e), node)
                except TypeError as e:
                    self.raise_exc('TypeError', str(e), node)
                except OverflowError as e:
                    self.raise_exc('OverflowError', str(e), node)
                except ValueError as e:
                    self.raise_exc('ValueError', str(e), node)
            raise Unsupported(f'binop {op} on {type(a).__name__},{type(b).__name__}', node)
        if isinstance(a, (tuple, list)) or isinstance(b, (tuple, list)):
            seq, k = (a, b) if isinstance(a, (tuple, list)) else (b, a)
            if op == 'mul' and isinstance(k, SInt):
                return seq_repeat(self, seq, k)
            self.raise_exc('TypeError', f'{op} on sequence and scalar', node)
        if a is None or b is None:
            self.raise_exc('TypeError', f'unsupported operand None for {op}', node)
        # strings
        if is_strlike(a) or is_strlike(b):
            if op == 'add' and is_strlike(a) and is_strlike(b):
                return mk_str(z3.Concat(str_term(a), str_term(b)))
            if op == 'mul' and is_strlike(a) and is_intlike(b) or \
                    op == 'mul' and is_strlike(b) and is_intlike(a):
                s, k = (a, b) if is_strlike(a) else (b, a)
                if isinstance(k, int):
                    t = z3.StringVal('')
                    for _ in range(max(k, 0)):
                        t = z3.Concat(t, str_term(s))
                    return mk_str(t)
                raise Unsupported('str * symbolic int', node)
            if op == 'mod' and is_strlike(a):
                raise Unsupported('%-format with symbolic operand', node)
            self.raise_exc('TypeError', f'unsupported operand str for {op}', node)
        if isinstance(a, sym.SComplex) or isinstance(b, sym.SComplex):
            raise Unsupported('complex arithmetic', node)
        if not (is_numlike(a) and is_numlike(b)):
            raise Unsupported(f'binop {op} on {a!r},{b!r}', node)
        floaty = is_floatlike(a) or is_floatlike(b)
        if op in ('add', 'sub', 'mul'):
            if floaty:
                ta, tb = as_real_term(a), as_real_term(b)
                return mk_float({'add': ta + tb, 'sub': ta - tb, 'mul': ta * tb}[op])
            ta, tb = as_int_term(a), as_int_term(b)
            return mk_int({'add': ta + tb, 'sub': ta - tb, 'mul': ta * tb}[op])
        if op == 'truediv':
            ta, tb = as_real_term(a), as_real_term(b)
            if self.ex.branch(tb == 0):
                self.raise_exc('ZeroDivisionError', 'division by zero', node)
            return mk_float(ta / tb)
        if op in ('floordiv', 'mod'):
            if floaty:
                ta, tb = as_real_term(a), as_real_term(b)
                if self.ex.branch(tb == 0):
                    self.raise_exc('ZeroDivisionError', 'float modulo', node)
                q = z3.ToReal(sym.floor_int(self.ex, ta / tb))      # floor for reals
                return mk_float(q if op == 'floordiv' else ta - tb * q)
            ta, tb = as_int_term(a), as_int_term(b)
            if self.ex.branch(tb == 0):
                self.raise_exc('ZeroDivisionError', 'integer division or modulo by zero', node)
            if isinstance(b, int) and not isinstance(b, bool) and b > 0:
                q = ta / tb
            else:
                q = z3.If(tb > 0, ta / tb, (-ta) / (-tb))
            return mk_int(q if op == 'floordiv' else ta - tb * q)
        if op == 'pow':
            return self.world.builtins['__pow__'].impl(self, [a, b], {}, node)
        if op in ('and', 'or', 'xor', 'lshift', 'rshift'):
            if floaty:
                self.raise_exc('TypeError', f'unsupported operand float for {op}', node)
            return self.bitop(op, a, b, node)
        raise Unsupported(f'binop {op}', node)

    def bit_k(self, t, k):
        """bit k (0/1) of the infinite two's complement of Int term t."""
        return (t / z3.IntVal(2 ** k)) % 2      # z3 div by positive = floor

    def and_const(self, t, c):
        if c >= 0:
            out = z3.IntVal(0)
            k = 0
            while (1 << k) <= c:
                if c & (1 << k):
                    out = out + self.bit_k(t, k) * (1 << k)
                k += 1
            return out
        # c < 0: x & c = x - (x & ~c)
        return t - self.and_const(t, ~c)

    def bitop(self, op, a, b, node):
        if isinstance(a, (SBool, bool)) and isinstance(b, (SBool, bool)) and op in ('and', 'or', 'xor'):
            ta = a.t if isinstance(a, SBool) else z3.BoolVal(a)
            tb = b.t if isinstance(b, SBool) else z3.BoolVal(b)
            return mk_bool({'and': z3.And(ta, tb), 'or': z3.Or(ta, tb), 'xor': z3.Xor(ta, tb)}[op])
        if op == 'and':
            if isinstance(b, int):
                return mk_int(self.and_const(as_int_term(a), int(b)))
            if isinstance(a, int):
                return mk_int(self.and_const(as_int_term(b), int(a)))
        if op == 'lshift' and isinstance(b, int):
            if b < 0:
                self.raise_exc('ValueError', 'negative shift count', node)
            return mk_int(as_int_term(a) * (1 << b))
        if op == 'rshift' and isinstance(b, int):
            if b < 0:
                self.raise_exc('ValueError', 'negative shift count', node)
            return mk_int(as_int_term(a) / z3.IntVal(1 << b))
        raise Unsupported(f'bit operation {op} on two symbolic operands', node)

    def obj_binop(self, op, a, b, node):
        names = {'pow': ('__pow__', '__rpow__'), 'and': ('__and__', '__rand__'),
                 'add': ('__add__', '__radd__'), 'mul': ('__mul__', '__rmul__'),
                 'sub': ('__sub__', '__rsub__'), 'or': ('__or__', '__ror__')}
        if op not in names:
            raise Unsupported(f'object operator {op}', node)
        d, r = names[op]
        if isinstance(a, SObj):
            c, fn = a.cls.find(d)
            if fn is not None:
                return self.call_function(
                    Closure(fn, None, c.module, f'{c.name}.{d}', cls=c), [a, b], {})
            if a.cls.ntfields is not None and op == 'add' and isinstance(b, tuple):
                return a.nt_items() + b
        if isinstance(b, SObj):
            c, fn = b.cls.find(r)
            if fn is not None:
                return self.call_function(
                    Closure(fn, None, c.module, f'{c.name}.{r}', cls=c), [b, a], {})
        self.raise_exc('TypeError', f'unsupported operand types for {op}', node)

    def unaryop(self, op, v, node):
        if isinstance(op, ast.Not):
            if isinstance(v, SBool):
                return mk_bool(z3.Not(v.t))
            return not self.truth(v)
        if isinstance(op, ast.USub):
            if isinstance(v, SFloat):
                return mk_float(-v.t)
            if isinstance(v, (SInt, SBool)):
                return mk_int(-as_int_term(v))
            if isinstance(v, (int, float)):
                return -v
            self.raise_exc('TypeError', 'bad operand type for unary -', node)
        if isinstance(op, ast.UAdd):
            if isinstance(v, SBool):
                return mk_int(as_int_term(v))
            if isinstance(v, (SInt, SFloat, int, float)):
                return +v if not isinstance(v, SV) else v
            self.raise_exc('TypeError', 'bad operand type for unary +', node)
        if isinstance(op, ast.Invert):
            if isinstance(v, (SInt, SBool)):
                return mk_int(-as_int_term(v) - 1)
            if isinstance(v, int):
                return ~v
            self.raise_exc('TypeError', 'bad operand type for unary ~', node)
        raise Unsupported('unary op', node)

    # -- expressions --------------------------------------------------------
    def eval(self, node, env):
        m = getattr(self, 'e_' + type(node).__name__, None)
        if m is None:
            raise Unsupported(f'expression {type(node).__name__}', node)
        return m(node, env)

    def e_Constant(self, node, env):
        return node.value

    def e_Name(self, node, env):
        name = node.id
        try:
            return env.lookup(name)
        except KeyError:
            pass
        try:
            return env.module.lookup(name)
        except KeyError:
            pass
        if name in self.world.builtins:
            return self.world.builtins[name]
        raise Unsupported(f'unknown name {name}', node)

    def e_Tuple(self, node, env):
        out = []
        for e in node.elts:
            if isinstance(e, ast.Starred):
                out.extend(self.iterate(self.eval(e.value, env), e))
            else:
                out.append(self.eval(e, env))
        return tuple(out)

    def e_List(self, node, env):
        return list(self.e_Tuple(node, env))

    def e_Set(self, node, env):
        vals = [self.eval(e, env) for e in node.elts]
        if all(is_native(v) for v in vals):
            return set(vals)
        return SymSet(vals)

    def e_Dict(self, node, env):
        d = {}
        for k, v in zip(node.keys, node.values):
            if k is None:
                d.update(self.eval(v, env))
            else:
                kk = self.eval(k, env)
                if isinstance(kk, SV):
                    raise Unsupported('symbolic dict key', node)
                d[kk] = self.eval(v, env)
        return d

    def e_JoinedStr(self, node, env):
        parts = []
        for v in node.values:
            if isinstance(v, ast.Constant):
                parts.append(v.value)
            else:
                if v.format_spec is not None or v.conversion not in (-1, 115):
                    raise Unsupported('f-string format spec', node)
                parts.append(self.to_str(self.eval(v.value, env), node))
        if all(isinstance(p, str) for p in parts):
            return ''.join(parts)
        t = None
        for p in parts:
            pt = str_term(p)
            t = pt if t is None else z3.Concat(t, pt)
        return mk_str(t)

    def to_str(self, v, node=None):
        return self.world.builtins['str'].impl(self, [v], {}, node)

    def e_BoolOp(self, node, env):
        is_and = isinstance(node.op, ast.And)
        val = None
        # merge without forking when every operand is a side-effect free scalar
        first = self.eval(node.values[0], env)
        vals = [first]
        ok = self.truth_term(first) is not None and not isinstance(self.truth_term(first), bool)
        if ok:
            for e in node.values[1:]:
                r = self.speculate(e, env)
                if r is None or self.truth_term(r[0]) is None:
                    ok = False
                    break
                vals.append(r[0])
        if ok:
            acc = vals[-1]
            for v in reversed(vals[:-1]):
                tt = self.truth_term(v)
                m = self.merge(tt, acc, v) if is_and else self.merge(tt, v, acc)
                if m is None:
                    ok = False
                    break
                acc = m[0]
            if ok:
                return acc
        return self._boolop_fork(node, env, first)

    def _boolop_fork(self, node, env, first):
        is_and = isinstance(node.op, ast.And)
        val = first
        if len(node.values) == 1:
            return val
        t = self.truth(val)
        if is_and and not t:
            return val
        if not is_and and t:
            return val
        for i, e in enumerate(node.values[1:], start=1):
            val = self.eval(e, env)
            if i == len(node.values) - 1:
                return val
            t = self.truth(val)
            if is_and and not t:
                return val
            if not is_and and t:
                return val
        return val

    def e_UnaryOp(self, node, env):
        return self.unaryop(node.op, self.eval(node.operand, env), node)

    def e_BinOp(self, node, env):
        a = self.eval(node.left, env)
        b = self.eval(node.right, env)
        if isinstance(node.op, ast.Mod) and isinstance(a, str) and not isinstance(b, SV):
            if is_native(b):
                return a % b
        return self.binop(BIN_OPS[type(node.op)], a, b, node)

    def _chain_nofork(self, node, env):
        from .explorer import NeedBranch
        ex = self.ex
        ex.speculative += 1
        saved = ex.fresh_ctr
        try:
            left = self.eval(node.left, env)
            terms = []
            for op, rn in zip(node.ops, node.comparators):
                if isinstance(op, (ast.In, ast.NotIn, ast.Is, ast.IsNot)):
                    raise NeedBranch()
                right = self.eval(rn, env)
                r = self.compare(CMP_OPS[type(op)], left, right, node)
                if not isinstance(r, (bool, SBool)):
                    raise NeedBranch()
                terms.append(r.t if isinstance(r, SBool) else r)
                left = right
            return (self.wrap_bool(self._and(terms)),)
        except (NeedBranch, PyExc, Unsupported):
            ex.fresh_ctr = saved
            return None
        finally:
            ex.speculative -= 1

    def e_Compare(self, node, env):
        if len(node.ops) > 1:
            r = self._chain_nofork(node, env)
            if r is not None:
                return r[0]
        if (len(node.ops) == 1 and isinstance(node.ops[0], (ast.Is, ast.IsNot))
                and isinstance(node.comparators[0], ast.Constant) and node.comparators[0].value is None
                and isinstance(node.left, ast.Subscript) and not isinstance(node.left.slice, (ast.Slice, ast.Tuple))):
            from .arrays import SArr
            base = self.eval(node.left.value, env)
            idx0 = self.eval(node.left.slice, env)
            if isinstance(base, SArr):
                r = base.is_none_at(self, idx0, node)
                if r is not None:
                    return r if isinstance(node.ops[0], ast.Is) else (not r)
            left = self.index(base, idx0, node)
        else:
            left = self.eval(node.left, env)
        result = True
        for i, (op, rn) in enumerate(zip(node.ops, node.comparators)):
            right = self.eval(rn, env)
            if isinstance(op, (ast.In, ast.NotIn)):
                r = self.contains(left, right, node)
                if isinstance(op, ast.NotIn):
                    r = (not r) if isinstance(r, bool) else mk_bool(z3.Not(r.t))
            elif isinstance(op, (ast.Is, ast.IsNot)):
                r = self.is_(left, right, node)
                if isinstance(op, ast.IsNot):
                    r = (not r) if isinstance(r, bool) else mk_bool(z3.Not(r.t))
            else:
                r = self.compare(CMP_OPS[type(op)], left, right, node)
                if r is False and os.environ.get('PYVC_DEBUG') in ('cmp', 'at'):
                    print('CMP-FALSE', ast.unparse(node)[:80], '|', repr(left).replace(chr(10), ' ')[:160], '|', repr(right).replace(chr(10), ' ')[:160])
            if i == len(node.ops) - 1:
                if result is True:
                    return r
                # chained: previous links were all true on this path
                return r
            if not self.truth(r):
                return False
            left = right
        return result

    def is_(self, a, b, node):
        from .heapmodel import STypeTag, VTYPE, NONE_V
        if isinstance(a, STypeTag) or isinstance(b, STypeTag):
            conv = lambda x: x if isinstance(x, STypeTag) else (STypeTag(VTYPE(NONE_V)) if x is type(None) else None)
            a2, b2 = conv(a), conv(b)
            if a2 is None or b2 is None:
                raise Unsupported('type identity between an opaque value and a concrete type', node)
            return mk_bool(a2.t == b2.t)
        if a is None or b is None:
            if isinstance(a, sym.SOpaque) or isinstance(b, sym.SOpaque):
                from . import heap
                return heap.is_none(self, a if b is None else b)
            return a is None and b is None
        if isinstance(a, SV) or isinstance(b, SV):
            if isinstance(a, SBool) and isinstance(b, bool):
                return mk_bool(a.t == z3.BoolVal(b))
            if isinstance(b, SBool) and isinstance(a, bool):
                return mk_bool(b.t == z3.BoolVal(a))
            if type(a) is not type(b) and not (isinstance(a, SV) and isinstance(b, SV)):
                return False
            raise Unsupported('is on symbolic values', node)
        return a is b

    def speculate(self, node, env):
        """Evaluate without forking / assuming / raising; None if not possible."""
        from .explorer import NeedBranch
        ex = self.ex
        ex.speculative += 1
        saved = ex.fresh_ctr
        try:
            return (self.eval(node, env),)
        except (NeedBranch, PyExc, Unsupported):
            ex.fresh_ctr = saved
            return None
        finally:
            ex.speculative -= 1

    def merge(self, cond, a, b):
        """If(cond, a, b) for same-kind scalars; None when not mergeable."""
        if a is b:
            return (a,)
        if not isinstance(a, SV) and not isinstance(b, SV) and not (
                isinstance(a, bool) and isinstance(b, bool)):
            return None      # keep concrete values concrete: fork instead
        if isinstance(a, (SBool, bool)) and isinstance(b, (SBool, bool)):
            ta = a.t if isinstance(a, SBool) else z3.BoolVal(a)
            tb = b.t if isinstance(b, SBool) else z3.BoolVal(b)
            return (mk_bool(z3.If(cond, ta, tb)),)
        if isinstance(a, (SInt, int)) and isinstance(b, (SInt, int)) and \
                not isinstance(a, bool) and not isinstance(b, bool):
            return (mk_int(z3.If(cond, as_int_term(a), as_int_term(b))),)
        if isinstance(a, (SFloat, float)) and isinstance(b, (SFloat, float)):
            return (mk_float(z3.If(cond, as_real_term(a), as_real_term(b))),)
        if isinstance(a, (SStr, str)) and isinstance(b, (SStr, str)):
            return (mk_str(z3.If(cond, str_term(a), str_term(b))),)
        return None

    def truth_term(self, v):
        """Truthiness as a z3 Bool / Python bool without forking; None if n/a."""
        if isinstance(v, SBool):
            return v.t
        if isinstance(v, SInt):
            return v.t != 0
        if isinstance(v, SFloat):
            return v.t != 0
        if isinstance(v, SStr):
            return z3.Length(v.t) > 0
        if v is None or isinstance(v, (bool, int, float, str, tuple, list)):
            return bool(v)
        return None

    def e_IfExp(self, node, env):
        test = self.eval(node.test, env)
        tt = self.truth_term(test)
        if tt is not None and not isinstance(tt, bool):
            a = self.speculate(node.body, env)
            if a is not None:
                b = self.speculate(node.orelse, env)
                if b is not None:
                    m = self.merge(tt, a[0], b[0])
                    if m is not None:
                        return m[0]
        if self.truth(test):
            return self.eval(node.body, env)
        return self.eval(node.orelse, env)

    def e_Lambda(self, node, env):
        return Closure(node, env, env.module, '<lambda>')

    def e_Attribute(self, node, env):
        obj = self.eval(node.value, env)
        return self.getattr(obj, node.attr, node)

    def e_Subscript(self, node, env):
        obj = self.eval(node.value, env)
        if isinstance(node.slice, ast.Slice):
            lo = None if node.slice.lower is None else self.eval(node.slice.lower, env)
            hi = None if node.slice.upper is None else self.eval(node.slice.upper, env)
            st = None if node.slice.step is None else self.eval(node.slice.step, env)
            return self.slice(obj, lo, hi, st, node)
        idx = self.eval(node.slice, env)
        return self.index(obj, idx, node)

    def e_Starred(self, node, env):
        raise Unsupported('starred expression', node)

    def e_ListComp(self, node, env):
        r = self.comprehension(node, env)
        from .arrays import SArr
        from .pipes import SPipe
        from .seqs import SSeq
        if isinstance(r, (SArr, SPipe, SSeq)):
            return r
        return list(r)

    def e_GeneratorExp(self, node, env):
        # python evaluates the outermost iterable when the generator is created
        first = self.eval(node.generators[0].iter, env)
        from .heapmodel import SAbstractSet, SMemberTable, SMemberTableGen, heap_of
        if isinstance(first, SMemberTable):
            return SMemberTableGen(first, node, Env(dict(env.vars), env.parent, env.module))
        if hasattr(first, 'as_abstract_set'):
            first = first.as_abstract_set(self)
        if isinstance(first, SAbstractSet):
            # (f(a) for a in <abstract set> if c(a)): the members that pass the filter (judged on the heap as it is now:
            # the consumer materialises the generator at once), seen through the element expression
            if len(node.generators) != 1:
                raise Unsupported('nested generator over an abstract set', node)
            g = node.generators[0]
            frozen = Env(dict(env.vars), env.parent, env.module)
            snap = dict(heap_of(self.ex))

            def element(interp, n, _base=first.element):
                cenv = Env({}, frozen, frozen.module)
                interp.assign(g.target, _base(interp, n), cenv)
                return interp.eval(node.elt, cenv)

            def member(n, _m=first.member, _base=first.element):
                t = _m(n)
                if not g.ifs:
                    return t
                interp = self
                keep = interp.ex.heap
                interp.ex.heap = snap
                try:
                    cenv = Env({}, frozen, frozen.module)
                    interp.assign(g.target, _base(interp, n), cenv)
                    conds = []
                    for c in g.ifs:
                        v = interp.eval(c, cenv)
                        tt = v.t if isinstance(v, SBool) else interp.truth_term(v)
                        if tt is None:
                            raise Unsupported('filter of a generator over an abstract set is not a plain condition', node)
                        conds.append(tt if not isinstance(tt, bool) else z3.BoolVal(tt))
                finally:
                    interp.ex.heap = keep
                return z3.And(t, *conds)
            return SAbstractSet(member, first.label, element=element)
        return LazyGen(self, node, env, first)

    def e_SetComp(self, node, env):
        vals = list(self.comprehension(node, env))
        if all(is_native(v) for v in vals):
            return set(vals)
        return SymSet(vals)

    def e_DictComp(self, node, env):
        out = {}
        for k, v in self.comprehension(node, env, dict_mode=True):
            if isinstance(k, SV):
                raise Unsupported('symbolic dict key', node)
            out[k] = v
        return out

    def comprehension(self, node, env, dict_mode=False, first=None):
        """Generator over the elements of a comprehension (concrete iteration)."""
        from .seqs import SSeq
        have_first = first is not None

        def rec(gens, cenv):
            if not gens:
                if dict_mode:
                    yield (self.eval(node.key, cenv), self.eval(node.value, cenv))
                else:
                    yield self.eval(node.elt, cenv)
                return
            g = gens[0]
            if have_first and g is node.generators[0]:
                it = first
            else:
                it = self.eval(g.iter, cenv)
            if isinstance(it, SSeq):
                raise Unsupported('nested comprehension over symbolic-length sequence', node)
            for item in self.iterate(it, node):
                self.assign(g.target, item, cenv)
                ok = True
                for cond in g.ifs:
                    if not self.truth(self.eval(cond, cenv)):
                        ok = False
                        break
                if ok:
                    yield from rec(gens[1:], cenv)

        from .seqs import comprehension_over_sseq
        from .pipes import SPipe, comprehension_over_pipe
        if len(node.generators) == 1 and not dict_mode:
            if not have_first:
                first = self.eval(node.generators[0].iter, env)
            if isinstance(first, LazyGen):
                inner = first.iterator()
                first = inner if isinstance(inner, (SPipe, SSeq)) else list(inner)
            if isinstance(first, SPipe):
                return comprehension_over_pipe(self, node, env, first)
            from .arrays import SArr, comprehension_over_array
            if isinstance(first, SArr):
                return comprehension_over_array(self, node, env, first)
            if isinstance(first, SSeq):
                return comprehension_over_sseq(self, node, env, first)
            cenv = Env({}, env, env.module)
            return self._comp_single(node, cenv, first)
        cenv = Env({}, env, env.module)
        return rec(node.generators, cenv)

    def _comp_single(self, node, cenv, iterable):
        g = node.generators[0]
        for item in self.iterate(iterable, node):
            self.assign(g.target, item, cenv)
            ok = True
            for cond in g.ifs:
                if not self.truth(self.eval(cond, cenv)):
                    ok = False
                    break
            if ok:
                yield self.eval(node.elt, cenv)

    def e_Call(self, node, env):
        # dropped constructs: logging
        try:
            fname = ast.unparse(node.func)
        except Exception:
            fname = ''
        if fname.startswith(DROPPED_CALL_PREFIXES) or '.log.' in fname:
            self.world.dropped.add(f'call {fname}(...)')
            return None
        if isinstance(node.func, ast.Name) and node.func.id == 'super' and not node.args:
            # zero-argument super(): the enclosing method's class and first parameter
            e = env
            while e is not None and '__class__' not in e.vars:
                e = e.parent
            if e is None or getattr(e, 'func', None) is None:
                raise Unsupported('zero-argument super() outside method', node)
            first = e.func.node.args.args[0].arg
            return SuperProxy(e.vars['__class__'], e.vars[first])
        func = self.eval(node.func, env)
        args = []
        for a in node.args:
            if isinstance(a, ast.Starred):
                args.extend(self.iterate(self.eval(a.value, env), a))
            else:
                args.append(self.eval(a, env))
        kwargs = {}
        for k in node.keywords:
            if k.arg is None:
                kwargs.update(self.eval(k.value, env))
            else:
                kwargs[k.arg] = self.eval(k.value, env)
        return self.call(func, args, kwargs, node)

    def e_NamedExpr(self, node, env):
        v = self.eval(node.value, env)
        self.assign(node.target, v, env)
        return v

    # -- attribute / index ---------------------------------------------------
    def getattr(self, obj, name, node=None):
        from . import builtins_model as bm
        if isinstance(obj, SObj):
            if name in obj.fields:
                return obj.fields[name]
            c, member = obj.cls.find(name)
            if member is None:
                if name == '__class__':
                    return obj.cls
                if name == '__dict__' and obj.cls.name == 'Namespace':
                    return obj.fields
                if getattr(obj, 'partial', False):
                    # the contract's parameter domain describes only some fields of this object
                    raise Unsupported(f"field '{name}' of {obj.cls.name} is not described by the contract's domain", node)
                self.raise_exc('AttributeError', f"'{obj.cls.name}' has no attribute '{name}'", node)
            return self.bind_member(obj, c, member, name)
        if isinstance(obj, ClassModel):
            c, member = obj.find(name)
            if member is None:
                for cm in obj.mro():
                    for b in cm.bases or ():
                        if isinstance(b, str) and name in bm.EXTERNAL_CLASS_CONSTANTS.get(b, {}):
                            self.world.trusted.add(f'constants of external base class {b} (openpyxl): literal values')
                            return bm.EXTERNAL_CLASS_CONSTANTS[b][name]
                if name == '__name__':
                    return obj.name
                if name == '__new__' and obj.ntfields is not None:
                    return NTNew(obj)
                self.raise_exc('AttributeError', f"class '{obj.name}' has no attribute '{name}'", node)
            if isinstance(member, ast.FunctionDef):
                decos = [ast.unparse(d) for d in member.decorator_list]
                f = Closure(member, None, c.module, f'{c.name}.{name}', cls=c)
                if 'classmethod' in decos:
                    return BoundMethod(obj, f)
                return f
            return self.class_const(c, member, name)
        if isinstance(obj, SuperProxy):
            target = obj.target
            cls = target if isinstance(target, ClassModel) else target.cls
            c, member = cls.find(name, after=obj.after)
            if member is None:
                if name == '__new__' and cls.ntfields is not None:
                    return NTNew(cls)
                if cls.ntfields is not None and name in ('__lt__', '__le__', '__gt__', '__ge__', '__eq__', '__ne__'):
                    return Builtin(f'tuple.{name}', bm.nt_tuple_cmp(name, target))
                raise Unsupported(f'super().{name}', node)
            f = Closure(member, None, c.module, f'{c.name}.{name}', cls=c)
            if isinstance(target, SObj):
                return BoundMethod(target, f)
            return f
        if isinstance(obj, ModuleModel):
            try:
                return obj.lookup(name)
            except KeyError:
                self.raise_exc('AttributeError', f'module has no attribute {name}', node)
        if isinstance(obj, ExternalModule):
            key = f'{obj.name}.{name}'
            if key in self.world.external:
                return self.world.external[key]
            raise Unsupported(f'external {key}', node)
        if isinstance(obj, Closure):
            if name == '__name__':
                return obj.name.split('.')[-1]
            raise Unsupported(f'function attribute {name}', node)
        if isinstance(obj, Partial):
            if name == 'func':
                return obj.func
            if name == 'keywords':
                return dict(obj.kwargs)
            if name == 'args':
                return tuple(obj.args)
            raise Unsupported(f'partial attribute {name}', node)
        return bm.value_getattr(self, obj, name, node)

    def class_const(self, cls, member, name):
        key = ('classconst', cls.name, name)
        cache = cls.module.globals
        if key in cache:
            return cache[key]
        env = Env({}, None, cls.module)
        # class-level names visible: nested classes, and the class constants themselves (evaluated on demand)
        nested = getattr(cls, '_nested', None)
        if nested is None:
            nested = cls._nested = {st.name: ClassModel(st, cls.module) for st in cls.node.body
                                    if isinstance(st, ast.ClassDef)}
        env.vars.update(nested)
        val = self.eval(member.value, env)
        cache[key] = val
        return val

    def bind_member(self, obj, cls, member, name):
        if isinstance(member, ast.FunctionDef):
            decos = [ast.unparse(d) for d in member.decorator_list]
            f = Closure(member, None, cls.module, f'{cls.name}.{name}', cls=cls)
            if 'property' in decos:
                return self.call_function(f, [obj], {})
            if 'staticmethod' in decos:
                return f
            if 'classmethod' in decos:
                return BoundMethod(obj.cls, f)
            if any(d.endswith('.setter') for d in decos):
                raise Unsupported('property setter access')
            return BoundMethod(obj, f)
        return self.class_const(cls, member, name)

    def setattr(self, obj, name, value, node):
        if isinstance(obj, SObj):
            # property setter?
            for c in obj.cls.mro():
                for st in c.node.body:
                    if isinstance(st, ast.FunctionDef) and st.name == name and any(
                            ast.unparse(d) == f'{name}.setter' for d in st.decorator_list):
                        self.call_function(
                            Closure(st, None, c.module, f'{c.name}.{name}.setter', cls=c),
                            [obj, value], {})
                        return
            if getattr(obj, 'closed', False) and name not in obj.fields:
                # frame of a shared singleton: the contract lists every attribute the object may carry
                vr = self.world.verifier
                if vr is not None and vr.active is not None:
                    vr.frame_breaches.append(f"attribute '{name}' written on the shared {obj.cls.name} object "
                                             f"(line {getattr(node, 'lineno', '?')})")
            obj.fields[name] = value
            return
        from . import heap
        if heap.try_setattr(self, obj, name, value, node):
            return
        raise Unsupported(f'attribute store on {type(obj).__name__}', node)

    def index(self, obj, idx, node):
        from .seqs import SSeq
        if isinstance(obj, SObj):
            c, fn = obj.cls.find('__getitem__')
            if fn is not None:
                return self.call_function(
                    Closure(fn, None, c.module, f'{c.name}.__getitem__', cls=c), [obj, idx], {})
            if obj.cls.ntfields is not None:
                obj = obj.nt_items()
            else:
                self.raise_exc('TypeError', 'object is not subscriptable', node)
        if isinstance(obj, SSeq):
            return obj.getitem(self, idx, node)
        if isinstance(obj, dict):
            if isinstance(idx, SV):
                return self.dict_sym_index(obj, idx, node)
            if idx in obj:
                return obj[idx]
            self.raise_exc('KeyError', repr(idx), node)
        if isinstance(obj, (tuple, list, range)):
            if isinstance(idx, SInt):
                return self.seq_sym_index(obj, idx, node)
            if isinstance(idx, (SBool,)):
                raise Unsupported('bool index', node)
            if not isinstance(idx, int):
                self.raise_exc('TypeError', 'indices must be integers', node)
            try:
                return obj[idx]
            except IndexError:
                self.raise_exc('IndexError', 'index out of range', node)
        if isinstance(obj, (str, SStr)):
            return self.str_index(obj, idx, node)
        if obj is None or isinstance(obj, (SInt, SFloat, SBool, int, float)):
            self.raise_exc('TypeError', f'{type(obj).__name__} is not subscriptable', node)
        from . import heap
        r = heap.try_index(self, obj, idx, node)
        if r is not heap.NOPE:
            return r
        raise Unsupported(f'subscript of {type(obj).__name__}', node)

    def dict_sym_index(self, d, idx, node):
        for k in d:
            t = self.eq_term(idx, k)
            if self.ex.branch(t) if not isinstance(t, bool) else t:
                return d[k]
        self.raise_exc('KeyError', 'symbolic key not in dict', node)

    def seq_sym_index(self, seq, idx, node):
        n = len(seq)
        for i in range(n):
            if self.ex.branch(z3.Or(idx.t == i, idx.t == i - n)):
                return seq[i]
        self.raise_exc('IndexError', 'index out of range', node)

    def str_index(self, s, idx, node):
        if isinstance(s, str) and isinstance(idx, int):
            try:
                return s[idx]
            except IndexError:
                self.raise_exc('IndexError', 'string index out of range', node)
        st = str_term(s)
        n = z3.Length(st)
        it = as_int_term(idx)
        if self.ex.branch(z3.Or(it >= n, it < -n)):
            self.raise_exc('IndexError', 'string index out of range', node)
        pos = z3.If(it < 0, it + n, it)
        return mk_str(z3.SubString(st, pos, 1))

    def clamp_slice(self, n, lo, hi):
        """Python slice clamping for step 1; n, lo, hi are z3 Int terms or None."""
        def norm(v, default):
            if v is None:
                return default
            v = as_int_term(v)
            v = z3.If(v < 0, v + n, v)
            return z3.If(v < 0, z3.IntVal(0), z3.If(v > n, n, v))
        start = norm(lo, z3.IntVal(0))
        stop = norm(hi, n)
        return start, stop

    def slice(self, obj, lo, hi, st, node):
        from .seqs import SSeq
        if st is not None and st != 1:
            if not sym.any_sym(lo, hi, st) and isinstance(obj, (tuple, list, str)):
                return obj[lo:hi:st]
            raise Unsupported('slice step', node)
        if isinstance(obj, SObj) and obj.cls.ntfields is not None:
            obj = obj.nt_items()
        from .arrays import SArr, seq_slice
        if isinstance(obj, SArr):
            return seq_slice(self, obj, lo, hi, node)
        if isinstance(obj, SSeq):
            return obj.slice(self, lo, hi, node)
        if isinstance(obj, (tuple, list)):
            if sym.any_sym(lo, hi):
                return SSeq.from_concrete(self, obj).slice(self, lo, hi, node)
            return obj[lo:hi]
        if isinstance(obj, str) and not sym.any_sym(lo, hi):
            return obj[lo:hi]
        if isinstance(obj, (str, SStr)):
            for v in (lo, hi):
                if v is not None and not is_intlike(v):
                    self.raise_exc('TypeError', 'slice indices must be integers', node)
            s = str_term(obj)
            n = z3.Length(s)
            clo = lo is None or (isinstance(lo, int) and not isinstance(lo, bool))
            chi = hi is None or (isinstance(hi, int) and not isinstance(hi, bool))
            if clo and chi:
                # constant bounds: SMT str.substr already clamps like Python
                a = 0 if lo is None else lo
                if a >= 0 and hi is None:
                    # s = "const" ++ rest with len(const) >= a: drop syntactically
                    if z3.is_app(s) and s.decl().kind() == z3.Z3_OP_SEQ_CONCAT and \
                            z3.is_string_value(s.arg(0)) and len(s.arg(0).as_string()) >= a:
                        head = s.arg(0).as_string()[a:]
                        rest = [s.arg(i) for i in range(1, s.num_args())]
                        parts = ([z3.StringVal(head)] if head else []) + rest
                        return mk_str(parts[0] if len(parts) == 1 else z3.Concat(*parts))
                    return mk_str(z3.SubString(s, a, n))
                if a >= 0 and hi >= 0:
                    return mk_str(z3.SubString(s, a, max(hi - a, 0)))
                if a >= 0 and hi < 0:
                    return mk_str(z3.SubString(s, a, n + hi - a))
                if a < 0 and hi is None:
                    return mk_str(z3.If(n >= -a, z3.SubString(s, n + a, -a), s))
            start, stop = self.clamp_slice(n, lo, hi)
            ln = z3.If(stop > start, stop - start, z3.IntVal(0))
            return mk_str(z3.SubString(s, start, ln))
        if obj is None or isinstance(obj, (SInt, SFloat, SBool, int, float)):
            self.raise_exc('TypeError', f'{type(obj).__name__} is not subscriptable', node)
        raise Unsupported(f'slice of {type(obj).__name__}', node)

    def iterate(self, v, node=None):
        """Concrete-length iteration -> Python list of items."""
        from .seqs import SSeq
        if isinstance(v, LazyGen):
            return v.materialize()
        if isinstance(v, (tuple, list, range)):
            return list(v)
        if isinstance(v, (set, frozenset)):
            return sorted(v, key=repr)
        if isinstance(v, SymSet):
            return list(v.items)
        if isinstance(v, dict):
            return list(v.keys())
        if isinstance(v, str):
            return list(v)
        if isinstance(v, SObj) and v.cls.ntfields is not None:
            c, fn = v.cls.find('__iter__')
            if fn is None:
                return list(v.nt_items())
        if isinstance(v, SObj):
            c, fn = v.cls.find('__iter__')
            if fn is not None:
                return self.iterate(self.call_function(
                    Closure(fn, None, c.module, f'{c.name}.__iter__', cls=c), [v], {}), node)
        if isinstance(v, SSeq):
            return v.concretize_iter(self, node)
        if isinstance(v, SStr):
            raise Unsupported('iteration over symbolic string', node)
        if v is None or isinstance(v, (SInt, SFloat, SBool, int, float)):
            self.raise_exc('TypeError', f'{type(v).__name__} object is not iterable', node)
        from . import heap
        r = heap.try_iterate(self, v, node)
        if r is not heap.NOPE:
            return r
        raise Unsupported(f'iteration over {type(v).__name__}', node)

    # -- calls ----------------------------------------------------------------
    def call(self, func, args, kwargs, node=None):
        if isinstance(func, Builtin):
            return func.impl(self, args, kwargs, node)
        if isinstance(func, Closure):
            return self.call_function(func, args, kwargs, node)
        if isinstance(func, BoundMethod):
            return self.call(func.func, [func.obj] + list(args), kwargs, node)
        if isinstance(func, Partial):
            kw = dict(func.kwargs)
            kw.update(kwargs)
            return self.call(func.func, list(func.args) + list(args), kw, node)
        if isinstance(func, ClassModel):
            return self.instantiate(func, args, kwargs, node)
        if isinstance(func, NTNew):
            cls = args[0]
            vals = list(args[1:])
            fields = cls.ntfields
            if len(vals) + len(kwargs) != len(fields):
                self.raise_exc('TypeError', 'namedtuple __new__ arity', node)
            d = dict(zip(fields, vals))
            d.update(kwargs)
            return SObj(cls, d)
        if isinstance(func, type) and func in (int, float, str, bool, tuple, list):
            return self.world.builtins[func.__name__].impl(self, args, kwargs, node)
        from .vc import AbstractFn
        if isinstance(func, AbstractFn):
            return func.call(self, args, kwargs, node)
        if isinstance(func, SObj):
            c, fn = func.cls.find('__call__')
            if fn is not None:
                return self.call_function(Closure(fn, None, c.module, f'{c.name}.__call__', cls=c),
                                          [func] + list(args), kwargs)
            self.raise_exc('TypeError', f'{func.cls.name} object is not callable', node)
        if func is None or isinstance(func, (SV, int, float, str, tuple)):
            self.raise_exc('TypeError', f'{type(func).__name__} object is not callable', node)
        raise Unsupported(f'call of {func!r}', node)

    def instantiate(self, cls, args, kwargs, node):
        if cls.name in ('AddressRange', 'AddressCell') and args:
            from .heapmodel import SAddrKey, SAddrObj
            if isinstance(args[0], (SAddrKey, SAddrObj)):
                # the address of a node of the model, normalised: the same address (C11: constructors are idempotent)
                return SAddrObj(args[0].node)
        if cls.is_exception():
            return SObj(cls, {'args': tuple(args)})
        c, new = cls.find('__new__')
        if new is not None:
            f = Closure(new, None, c.module, f'{c.name}.__new__', cls=c)
            return self.call_function(f, [cls] + list(args), kwargs, node)
        if cls.ntfields is not None:
            return self.call(NTNew(cls), [cls] + list(args), kwargs, node)
        obj = SObj(cls, {})
        c, init = cls.find('__init__')
        if init is not None:
            f = Closure(init, None, c.module, f'{c.name}.__init__', cls=c)
            self.call_function(f, [obj] + list(args), kwargs, node)
        elif args or kwargs:
            self.raise_exc('TypeError', 'object() takes no arguments', node)
        return obj

    def bind_args(self, fnode, args, kwargs, env, defenv, node):
        a = fnode.args
        params = [p.arg for p in a.posonlyargs + a.args]
        defaults = a.defaults
        args = list(args)
        kwargs = dict(kwargs)
        ndef = len(defaults)
        for i, p in enumerate(params):
            if i < len(args):
                if p in kwargs:
                    self.raise_exc('TypeError', f'multiple values for argument {p}', node)
                env.vars[p] = args[i]
            elif p in kwargs:
                env.vars[p] = kwargs.pop(p)
            else:
                di = i - (len(params) - ndef)
                if di >= 0:
                    env.vars[p] = self.eval(defaults[di], defenv)
                else:
                    self.raise_exc('TypeError', f'missing required argument {p}', node)
        if a.vararg:
            env.vars[a.vararg.arg] = tuple(args[len(params):])
        elif len(args) > len(params):
            self.raise_exc('TypeError', 'too many positional arguments', node)
        for p, d in zip(a.kwonlyargs, a.kw_defaults):
            if p.arg in kwargs:
                env.vars[p.arg] = kwargs.pop(p.arg)
            elif d is not None:
                env.vars[p.arg] = self.eval(d, defenv)
            else:
                self.raise_exc('TypeError', f'missing keyword-only argument {p.arg}', node)
        if a.kwarg:
            env.vars[a.kwarg.arg] = kwargs
        elif kwargs:
            self.raise_exc('TypeError', f'unexpected keyword arguments {sorted(kwargs)}', node)

    def call_function(self, func, args, kwargs, node=None):
        if self.call_hook is not None:
            handled, result = self.call_hook(self, func, args, kwargs, node)
            if handled:
                return result
        if func.name == 'flatten' and args:
            from .pipes import SNested, flatten_abstract
            d = args[0]
            if isinstance(d, (tuple, list)) and len(d) == 1 and isinstance(d[0], SNested):
                d = d[0]
            if isinstance(d, SNested):
                return flatten_abstract(self, [d] + list(args[1:]), kwargs, node)
        fnode = func.node
        defenv = func.env if func.env is not None else Env({}, None, func.module)
        env = Env({}, func.env, func.module)
        env.func = func
        self.bind_args(fnode, args, kwargs, env, defenv, node)
        if isinstance(fnode, ast.Lambda):
            return self.eval(fnode.body, env)
        self.depth += 1
        if self.depth > self.MAX_DEPTH:
            self.depth -= 1
            raise Unsupported(f'recursion deeper than {self.MAX_DEPTH} in {func.name}', node)
        try:
            if func.cls is not None:
                env.vars.setdefault('__class__', func.cls)
            if is_generator(fnode):
                mapped = self.generator_map(fnode, env)
                if mapped is not None:
                    return mapped
                out = []
                env.yields = out
                try:
                    self.exec_block(fnode.body, env)
                except ReturnSig:
                    pass
                return out
            try:
                self.exec_block(fnode.body, env)
            except ReturnSig as r:
                return r.value
            return None
        finally:
            self.depth -= 1
            if func.module.name.startswith('pycel'):
                self.world.inlined.add(f'{func.module.name}:{func.name}')

    def generator_map(self, fnode, env):
        """Generator of the shape  <assignments>; for x in <symbolic-length seq>: yield e
        becomes the sequence map(e); None when the shape does not apply."""
        from .seqs import SSeq
        body = [st for st in fnode.body
                if not (isinstance(st, ast.Expr) and isinstance(st.value, ast.Constant))]
        if not body or not isinstance(body[-1], ast.For):
            return None
        loop = body[-1]
        if loop.orelse or len(loop.body) != 1 or not isinstance(loop.body[0], ast.Expr) or \
                not isinstance(loop.body[0].value, ast.Yield):
            return None
        for st in body[:-1]:
            if not isinstance(st, (ast.Assign, ast.AnnAssign)):
                return None
        for st in body[:-1]:
            self.exec_stmt(st, env)
        it = self.eval(loop.iter, env)
        if not isinstance(it, SSeq):
            # concrete: run eagerly (prefix already executed)
            out = []
            env.yields = out
            try:
                self.exec_stmt(loop, env)
            except ReturnSig:
                pass
            return out
        yexpr = loop.body[0].value.value

        def elem(i, idx):
            lenv = Env(dict(env.vars), env.parent, env.module)
            i.assign(loop.target, it.elem(i, idx), lenv)
            return i.eval(yexpr, lenv)
        return SSeq(it.length_term(), elem, 'generator')

    # -- statements -------------------------------------------------------------
    def exec_block(self, stmts, env):
        for s in stmts:
            self.exec_stmt(s, env)

    def exec_stmt(self, node, env):
        self.cur = (env.module.name, node.lineno)
        m = getattr(self, 's_' + type(node).__name__, None)
        if m is None:
            raise Unsupported(f'statement {type(node).__name__}', node)
        return m(node, env)

    def s_Expr(self, node, env):
        if isinstance(node.value, ast.Constant):
            return      # docstring
        if isinstance(node.value, (ast.Yield, ast.YieldFrom)):
            e = env
            while not hasattr(e, 'yields'):
                e = e.parent
                if e is None:
                    raise Unsupported('yield outside generator', node)
            if isinstance(node.value, ast.Yield):
                e.yields.append(None if node.value.value is None else self.eval(node.value.value, env))
            else:
                e.yields.extend(self.iterate(self.eval(node.value.value, env), node))
            return
        self.eval(node.value, env)

    def s_Pass(self, node, env):
        pass

    def s_Return(self, node, env):
        raise ReturnSig(None if node.value is None else self.eval(node.value, env))

    def s_Break(self, node, env):
        raise BreakSig()

    def s_Continue(self, node, env):
        raise ContinueSig()

    def s_Nonlocal(self, node, env):
        env.nonlocals.update(node.names)

    def s_Global(self, node, env):
        raise Unsupported('global statement', node)

    def s_Import(self, node, env):
        for a in node.names:
            env.vars[(a.asname or a.name).split('.')[0]] = self.world.import_module_obj(a.name)

    def s_ImportFrom(self, node, env):
        for a in node.names:
            env.vars[a.asname or a.name] = self.world.import_from(node, a.asname or a.name, env.module)

    METADATA_DECORATORS = ('excel_helper', 'excel_math_func', 'excel_func', 'functools.wraps')

    def apply_decorators(self, node, f, env):
        for d in reversed(node.decorator_list):
            ds = ast.unparse(d)
            head = ds.split('(')[0]
            if head in self.METADATA_DECORATORS:
                self.world.dropped.add(f'decorator @{head} (registration metadata only; the wrappers it '
                                       f'selects at load time have their own contracts)')
                continue
            if head in ('functools.lru_cache', 'lru_cache', 'functools.cache', 'cache'):
                raise Unsupported(f'memoised function {node.name} called from other code', node)
            dec = self.eval(d, env)
            f = self.call(dec, [f], {}, node)
        return f

    def s_FunctionDef(self, node, env):
        # qualified like a contract target: Class.method.nested
        e = env
        while e is not None and getattr(e, 'func', None) is None:
            e = e.parent
        outer = getattr(e.func, 'name', None) if e is not None else None
        f = Closure(node, env, env.module, f'{outer}.{node.name}' if outer else node.name)
        f = self.apply_decorators(node, f, env)
        env.vars[node.name] = f

    def s_ClassDef(self, node, env):
        env.vars[node.name] = ClassModel(node, env.module)

    def s_Assign(self, node, env):
        vr = self.world.verifier
        hs = getattr(getattr(vr, 'active', None), 'heap_sets', ()) if vr is not None else ()
        if (hs and len(node.targets) == 1 and isinstance(node.targets[0], ast.Name) and node.targets[0].id in hs
                and isinstance(node.value, ast.Call) and isinstance(node.value.func, ast.Name)
                and node.value.func.id == 'set' and not node.value.args):
            # a local set of cell addresses that the contract speaks about: kept as a heap field
            from . import heapmodel as HM
            name = node.targets[0].id
            HM.declare_heap_set(name)
            h = dict(HM.heap_of(self.ex))
            h['set:' + name] = z3.K(HM.Node, False)
            self.ex.heap = h
            env.vars[name] = HM.SNodeSet(name)
            return
        v = self.eval(node.value, env)
        for tgt in node.targets:
            self.assign(tgt, v, env)

    def s_AnnAssign(self, node, env):
        if node.value is not None:
            self.assign(node.target, self.eval(node.value, env), env)

    def s_AugAssign(self, node, env):
        tgt = node.target
        if isinstance(tgt, ast.Name):
            cur = self.e_Name(tgt, env)
        elif isinstance(tgt, ast.Attribute):
            obj = self.eval(tgt.value, env)
            cur = self.getattr(obj, tgt.attr, node)
        elif isinstance(tgt, ast.Subscript):
            obj = self.eval(tgt.value, env)
            idx = self.eval(tgt.slice, env)
            cur = self.index(obj, idx, node)
        else:
            raise Unsupported('augmented assignment target', node)
        rhs = self.eval(node.value, env)
        if isinstance(cur, list) and isinstance(node.op, ast.Add):
            cur.extend(self.iterate(rhs, node))
            new = cur
        else:
            new = self.binop(BIN_OPS[type(node.op)], cur, rhs, node)
        if isinstance(tgt, ast.Name):
            self.assign(tgt, new, env)
        elif isinstance(tgt, ast.Attribute):
            self.setattr(obj, tgt.attr, new, node)
        else:
            self.store_index(obj, idx, new, node)

    def store_index(self, obj, idx, value, node):
        if isinstance(obj, dict):
            if isinstance(idx, SV):
                raise Unsupported('symbolic dict key store', node)
            obj[idx] = value
            return
        if isinstance(obj, list):
            if isinstance(idx, SV):
                raise Unsupported('symbolic list index store', node)
            try:
                obj[idx] = value
            except IndexError:
                self.raise_exc('IndexError', 'list assignment index out of range', node)
            return
        from . import heap
        if heap.try_store_index(self, obj, idx, value, node):
            return
        raise Unsupported(f'subscript store on {type(obj).__name__}', node)

    def assign(self, tgt, v, env):
        if isinstance(tgt, ast.Name):
            if tgt.id in env.nonlocals:
                env.assign_nonlocal(tgt.id, v)
            else:
                env.vars[tgt.id] = v
        elif isinstance(tgt, (ast.Tuple, ast.List)):
            items = self.iterate(v, tgt)
            star = [i for i, e in enumerate(tgt.elts) if isinstance(e, ast.Starred)]
            if star:
                si = star[0]
                after = len(tgt.elts) - si - 1
                if len(items) < len(tgt.elts) - 1:
                    self.raise_exc('ValueError', 'not enough values to unpack', tgt)
                for e, x in zip(tgt.elts[:si], items[:si]):
                    self.assign(e, x, env)
                self.assign(tgt.elts[si].value, list(items[si:len(items) - after]), env)
                for e, x in zip(tgt.elts[si + 1:], items[len(items) - after:]):
                    self.assign(e, x, env)
                return
            if len(items) != len(tgt.elts):
                self.raise_exc('ValueError', 'unpack length mismatch', tgt)
            for e, x in zip(tgt.elts, items):
                self.assign(e, x, env)
        elif isinstance(tgt, ast.Attribute):
            obj = self.eval(tgt.value, env)
            self.setattr(obj, tgt.attr, v, tgt)
        elif isinstance(tgt, ast.Subscript):
            obj = self.eval(tgt.value, env)
            idx = self.eval(tgt.slice, env)
            self.store_index(obj, idx, v, tgt)
        else:
            raise Unsupported('assignment target', tgt)

    def s_If(self, node, env):
        if self.truth(self.eval(node.test, env)):
            self.exec_block(node.body, env)
        else:
            self.exec_block(node.orelse, env)

    def s_Assert(self, node, env):
        # message operand dropped
        if not self.truth(self.eval(node.test, env)):
            self.raise_exc('AssertionError', '', node)

    def s_Raise(self, node, env):
        if node.exc is None:
            cur = getattr(env, 'current_exc', None)
            e = env
            while cur is None and e is not None:
                cur = getattr(e, 'current_exc', None)
                e = e.parent
            if cur is None:
                raise Unsupported('bare raise outside handler', node)
            raise cur
        exc = node.exc
        # message operands dropped: only the type is kept
        if isinstance(exc, ast.Call):
            exc = exc.func
        if isinstance(exc, ast.Name):
            name = exc.id
            if name not in sym.EXC_PARENTS:
                # a variable holding an exception class / instance
                try:
                    val = env.lookup(name)
                except KeyError:
                    val = None
                if isinstance(val, ClassModel):
                    name = val.name
                elif isinstance(val, Builtin) and val.name in sym.EXC_PARENTS:
                    name = val.name
                elif isinstance(val, ExcValue):
                    raise val.exc
                elif val is not None:
                    raise Unsupported(f'raise of {val!r}', node)
        elif isinstance(exc, ast.Attribute):
            name = exc.attr
        else:
            raise Unsupported('raise expression', node)
        self.world.dropped.add('message operand of raise/assert')
        raise PyExc(name, '', node.lineno)

    def handler_matches(self, h, exc, env):
        if h.type is None:
            return True
        types = h.type.elts if isinstance(h.type, ast.Tuple) else [h.type]
        for t in types:
            name = t.id if isinstance(t, ast.Name) else t.attr if isinstance(t, ast.Attribute) else None
            if name is None:
                raise Unsupported('except type expression', h)
            if sym.exc_isinstance(exc.typ, name):
                return True
        return False

    def s_Try(self, node, env):
        try:
            try:
                self.exec_block(node.body, env)
            except PyExc as exc:
                for h in node.handlers:
                    if self.handler_matches(h, exc, env):
                        if h.name:
                            env.vars[h.name] = ExcValue(exc)
                        prev = getattr(env, 'current_exc', None)
                        env.current_exc = exc
                        try:
                            self.exec_block(h.body, env)
                        finally:
                            env.current_exc = prev
                        break
                else:
                    raise
            else:
                self.exec_block(node.orelse, env)
        finally:
            if node.finalbody:
                self.exec_block(node.finalbody, env)

    def s_With(self, node, env):
        if len(node.items) != 1:
            raise Unsupported('multi-item with', node)
        item = node.items[0]
        cm = self.eval(item.context_expr, env)
        enter = self.getattr(cm, '__enter__', node)
        exit_ = self.getattr(cm, '__exit__', node)
        val = self.call(enter, [], {}, node)
        if item.optional_vars is not None:
            self.assign(item.optional_vars, val, env)
        try:
            self.exec_block(node.body, env)
        except PyExc:
            r = self.call(exit_, [None, None, None], {}, node)
            if r is not None and self.truth(r):
                return
            raise
        except (ReturnSig, BreakSig, ContinueSig):
            self.call(exit_, [None, None, None], {}, node)
            raise
        else:
            self.call(exit_, [None, None, None], {}, node)

    def s_For(self, node, env):
        from .seqs import SSeq
        vr = self.world.verifier
        gb = getattr(getattr(vr, 'active', None), 'ghost_before_loop', None) if vr is not None else None
        if gb and not vr.in_spec:
            e = env
            while e is not None and getattr(e, 'func', None) is None:
                e = e.parent
            if e is not None and e.func.node is getattr(vr, 'active_node', None):
                from .loops import loop_ordinal
                k = loop_ordinal(e.func.node, node)
                if k in gb:
                    gb[k](vr, self, env)
        it = self.eval(node.iter, env)
        from .vc import loop_hook
        from .heapmodel import SAbstractSet
        from .arrays import SArr
        if isinstance(it, SArr) and not z3.is_int_value(z3.simplify(it.length_term())):
            handled = loop_hook(self, node, env, it, force=True)
            if handled:
                return
        if isinstance(it, (SSeq, SAbstractSet)):
            handled = loop_hook(self, node, env, it, force=True)
            if handled:
                return
            raise Unsupported('for loop over a collection of unknown size without an invariant', node)
        items = self.iterate(it, node)
        if len(items) > self.MAX_UNROLL:
            raise Unsupported('loop too long to unroll', node)
        broke = False
        for x in items:
            self.assign(node.target, x, env)
            try:
                self.exec_block(node.body, env)
            except BreakSig:
                broke = True
                break
            except ContinueSig:
                continue
        if not broke:
            self.exec_block(node.orelse, env)

    def s_While(self, node, env):
        from .vc import loop_hook
        if loop_hook(self, node, env, None, force=True):
            return
        n = 0
        broke = False
        while True:
            c = self.eval(node.test, env)
            if isinstance(c, SV) and n >= 64:
                raise Unsupported('while loop with symbolic condition needs an invariant', node)
            if not self.truth(c):
                break
            n += 1
            if n > self.MAX_UNROLL:
                raise Unsupported('while loop too long', node)
            try:
                self.exec_block(node.body, env)
            except BreakSig:
                broke = True
                break
            except ContinueSig:
                continue
        if not broke:
            self.exec_block(node.orelse, env)

    def s_Delete(self, node, env):
        for t in node.targets:
            if isinstance(t, ast.Subscript):
                obj = self.eval(t.value, env)
                if isinstance(t.slice, ast.Slice) and isinstance(obj, list):
                    lo = self.eval(t.slice.lower, env) if t.slice.lower is not None else None
                    hi = self.eval(t.slice.upper, env) if t.slice.upper is not None else None
                    if t.slice.step is not None or isinstance(lo, SV) or isinstance(hi, SV):
                        raise Unsupported('del of a symbolic slice', node)
                    del obj[lo:hi]
                    continue
                idx = self.eval(t.slice, env)
                if isinstance(obj, list) and isinstance(idx, int):
                    if not -len(obj) <= idx < len(obj):
                        self.raise_exc('IndexError', 'list assignment index out of range', node)
                    del obj[idx]
                    continue
                if isinstance(obj, dict) and not isinstance(idx, SV):
                    if idx not in obj:
                        self.raise_exc('KeyError', repr(idx), node)
                    del obj[idx]
                    continue
                from . import heap
                if heap.try_delete_index(self, obj, idx, node):
                    continue
            raise Unsupported('del target', node)


class ExcValue:
    """Value bound by `except E as name`."""

    def __init__(self, exc):
        self.exc = exc


class SymSet:
    """A small set literal with symbolic members (membership only)."""

    def __init__(self, items):
        self.items = list(items)


class LazyGen:
    """Generator expression: evaluated when consumed (once)."""

    def __init__(self, interp, node, env, first=None):
        self.interp = interp
        self.node = node
        self.env = env
        self.first = first
        self._items = None

    def iterator(self):
        return self.interp.comprehension(self.node, self.env, first=self.first)

    def materialize(self):
        if self._items is None:
            r = self.iterator()
            from .seqs import SSeq
            from .pipes import SPipe
            from .arrays import SArr
            if isinstance(r, SPipe):
                raise Unsupported('concrete iteration over an unbounded range pipeline', self.node)
            if isinstance(r, SArr):
                self._items = r
                return r.hm_iterate(self.interp, self.node)
            if isinstance(r, SSeq):
                self._items = r
                return r.concretize_iter(self.interp, self.node)
            self._items = list(r)
        return self._items


def is_generator(fnode):
    for n in walk_no_nested(fnode):
        if isinstance(n, (ast.Yield, ast.YieldFrom)):
            return True
    return False


def walk_no_nested(fnode):
    todo = list(ast.iter_child_nodes(fnode))
    while todo:
        n = todo.pop()
        if isinstance(n, (ast.FunctionDef, ast.Lambda, ast.ClassDef)):
            continue
        yield n
        todo.extend(ast.iter_child_nodes(n))
