"""Per-property check driver.

  python3-vt -m pyvc.check C11 --tier quick|thorough [--repo /repo]

exit 0  every obligation of the property discharged, bounded stand-ins clean
        (known findings are printed as KNOWN-FINDING lines)
exit 1  + 'VIOLATION property=<id> replay=<path>' : a failed obligation
exit 2  + 'UNDECIDED ...' : an obligation neither discharged nor refuted
exit 3  checker fault (zero obligations, missing target, crashed worker ...)
"""
import argparse
import hashlib
import importlib
import json
import multiprocessing
import os
import subprocess
import sys
import time
import traceback

HERE = os.path.dirname(os.path.dirname(os.path.abspath(__file__)))
VENV_PY = '/venv/bin/python'


def install_arena_shim():
    """Performance only (see native/arena_shim.c); silently skipped on failure."""
    try:
        import ctypes
        build = os.path.join(HERE, 'build')
        so = os.path.join(build, 'arena_shim.so')
        src = os.path.join(HERE, 'pyvc', 'native', 'arena_shim.c')
        if not os.path.exists(so) or os.path.getmtime(so) < os.path.getmtime(src):
            os.makedirs(build, exist_ok=True)
            tmp = so + f'.{os.getpid()}.tmp'
            subprocess.run(['cc', '-O2', '-shared', '-fPIC', '-o', tmp, src], check=True,
                           capture_output=True)
            os.replace(tmp, so)
        ctypes.PyDLL(so).pyvc_install_arena_shim()
        return True
    except Exception:
        return False


def git_state(repo):
    try:
        head = subprocess.run(['git', '-C', repo, 'rev-parse', 'HEAD'], capture_output=True, text=True).stdout.strip()
        dirty = subprocess.run(['git', '-C', repo, 'status', '--porcelain', '--', 'src'], capture_output=True,
                               text=True).stdout.strip()
        return {'head': head, 'dirty_files': dirty.split('\n') if dirty else []}
    except Exception:
        return {}


def load_sidecar(pid):
    return importlib.import_module(f'contracts.{pid.lower()}')


def collect_items(mod, tier='thorough'):
    items = []
    for i, c in enumerate(getattr(mod, 'CONTRACTS', [])):
        ctier = getattr(c, 'tier', 'quick')
        if (ctier == 'thorough' and tier not in ('thorough', 'deep')) or (ctier == 'deep' and tier != 'deep'):
            continue
        items.append(('contract', i, c.name))
    for i, lem in enumerate(getattr(mod, 'LEMMAS', [])):
        items.append(('lemma', i, lem.name))
    return items


def worker(job):
    repo, pid, kind, idx, only = job
    t0 = time.time()
    try:
        sys.setrecursionlimit(20000)
        from . import vc as _vc
        _mod = load_sidecar(pid)
        _c = (_mod.CONTRACTS if kind == 'contract' else _mod.LEMMAS)[idx]
        if getattr(_c, 'tier', 'quick') in ('thorough', 'deep'):
            _vc.TIME_SCALE = 6          # slow contracts: wall-clock caps of the solver portfolio (16 of these run at once)
        from .vc import Verifier
        mod = load_sidecar(pid)
        vr = Verifier(repo, HERE)
        vr.register(getattr(mod, 'CONTRACTS', []))
        vr.register(getattr(mod, 'ASSUMED', []))       # contracts used modularly but not discharged here
        for m in getattr(mod, 'USES', []):
            vr.register(importlib.import_module(m).CONTRACTS)
        if kind == 'contract':
            c = mod.CONTRACTS[idx]
            rep = vr.verify_contract(c, only)
        else:
            c = mod.LEMMAS[idx]
            rep = vr.verify_lemma(c, only)
        return report_to_dict(rep, vr, kind, time.time() - t0)
    except Exception:
        return {'kind': kind, 'index': idx, 'crash': traceback.format_exc(), 'wall_s': time.time() - t0}


def report_to_dict(rep, vr, kind, wall):
    c = rep.contract
    recs = []
    for r in rep.records:
        recs.append({'name': r.name, 'kind': r.kind, 'status': r.verdict.status,
                     'backend': r.verdict.backend, 'ms': round(r.verdict.ms, 2),
                     'scenario': r.scenario, 'witness': r.witness, 'detail': r.detail,
                     'reason': r.verdict.reason, 'path': r.path_id})
    names = None
    if kind == 'contract':
        p = c.params[0] if isinstance(c.params, (list, tuple)) else c.params
        names = list(p)
    else:
        names = list(c.params[0] if isinstance(c.params, (list, tuple)) else c.params)
    return {
        'kind': kind, 'name': c.name, 'target': c.target, 'klass': getattr(c, 'klass', 'PROVED'),
        'unsupported': rep.unsupported, 'paths': rep.paths, 'scenarios': rep.scenarios,
        'infeasible_scenarios': rep.infeasible_scenarios,
        'source_sha256': rep.source_hash, 'file': rep.file, 'lines': rep.lines,
        'records': recs, 'reach': rep.reach, 'wall_s': round(wall, 3),
        'param_order': names,
        'ensures': [e.__name__ for e in getattr(c, 'ensures', [])],
        'raises': {k: (v.__name__ if v is not None else None) for k, v in getattr(c, 'raises', {}).items()},
        'native_call': getattr(c, 'native_call', None),
        'free_vars': list(getattr(c, 'free_vars', ()) or ()), 'record_mode': bool(getattr(c, 'record', False)),
        'has_prepare': (getattr(c, 'prepare', None) is not None or bool(getattr(c, 'closure_env', None))
                        or bool(getattr(c, 'modular', None)) or bool(getattr(c, 'ghost', None))),
        'trusted': sorted(vr.world.trusted), 'dropped': sorted(vr.world.dropped),
        'inlined': sorted(vr.world.inlined),
        'solver_ms': round(vr.explorer.solver_ms, 1), 'branch_queries': vr.explorer.branch_queries,
    }


def merge_parts(parts):
    """Per-scenario partial reports of one function -> one report."""
    out = {}
    order = []
    for p in parts:
        if 'crash' in p:
            order.append(p)
            continue
        key = (p['kind'], p['name'])
        if key not in out:
            out[key] = p
            order.append(p)
            continue
        m = out[key]
        m['records'].extend(p['records'])
        m['paths'] += p['paths']
        m['infeasible_scenarios'].extend(p['infeasible_scenarios'])
        m['wall_s'] = round(max(m['wall_s'], p['wall_s']), 3)
        m['cpu_s'] = round(m.get('cpu_s', 0) + p['wall_s'], 3)
        m['unsupported'] = m['unsupported'] or p['unsupported']
        for k, v in p['reach'].items():
            m['reach'][k] = m['reach'].get(k, 0) + v
        for k in ('trusted', 'dropped', 'inlined'):
            m[k] = sorted(set(m[k]) | set(p[k]))
        m['solver_ms'] += p['solver_ms']
        m['branch_queries'] += p['branch_queries']
    return order


def load_known(pid):
    path = os.path.join(HERE, 'known_findings.json')
    if not os.path.exists(path):
        return []
    with open(path) as f:
        data = json.load(f)
    return [e for e in data.get('findings', []) if e.get('property') == pid]


def match_known(known, mod, rec):
    """A failing record is a known finding iff obligation name matches and the
    witness is in the entry's witness class (a predicate in the sidecar)."""
    for e in known:
        if e['obligation'] != rec['name']:
            continue
        cls = e.get('witness_class')
        if cls is None:
            return e
        fn = getattr(mod, cls, None)
        if fn is None:
            continue
        try:
            if rec['witness'] is not None and fn(rec['witness']):
                return e
        except Exception:
            continue
    return None


def run_replay(path, repo):
    env = dict(os.environ)
    env['PYTHONPATH'] = os.path.join(repo, 'src') + os.pathsep + HERE
    try:
        out = subprocess.run([VENV_PY, '-m', 'pyvc.replay', path, '--repo', repo], capture_output=True,
                             text=True, cwd=HERE, env=env, timeout=300)
    except subprocess.TimeoutExpired:
        return None, 'replay timeout'
    first = out.stdout.strip().split('\n')[0] if out.stdout.strip() else ''
    try:
        info = json.loads(first)
    except Exception:
        return None, (out.stdout + out.stderr)[-2000:]
    return info['reproduced'], info['observed']


def run_bounded(pid, tier, seed, repo):
    """Bounded stand-in (run-time contract checking natively); never 'proved'."""
    mod = load_sidecar(pid)
    if not hasattr(mod, 'bounded'):
        return None
    env = dict(os.environ)
    env['PYTHONPATH'] = os.path.join(repo, 'src') + os.pathsep + HERE
    out_path = os.path.join(HERE, 'replays', f'{pid}-bounded-{tier}.json')
    cmd = [VENV_PY, '-m', 'pyvc.rtc', pid, '--tier', tier, '--seed', str(seed), '--repo', repo,
           '--out', out_path]
    t0 = time.time()
    if os.path.exists(out_path):
        os.remove(out_path)
    out = subprocess.run(cmd, capture_output=True, text=True, cwd=HERE, env=env)
    if out.returncode not in (0, 1) or not os.path.exists(out_path):
        return {'error': (out.stdout + out.stderr)[-4000:], 'wall_s': time.time() - t0}
    with open(out_path) as f:
        res = json.load(f)
    res['wall_s'] = round(time.time() - t0, 2)
    return res


def main():
    if os.environ.get('PYTHONHASHSEED') != '0':
        # set/dict iteration order feeds the order of solver assertions: make runs reproducible
        os.environ['PYTHONHASHSEED'] = '0'
        os.execv(sys.executable, [sys.executable, '-m', 'pyvc.check'] + sys.argv[1:])
    ap = argparse.ArgumentParser()
    ap.add_argument('pid')
    ap.add_argument('--tier', default=os.environ.get('VERIF_TIER', 'quick'))
    ap.add_argument('--repo', default='/repo')
    ap.add_argument('--write-baseline', action='store_true')
    ap.add_argument('--only', default='')
    ap.add_argument('--no-evidence', action='store_true')
    ap.add_argument('--jobs', type=int, default=int(os.environ.get('PYVC_JOBS', '14')))
    args = ap.parse_args()
    pid = args.pid
    seed = int(os.environ.get('VERIF_SEED', '0'))
    t_start = time.time()
    sys.path.insert(0, HERE)
    install_arena_shim()
    os.makedirs(os.path.join(HERE, 'evidence'), exist_ok=True)
    os.makedirs(os.path.join(HERE, 'replays'), exist_ok=True)
    mod = load_sidecar(pid)
    items = collect_items(mod, args.tier)
    os.environ['VERIF_TIER_EFFECTIVE'] = args.tier
    if args.only:
        items = [it for it in items if args.only in it[2]]
    from .vc import expand_scenarios
    jobs = []
    for k, i, _ in items:
        obj = mod.CONTRACTS[i] if k == 'contract' else mod.LEMMAS[i]
        n = len(expand_scenarios(obj.params))
        if n > 1:
            # scenarios in fixed chunks (fresh process per chunk: reproducible solver state)
            nchunks = min(n, 4 * args.jobs)
            for ci in range(nchunks):
                jobs.append((args.repo, pid, k, i, tuple(range(ci, n, nchunks))))
        else:
            jobs.append((args.repo, pid, k, i, None))
    if jobs:
        with multiprocessing.Pool(min(args.jobs, len(jobs)), maxtasksperchild=1) as pool:  # fresh z3 state per job: reproducible
            parts = pool.map(worker, jobs, chunksize=1)
    else:
        parts = []
    reports = merge_parts(parts)

    exit_code = 0
    lines = []
    known = load_known(pid)
    known_matched = []
    violations = []
    undecided = []
    faults = []
    obligations = {}
    backends = {}
    functions = []
    trusted = set()
    dropped = set()
    samples = []
    total_queries = 0
    replay_n = 0

    for rep in reports:
        if 'crash' in rep:
            faults.append(f"worker crashed: {rep['crash'][-1500:]}")
            continue
        trusted.update(rep['trusted'])
        dropped.update(rep['dropped'])
        klass = rep['klass']
        fentry = {'name': rep['name'], 'target': rep['target'], 'file': rep['file'], 'lines': rep['lines'],
                  'sha256': rep['source_sha256'], 'class': klass, 'paths': rep['paths'],
                  'scenarios': rep['scenarios'], 'wall_s': rep['wall_s'],
                  'inlined_callees': [x for x in rep['inlined'] if x != rep['target']]}
        if rep['unsupported']:
            fentry['class'] = 'OUT-OF-REACH'
            fentry['reason'] = rep['unsupported']
            undecided.append((rep['name'], rep['unsupported']))
        if rep['paths'] == 0 and not rep['unsupported']:
            faults.append(f"{rep['name']}: no feasible path (unsatisfiable requires?)")
        for lab in rep['infeasible_scenarios']:
            fentry.setdefault('infeasible_scenarios', []).append(lab)
        functions.append(fentry)
        for r in rep['records']:
            total_queries += 1
            key = r['name']
            ob = obligations.setdefault(key, {'queries': 0, 'unsat': 0, 'sat': 0, 'unknown': 0, 'ms': 0.0,
                                              'kind': r['kind'], 'function': rep['name']})
            ob['queries'] += 1
            ob.setdefault('backends', {})
            ob['backends'][r['backend']] = ob['backends'].get(r['backend'], 0) + 1
            ob[r['status']] += 1
            ob['ms'] += r['ms']
            b = backends.setdefault(r['backend'], {'queries': 0, 'ms': 0.0})
            b['queries'] += 1
            b['ms'] += r['ms']
            if len(samples) < 6 and r['status'] == 'unsat' and r['kind'] in ('post', 'lemma') and \
                    not any(s['obligation'] == r['name'] for s in samples):
                samples.append({'obligation': r['name'], 'scenario': r['scenario'], 'result': 'unsat',
                                'backend': r['backend'], 'ms': r['ms']})
            if r['status'] == 'sat':
                e = match_known(known, mod, r)
                if e is not None:
                    if e['id'] not in [k['id'] for k in known_matched]:
                        known_matched.append(e)
                    continue
                if sum(1 for v in violations if v['name'] == r['name']) >= 3:
                    continue
                replay_n += 1
                path = os.path.join(HERE, 'replays', f'{pid}-{replay_n}.json')
                clause = r['name'].split(':')[-1] if r['kind'] in ('post',) else None
                if r['kind'] == 'lemma':
                    clause = getattr(mod.LEMMAS[[l.name for l in mod.LEMMAS].index(rep['name'].split('/', 1)[1])],
                                     'body').__name__
                spec = {'property': pid, 'obligation': r['name'], 'kind': r['kind'], 'target': rep['target'],
                        'contract_module': mod.__name__, 'clause': clause, 'args': r['witness'],
                        'param_order': rep['param_order'], 'allowed_raises': rep['raises'],
                        'native_call': rep['native_call'], 'free_vars': rep.get('free_vars', []),
                        'record_mode': rep.get('record_mode', False), 'has_prepare': rep.get('has_prepare', False),
                        'scenario': r['scenario'], 'detail': r['detail'],
                        'solver': {'backend': r['backend'], 'ms': r['ms'], 'result': 'sat'},
                        'source_sha256': rep['source_sha256'], 'file': rep['file'], 'lines': rep['lines'],
                        'repo_state': git_state(args.repo)}
                reproduced, observed = (None, 'no model') if r['witness'] is None else (None, None)
                with open(path, 'w') as f:
                    json.dump(spec, f, indent=1, default=str)
                if r['witness'] is not None:
                    reproduced, observed = run_replay(path, args.repo)
                spec['native'] = {'reproduced': reproduced, 'observed': observed}
                with open(path, 'w') as f:
                    json.dump(spec, f, indent=1, default=str)
                violations.append({'name': r['name'], 'replay': path, 'reproduced': reproduced,
                                   'observed': observed, 'scenario': r['scenario']})
            elif r['status'] == 'unknown':
                undecided.append((r['name'], f"solver unknown: {r['reason']}"))

    # frame scans: syntactic effect analysis of the current source that establishes a frame assumed by a
    # modular contract ("only these functions write that field").  A failing scan leaves the frame
    # unestablished: undecided, not a violation.
    for scan in getattr(mod, 'FRAME_SCANS', []):
        t_scan = time.time()
        try:
            results = scan(os.path.join(args.repo, 'src'))
        except Exception:
            faults.append(f'frame scan {scan.__name__} crashed: {traceback.format_exc()[-800:]}')
            continue
        ms = (time.time() - t_scan) * 1000
        for res in results:
            key = f"frame-scan/{scan.__name__}:{res['name']}"
            total_queries += 1
            ob = obligations.setdefault(key, {'queries': 0, 'unsat': 0, 'sat': 0, 'unknown': 0, 'ms': 0.0,
                                              'kind': 'frame-scan', 'function': res.get('function', scan.__name__),
                                              'backends': {}})
            ob['queries'] += 1
            ob['backends']['ast-scan'] = ob['backends'].get('ast-scan', 0) + 1
            ob['ms'] += ms / max(1, len(results))
            b = backends.setdefault('ast-scan', {'queries': 0, 'ms': 0.0})
            b['queries'] += 1
            b['ms'] += ms / max(1, len(results))
            if res['ok']:
                ob['unsat'] += 1
            else:
                ob['unknown'] += 1
                undecided.append((key, 'frame not established by the source: ' + res.get('detail', '')))

    # specification lemmas written directly as SMT queries (they link the postconditions of the contracts to the
    # property statement; they do not read the code): valid -> discharged, not valid -> the ARGUMENT is broken (fault)
    for lem in getattr(mod, 'SMT_LEMMAS', []):
        t_l = time.time()
        try:
            results = lem()
        except Exception:
            faults.append(f'specification lemma {lem.__name__} crashed: {traceback.format_exc()[-800:]}')
            continue
        for res in results:
            key = f"spec-lemma/{lem.__name__}:{res['name']}"
            total_queries += 1
            ob = obligations.setdefault(key, {'queries': 0, 'unsat': 0, 'sat': 0, 'unknown': 0, 'ms': 0.0,
                                              'kind': 'spec-lemma', 'function': '(specification)', 'backends': {}})
            ob['queries'] += 1
            ob['backends']['z3-5.1'] = ob['backends'].get('z3-5.1', 0) + 1
            ob['ms'] += res.get('ms', 0.0)
            b = backends.setdefault('z3-5.1', {'queries': 0, 'ms': 0.0})
            b['queries'] += 1
            b['ms'] += res.get('ms', 0.0)
            if res['status'] == 'unsat':
                ob['unsat'] += 1
            elif res['status'] == 'unknown':
                ob['unknown'] += 1
                undecided.append((key, 'solver unknown on a specification lemma'))
            else:
                ob['sat'] += 1
                faults.append(f'specification lemma {key} is not valid: the argument from the contracts to the property is broken')

    # vacuity: every clause must have been reached
    for rep in reports:
        if 'crash' in rep or rep['unsupported']:
            continue
        if rep['kind'] == 'contract':
            for i, e in enumerate(rep['ensures']):
                nm = f"{rep['name']}/post#{i}:{e}"
                if rep['reach'].get(nm, 0) == 0:
                    faults.append(f'vacuous: clause {nm} was never reached')

    for c in getattr(mod, 'CONTRACTS', []):
        ctier = getattr(c, 'tier', 'quick')
        if (ctier == 'thorough' and args.tier not in ('thorough', 'deep')) or (ctier == 'deep' and args.tier != 'deep'):
            functions.append({'name': c.name, 'target': c.target, 'class': ctier.upper() + '-TIER-ONLY',
                              'reason': f'discharged by `--tier {ctier}` only (minutes of solver time per scenario); '
                                        'NOT counted in this run. ' + (c.notes or '')})
    for c in getattr(mod, 'ASSUMED', []):
        functions.append({'name': c.name, 'target': c.target, 'class': 'ASSUMED-CONTRACT (' + c.klass + ')',
                          'reason': c.notes or 'contract assumed at call sites; not discharged deductively'})
    for c in getattr(mod, 'BOUNDED_FUNCTIONS', []):
        functions.append({'name': c.name, 'target': c.target, 'class': 'BOUNDED',
                          'reason': c.notes or 'outside the reach of the SMT back ends; bounded stand-in only'})
    n_obl = len(obligations)
    n_dis = sum(1 for o in obligations.values() if o['sat'] == 0 and o['unknown'] == 0)
    if n_obl == 0 and not undecided:
        faults.append('zero obligations generated')

    # baseline comparison (names of obligations discharged on the pinned tree)
    base_path = os.path.join(HERE, 'baseline', f'{pid}.json')
    if args.write_baseline:
        os.makedirs(os.path.dirname(base_path), exist_ok=True)
        with open(base_path, 'w') as f:
            json.dump({k: {'queries': v['queries'], 'status': 'discharged' if v['sat'] == 0 and v['unknown'] == 0
                           else 'failing'} for k, v in sorted(obligations.items())}, f, indent=1)
    elif os.path.exists(base_path) and not args.only:
        with open(base_path) as f:
            base = json.load(f)
        for k, v in base.items():
            if k not in obligations:
                owner = k.split('/')[0]
                if not any(owner == u[0] or owner in u[0] for u in undecided):
                    faults.append(f'obligation {k} of the baseline was not generated')

    # bounded stand-in
    bounded = run_bounded(pid, 'thorough' if args.tier == 'deep' else args.tier, seed, args.repo) if not args.only else None
    bounded_viol = []
    if bounded is not None:
        if 'error' in bounded:
            faults.append('bounded stand-in crashed: ' + bounded['error'][-1500:])
        else:
            for kid in bounded.get('known_hits', {}):
                for k in known:
                    if k['id'] == kid and kid not in [x['id'] for x in known_matched]:
                        known_matched.append(k)
            bounded_viol.extend(bounded.get('failures', []))

    for e in known_matched:
        lines.append(f"KNOWN-FINDING: property={pid} {e['obligation']} {e['what']}")
    for v in violations:
        tail = '' if v['reproduced'] else ' no-failing-input-found'
        lines.append(f"VIOLATION property={pid} replay={v['replay']} obligation={v['name']}{tail}")
    for fl in bounded_viol[:5]:
        lines.append(f"VIOLATION property={pid} replay={fl['replay']} obligation={fl['obligation']} (bounded stand-in)")
    # an out-of-reach function whose bounded stand-in found a violation is a violation;
    # otherwise it stays undecided
    for name, why in undecided[:10]:
        lines.append(f'UNDECIDED property={pid} obligation={name} reason={why}')
    for f_ in faults:
        lines.append(f'CHECKER-FAULT property={pid} {f_}')

    if violations or bounded_viol:
        exit_code = 1
    elif faults:
        exit_code = 3
    elif undecided:
        exit_code = 2

    level = getattr(mod, 'LEVEL', 'other')
    explanation = getattr(mod, 'EXPLANATION', '')
    cov = {
        'obligations': n_obl, 'discharged': n_dis, 'queries': total_queries,
        'checker_cmd': f'python3-vt -m pyvc.check {pid} --tier {args.tier}',
        'trusted_base': sorted(trusted),
        'functions': functions,
        'obligation_table': {k: {kk: (round(vv, 1) if isinstance(vv, float) else vv) for kk, vv in v.items()}
                             for k, v in sorted(obligations.items())},
        'backends': {k: {'queries': v['queries'], 'ms': round(v['ms'], 1)} for k, v in backends.items()},
        'solver_ms_total': round(sum(v['ms'] for v in backends.values()), 1),
        'dropped_constructs': sorted(dropped),
        'samples': samples or [{'note': 'no discharged post/lemma obligation to sample'}],
        'known_findings_matched': [e['id'] for e in known_matched],
        'undecided': [{'obligation': n, 'reason': w} for n, w in undecided],
        'explanation': explanation + f' This run: {n_dis}/{n_obl} named obligations discharged over '
                                     f'{total_queries} path queries; {len(undecided)} undecided; '
                                     f'{len(violations) + len(bounded_viol)} violations.',
        'repo_state': git_state(args.repo),
    }
    if bounded is not None and 'error' not in bounded:
        cov['bounded'] = {k: v for k, v in bounded.items() if k != 'failures'}
        cov['bounded']['label'] = 'bounded stand-in: run-time contract checking over an enumerated domain; NOT counted as proved'
        cov['evaluations'] = bounded.get('evaluations', 0)
        cov['distinct_nontrivial'] = bounded.get('distinct_nontrivial', 0)
        cov['rule'] = bounded.get('rule', '')
    evidence = {
        'property_id': pid, 'tier': args.tier if args.tier in ('quick', 'thorough') else 'quick', 'seed': seed,
        'level': level, 'coverage': cov,
        'assumptions': sorted(trusted) + list(getattr(mod, 'ASSUMPTIONS', [])),
        'wall_s': round(time.time() - t_start, 2),
        'violations': len(violations) + len(bounded_viol),
    }
    if not args.only and not args.no_evidence:
        with open(os.path.join(HERE, 'evidence', f'{pid}.json'), 'w') as f:
            json.dump(evidence, f, indent=1, default=str)
    slow = sorted([(r.get('wall_s', 0), r.get('name', '?'), r.get('paths', 0)) for r in reports if 'crash' not in r],
                  reverse=True)[:4]
    print('slowest:', '; '.join(f'{n} {w:.1f}s/{p}paths' for w, n, p in slow))
    for ln in lines:
        print(ln)
    print(f'{pid}: obligations={n_obl} discharged={n_dis} queries={total_queries} '
          f'violations={len(violations) + len(bounded_viol)} undecided={len(undecided)} faults={len(faults)} '
          f'wall={time.time() - t_start:.1f}s exit={exit_code}')
    sys.exit(exit_code)


if __name__ == '__main__':
    main()
