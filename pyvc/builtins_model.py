"""Trusted contracts of Python built-ins / stdlib / third-party functions.

Every model here is an *assumption* about code outside pycel.  Each model
registers its tag in world.trusted when it is used, so the evidence lists
exactly the trusted facts that took part in a run.  Models include the raise
conditions of the built-in.
"""
import math

import z3

from . import sym
from .sym import (PyExc, SBool, SFloat, SInt, SStr, SV, Unsupported,
                  as_int_term, as_real_term, is_floatlike, is_intlike,
                  is_numlike, is_strlike, mk_bool, mk_float, mk_int, mk_str,
                  str_term)

# uninterpreted functions (shared, global z3 context)
S = z3.StringSort()
I = z3.IntSort()
R = z3.RealSort()
B = z3.BoolSort()

UF = {}


def uf(name, *sorts):
    if name not in UF:
        UF[name] = z3.Function(name, *sorts)
    return UF[name]


ERROR_CODES = ('#NULL!', '#DIV/0!', '#VALUE!', '#REF!', '#NAME?', '#NUM!', '#N/A')


def trust(interp, tag):
    interp.world.trusted.add(tag)


# ---------------------------------------------------------------------------
# conversions
# ---------------------------------------------------------------------------

def int_to_str_term(t):
    return z3.If(t >= 0, z3.IntToStr(t), z3.Concat(z3.StringVal('-'), z3.IntToStr(-t)))


def b_str(interp, args, kwargs, node):
    if not args:
        return ''
    v = args[0]
    if isinstance(v, (SStr, str)):
        return v
    if hasattr(v, 'hm_str'):
        return v.hm_str(interp)
    if isinstance(v, (list, tuple)) and all(isinstance(x, (str, int, float, bool, type(None))) for x in v):
        return str(v)
    if isinstance(v, SBool):
        return mk_str(z3.If(v.t, z3.StringVal('True'), z3.StringVal('False')))
    if isinstance(v, SInt):
        trust(interp, 'A-NUMSTR: str(int) is the decimal rendering (SMT int.to.str with sign)')
        return mk_str(int_to_str_term(v.t))
    if isinstance(v, SFloat):
        trust(interp, 'A-NUMSTR: str(float) is an uninterpreted injective-free rendering float_str(x)')
        return mk_str(uf('float_str', R, S)(v.t))
    if v is None or isinstance(v, (int, float, bool)):
        return str(v)
    from .interp import ExcValue
    if isinstance(v, ExcValue):
        return mk_str(z3.String(interp.ex.fresh_name('excmsg')))
    from .interp import SObj, Closure
    if isinstance(v, SObj):
        c, fn = v.cls.find('__str__')
        if fn is not None:
            return interp.call_function(Closure(fn, None, c.module, f'{c.name}.__str__', cls=c), [v], {})
    if isinstance(v, SObj):
        # repr-like rendering of an object: only ever used in log / error messages
        interp.world.dropped.add('text of str(<object>) (messages only): an unconstrained string')
        return mk_str(z3.String(interp.ex.fresh_name('objstr')))
    raise Unsupported(f'str() of {type(v).__name__}', node)


def b_int(interp, args, kwargs, node):
    if not args:
        return 0
    v = args[0]
    if len(args) > 1 or 'base' in kwargs:
        base = args[1] if len(args) > 1 else kwargs['base']
        return int_base(interp, v, base, node)
    if isinstance(v, SInt):
        return v
    if isinstance(v, SBool):
        return mk_int(as_int_term(v))
    if isinstance(v, SFloat):
        trust(interp, 'A-FLOAT: float is modelled as a real; int(x) truncates toward zero')
        t = v.t
        return mk_int(z3.If(t >= 0, sym.floor_int(interp.ex, t), -sym.floor_int(interp.ex, -t)))
    if isinstance(v, SStr):
        trust(interp, 'A-STRNUM: int(s) is an uninterpreted partial parse (int_parses/int_parse)')
        parses, parse = uf('int_parses', S, B), uf('int_parse', S, I)
        t = v.t
        rest = z3.SubString(t, 1, z3.Length(t) - 1)
        trust(interp, 'A-INTPARSE: int(s) of an ASCII digit string (optionally signed) is its decimal value '
                      '(SMT str.to_int)')
        interp.ex.add_axiom(z3.Implies(z3.StrToInt(t) >= 0, z3.And(parses(t), parse(t) == z3.StrToInt(t))))
        interp.ex.add_axiom(z3.Implies(z3.And(z3.PrefixOf(z3.StringVal('-'), t), z3.StrToInt(rest) >= 0),
                                       z3.And(parses(t), parse(t) == -z3.StrToInt(rest))))
        if interp.ex.branch(parses(t)):
            return mk_int(parse(t))
        interp.raise_exc('ValueError', 'invalid literal for int()', node)
    if isinstance(v, (int, float, str)):
        try:
            return int(v)
        except ValueError as e:
            interp.raise_exc('ValueError', str(e), node)
        except OverflowError as e:
            interp.raise_exc('OverflowError', str(e), node)
    if isinstance(v, sym.SComplex) or v is None or isinstance(v, (tuple, list)):
        interp.raise_exc('TypeError', 'int() argument must be a string or a number', node)
    raise Unsupported(f'int() of {type(v).__name__}', node)


RADIX_NAME = {2: 'bin', 8: 'oct', 16: 'hex'}


def digits_uf(base):
    """DIG_b(n): upper-case digit string of n >= 0 in base b (uninterpreted)."""
    return uf(f'DIG{base}', I, S)


def parse_uf(base):
    return uf(f'PARSE{base}', S, I), uf(f'PARSES{base}', S, B)


def radix_facts(interp, n, base):
    """Ground instances of A-RADIXSTR for the term DIG_b(n), n >= 0."""
    trust(interp, 'A-RADIXSTR: bin/oct/hex(n)[2:].upper() = DIG_b(n); len(DIG_b(n)) <= k <=> n < b^k (k=1..11); '
                  'int(DIG_b(n), b) = n; int(s, b) raises ValueError exactly outside the alphabet (PARSES_b)')
    d = digits_uf(base)(n)
    parse, parses = parse_uf(base)
    ex = interp.ex
    alphabet = {2: '01', 8: '01234567', 16: '0123456789ABCDEF'}[base]
    facts = [z3.Length(d) >= 1, parses(d), parse(d) == n, z3.InRe(d, z3.Plus(charset_re(alphabet)))]
    for k in range(1, 12):
        facts.append((z3.Length(d) <= k) == (n < base ** k))
    ex.add_axiom(z3.Implies(n >= 0, z3.And(*facts)))
    return d


def b_radix(base):
    def impl(interp, args, kwargs, node):
        v = args[0]
        if isinstance(v, int) and not isinstance(v, SV):
            return {2: bin, 8: oct, 16: hex}[base](v)
        if not isinstance(v, (SInt, SBool)):
            interp.raise_exc('TypeError', 'object cannot be interpreted as an integer', node)
        t = as_int_term(v)
        # result = sign ++ prefix ++ lower(DIG(|n|))
        a = z3.If(t >= 0, t, -t)
        d = radix_facts(interp, a, base)
        low = uf('str_lower', S, S)(d)
        interp.ex.add_axiom(uf('str_upper', S, S)(low) == d)
        interp.ex.add_axiom(z3.Length(low) == z3.Length(d))
        prefix = {2: '0b', 8: '0o', 16: '0x'}[base]
        if interp.ex.branch(t >= 0):
            return mk_str(z3.Concat(z3.StringVal(prefix), low))
        return mk_str(z3.Concat(z3.StringVal('-' + prefix), low))
    return impl


def int_base(interp, v, base, node):
    if not isinstance(base, int):
        raise Unsupported('int(s, symbolic base)', node)
    if not isinstance(v, (SStr, str)):
        interp.raise_exc('TypeError', "int() can't convert non-string with explicit base", node)
    if isinstance(v, str):
        try:
            return int(v, base)
        except ValueError as e:
            interp.raise_exc('ValueError', str(e), node)
    parse, parses = parse_uf(base)
    trust(interp, 'A-RADIXSTR: int(s, b) = PARSE_b(s) when PARSES_b(s), else ValueError; '
                  'strings over the digit alphabet parse (non-empty) to 0 <= PARSE_b(s) < b^len(s); other strings may or may not parse')
    alphabet = {2: '01', 8: '01234567', 16: '0123456789ABCDEFabcdef'}.get(base)
    if alphabet:
        cs = charset_re(alphabet)
        interp.ex.add_axiom(z3.Implies(z3.InRe(v.t, z3.Plus(cs)), parses(v.t)))
        interp.ex.add_axiom(z3.Implies(z3.Length(v.t) == 0, z3.Not(parses(v.t))))
        interp.ex.add_axiom(z3.Implies(z3.And(z3.InRe(v.t, z3.Star(cs)), parses(v.t)), parse(v.t) >= 0))
    if interp.ex.branch(parses(v.t)):
        r = parse(v.t)
        # digit strings of length <= k denote values < b^k unless signed: Python also
        # accepts a sign, whitespace and underscores; a negative value needs a '-'.
        for k in range(1, 12):
            interp.ex.add_axiom(z3.Implies(z3.Length(v.t) <= k, z3.And(r < base ** k, r > -(base ** k))))
        return mk_int(r)
    interp.raise_exc('ValueError', 'invalid literal for int() with base', node)


def b_float(interp, args, kwargs, node):
    if not args:
        return 0.0
    v = args[0]
    if isinstance(v, SFloat):
        return v
    if isinstance(v, (SInt, SBool)):
        trust(interp, 'A-FLOAT: float(int) is exact (no OverflowError below 1.8e308 is modelled)')
        return mk_float(as_real_term(v))
    if isinstance(v, SStr):
        trust(interp, 'A-STRNUM: float(s) is an uninterpreted partial parse (float_parses/float_parse)')
        if interp.ex.branch(uf('float_parses', S, B)(v.t)):
            return mk_float(uf('float_parse', S, R)(v.t))
        interp.raise_exc('ValueError', 'could not convert string to float', node)
    if isinstance(v, (int, float, str)):
        try:
            f = float(v)
        except ValueError as e:
            interp.raise_exc('ValueError', str(e), node)
        except OverflowError as e:
            interp.raise_exc('OverflowError', str(e), node)
        if f != f or f in (math.inf, -math.inf):
            raise Unsupported('nan/inf float', node)
        return f
    if v is None or isinstance(v, (tuple, list, sym.SComplex)):
        interp.raise_exc('TypeError', 'float() argument must be a string or a number', node)
    from .interp import SObj
    if isinstance(v, SObj):
        interp.raise_exc('TypeError', 'float() argument must be a string or a number', node)
    from . import heap
    r = heap.try_float(interp, v, node)
    if r is not heap.NOPE:
        return r
    raise Unsupported(f'float() of {type(v).__name__}', node)


def x_fraction(interp, args, kwargs, node):
    """fractions.Fraction(x) for an int, or for repr(float): the exact rational of the number as written - in the
    real-number model of floats (A-FLOAT, A-REPR) the number itself"""
    if len(args) != 1:
        raise Unsupported('Fraction(numerator, denominator)', node)
    v = args[0]
    if isinstance(v, (SInt, int)) and not isinstance(v, (SBool, bool)):
        return v
    if isinstance(v, (SBool, bool)):
        return mk_int(z3.If(v.t, z3.IntVal(1), z3.IntVal(0))) if isinstance(v, SBool) else int(v)
    if isinstance(v, SStr):
        t = v.t
        if z3.is_app(t) and t.decl().name() in ('float_repr', 'float_str'):
            trust(interp, 'A-REPR: Fraction(repr(x)) is the exact value of the shortest rendering of x; x itself in the '
                          'real-number model of floats')
            return mk_float(t.arg(0))
        if z3.is_app(t) and t.decl().name() == 'int_repr':
            return mk_int(t.arg(0))
        raise Unsupported('Fraction of a symbolic string that is not repr(number)', node)
    if isinstance(v, (SFloat, float)):
        trust(interp, 'A-FLOAT: Fraction(float) is the exact binary value; the float itself in the real-number model')
        return v
    if isinstance(v, str):
        import fractions
        f = fractions.Fraction(v)
        return int(f) if f.denominator == 1 else float(f)
    raise Unsupported(f'Fraction of {type(v).__name__}', node)


def b_isfinite(interp, args, kwargs, node):
    v = args[0]
    if isinstance(v, (SFloat, SInt, SBool)):
        trust(interp, 'A-FLOAT: a symbolic float is a real number (finite): overflow to inf / nan is not modelled')
        return True
    if isinstance(v, (int, float)):
        return math.isfinite(v)
    interp.raise_exc('TypeError', 'must be real number', node)


def b_bool(interp, args, kwargs, node):
    if not args:
        return False
    v = args[0]
    if isinstance(v, SBool):
        return v
    if isinstance(v, SInt):
        return mk_bool(v.t != 0)
    if isinstance(v, SFloat):
        return mk_bool(v.t != 0)
    if isinstance(v, SStr):
        return mk_bool(z3.Length(v.t) > 0)
    return interp.truth(v)


def b_len(interp, args, kwargs, node):
    v = args[0]
    from .interp import SObj, LazyGen, SymSet
    from .seqs import SSeq
    if isinstance(v, SStr):
        return mk_int(z3.Length(v.t))
    if isinstance(v, SSeq):
        return v.length()
    if isinstance(v, (str, tuple, list, dict, set, frozenset, range)):
        return len(v)
    if isinstance(v, SymSet):
        raise Unsupported('len of symbolic set', node)
    if isinstance(v, SObj):
        if v.cls.ntfields is not None:
            return len(v.cls.ntfields)
        interp.raise_exc('TypeError', 'object has no len()', node)
    if isinstance(v, LazyGen) or v is None or isinstance(v, (SInt, SFloat, SBool, int, float)):
        interp.raise_exc('TypeError', f'object of type {type(v).__name__} has no len()', node)
    from . import heap
    r = heap.try_len(interp, v, node)
    if r is not heap.NOPE:
        return r
    raise Unsupported(f'len of {type(v).__name__}', node)


def b_abs(interp, args, kwargs, node):
    v = args[0]
    if isinstance(v, SFloat):
        return mk_float(z3.If(v.t >= 0, v.t, -v.t))
    if isinstance(v, (SInt, SBool)):
        t = as_int_term(v)
        return mk_int(z3.If(t >= 0, t, -t))
    if isinstance(v, (int, float)):
        return abs(v)
    interp.raise_exc('TypeError', 'bad operand type for abs()', node)


def _minmax(is_min):
    def impl(interp, args, kwargs, node):
        from .seqs import SSeq
        default = kwargs.get('default', NOARG)
        if 'key' in kwargs:
            raise Unsupported('min/max with key', node)
        if len(args) == 1 and as_pipe(args[0]) is not None:
            from .pipes import agg
            return agg(interp, 'min' if is_min else 'max', as_pipe(args[0]), node,
                       default=(default,) if default is not NOARG else None)
        if len(args) == 1:
            if isinstance(args[0], SSeq):
                return args[0].minmax(interp, is_min, default, node)
            items = interp.iterate(args[0], node)
        else:
            items = list(args)
        if not items:
            if default is not NOARG:
                return default
            interp.raise_exc('ValueError', 'min()/max() arg is an empty sequence', node)
        best = items[0]
        for x in items[1:]:
            # python: min keeps first on ties; max keeps first on ties
            c = interp.compare('lt' if is_min else 'gt', x, best, node)
            if isinstance(c, SBool) and is_numlike(x) and is_numlike(best) and \
                    (is_floatlike(x) == is_floatlike(best)) and \
                    (isinstance(x, (SBool, bool)) == isinstance(best, (SBool, bool))):
                if is_floatlike(x):
                    best = mk_float(z3.If(c.t, as_real_term(x), as_real_term(best)))
                else:
                    best = mk_int(z3.If(c.t, as_int_term(x), as_int_term(best)))
            elif interp.truth(c):
                best = x
        return best
    return impl


class _NoArg:
    def __repr__(self):
        return '<noarg>'


NOARG = _NoArg()


def as_pipe(v):
    """SPipe behind a value (directly or through a generator expression), else None"""
    from .interp import LazyGen
    from .pipes import SPipe
    if isinstance(v, SPipe):
        return v
    if isinstance(v, LazyGen):
        if v._items is None and not hasattr(v, '_pipe'):
            it = v.iterator()
            if isinstance(it, SPipe):
                v._pipe = it
            else:
                from .seqs import SSeq
                from .arrays import SArr
                v._items = it if isinstance(it, (SSeq, SArr)) else list(it)
                v._pipe = None
        return getattr(v, '_pipe', None)
    return None


def b_sum(interp, args, kwargs, node):
    from .pipes import agg
    p_ = as_pipe(args[0])
    if p_ is not None:
        return agg(interp, 'sum', p_, node)
    from .seqs import SSeq
    if isinstance(args[0], SSeq):
        return args[0].sum(interp, args[1] if len(args) > 1 else 0, node)
    from .interp import LazyGen
    if isinstance(args[0], LazyGen):
        r = args[0].iterator()
        if isinstance(r, SSeq):
            return r.sum(interp, args[1] if len(args) > 1 else 0, node)
        items = list(r)
    else:
        items = interp.iterate(args[0], node)
    total = args[1] if len(args) > 1 else kwargs.get('start', 0)
    for x in items:
        total = interp.binop('add', total, x, node)
    return total


def b_any(interp, args, kwargs, node):
    from .interp import LazyGen
    from .seqs import SSeq
    v = args[0]
    if isinstance(v, LazyGen):
        it = v.iterator()
        if isinstance(it, SSeq):
            return it.any_all(interp, True, node)
        for x in it:
            if interp.truth(x):
                return True
        return False
    if isinstance(v, SSeq):
        return v.any_all(interp, True, node)
    for x in interp.iterate(v, node):
        if interp.truth(x):
            return True
    return False


def b_all(interp, args, kwargs, node):
    from .interp import LazyGen
    from .seqs import SSeq
    v = args[0]
    if isinstance(v, LazyGen):
        it = v.iterator()
        if isinstance(it, SSeq):
            return it.any_all(interp, False, node)
        for x in it:
            if not interp.truth(x):
                return False
        return True
    if isinstance(v, SSeq):
        return v.any_all(interp, False, node)
    for x in interp.iterate(v, node):
        if not interp.truth(x):
            return False
    return True


def b_next(interp, args, kwargs, node):
    from .interp import LazyGen
    from .seqs import SSeq
    from .pipes import agg
    v = args[0]
    p_ = as_pipe(v)
    if p_ is not None:
        return agg(interp, 'first', p_, node, default=(args[1],) if len(args) > 1 else None)
    if isinstance(v, LazyGen):
        it = v.iterator()
        if isinstance(it, SSeq):
            return it.first(interp, args[1] if len(args) > 1 else NOARG, node)
        for x in it:
            return x
        if len(args) > 1:
            return args[1]
        interp.raise_exc('StopIteration', '', node)
    if isinstance(v, SSeq):
        return v.first(interp, args[1] if len(args) > 1 else NOARG, node)
    if isinstance(v, ListIter):
        if v.pos < len(v.items):
            v.pos += 1
            return v.items[v.pos - 1]
        if len(args) > 1:
            return args[1]
        interp.raise_exc('StopIteration', '', node)
    raise Unsupported(f'next() on {type(v).__name__}', node)


# string constants of openpyxl.formula.tokenizer.Token (base class of pycel's Token)
EXTERNAL_CLASS_CONSTANTS = {'tokenizer.Token': {
    'LITERAL': 'LITERAL', 'OPERAND': 'OPERAND', 'FUNC': 'FUNC', 'ARRAY': 'ARRAY', 'PAREN': 'PAREN', 'SEP': 'SEP',
    'OP_PRE': 'OPERATOR-PREFIX', 'OP_IN': 'OPERATOR-INFIX', 'OP_POST': 'OPERATOR-POSTFIX', 'WSPACE': 'WHITE-SPACE',
    'TEXT': 'TEXT', 'NUMBER': 'NUMBER', 'LOGICAL': 'LOGICAL', 'ERROR': 'ERROR', 'RANGE': 'RANGE', 'OPEN': 'OPEN',
    'CLOSE': 'CLOSE', 'ARG': 'ARG', 'ROW': 'ROW'}}


class ListIter:
    def __init__(self, items):
        self.items = list(items)
        self.pos = 0


def b_iter(interp, args, kwargs, node):
    return ListIter(interp.iterate(args[0], node))


def b_tuple(interp, args, kwargs, node):
    from .seqs import SSeq
    from .interp import LazyGen
    if not args:
        return ()
    v = args[0]
    from .heapmodel import SAbstractSet, SMemberTableGen, consume_member_table
    if isinstance(v, SAbstractSet):
        return v            # an immutable snapshot already
    if isinstance(v, SMemberTableGen):
        return consume_member_table(interp, v, node)
    p_ = as_pipe(v)
    if p_ is not None:
        return p_
    from .arrays import SArr
    if isinstance(v, SArr):
        return SArr(v.name, v.dims, v.fixed, v.elem, 'tuple', v.arity, v.alts)
    if isinstance(v, LazyGen):
        it0 = v._items if v._items is not None else v.iterator()
        if isinstance(it0, SArr):
            return SArr(it0.name, it0.dims, it0.fixed, it0.elem, 'tuple', it0.arity, it0.alts)
        v._items = it0 if isinstance(it0, SSeq) else list(it0)
        return tuple(v._items) if not isinstance(v._items, SSeq) else v._items
    if isinstance(v, LazyGen):
        it = v.iterator()
        if isinstance(it, SSeq):
            return it
        return tuple(it)
    if isinstance(v, SSeq):
        return v
    return tuple(interp.iterate(v, node))


def b_list(interp, args, kwargs, node):
    from .seqs import SSeq
    from .interp import LazyGen
    if not args:
        return []
    v = args[0]
    if isinstance(v, LazyGen):
        it = v.iterator()
        if isinstance(it, SSeq):
            return it
        return list(it)
    if isinstance(v, SSeq):
        return v
    return list(interp.iterate(v, node))


def b_set(interp, args, kwargs, node):
    from .interp import SymSet, is_native
    if not args:
        return set()
    items = interp.iterate(args[0], node)
    if all(is_native(x) for x in items):
        return set(items)
    return SymSet(items)


def b_frozenset(interp, args, kwargs, node):
    from .interp import SymSet, is_native
    if not args:
        return frozenset()
    items = interp.iterate(args[0], node)
    if all(is_native(x) for x in items):
        return frozenset(items)
    return SymSet(items)


def b_dict(interp, args, kwargs, node):
    d = {}
    if args:
        src = args[0]
        if isinstance(src, dict):
            d.update(src)
        else:
            for kv in interp.iterate(src, node):
                k, v = interp.iterate(kv, node)
                d[k] = v
    d.update(kwargs)
    return d


def b_range(interp, args, kwargs, node):
    from .seqs import SSeq
    if sym.any_sym(*args):
        return SSeq.range(interp, args, node)
    try:
        return range(*args)
    except TypeError as e:
        interp.raise_exc('TypeError', str(e), node)


def b_enumerate(interp, args, kwargs, node):
    from .seqs import SSeq
    from .interp import LazyGen
    start = args[1] if len(args) > 1 else kwargs.get('start', 0)
    v = args[0]
    if isinstance(v, LazyGen):
        it = v.iterator()
        v = it if isinstance(it, SSeq) else list(it)
    from .arrays import SArr
    if isinstance(v, SArr) and not z3.is_int_value(z3.simplify(v.length_term())):
        v = SSeq(v.length_term(), lambda i, idx, a=v: a.at(i, idx), v.kind)
    if isinstance(v, SSeq):
        return v.enumerate(interp, start)
    return [(start + i, x) for i, x in enumerate(interp.iterate(v, node))]


def b_zip(interp, args, kwargs, node):
    lists = [interp.iterate(a, node) for a in args]
    return [tuple(t) for t in zip(*lists)]


def b_map(interp, args, kwargs, node):
    f = args[0]
    lists = [interp.iterate(a, node) for a in args[1:]]
    return [interp.call(f, list(t), {}, node) for t in zip(*lists)]


def b_filter(interp, args, kwargs, node):
    f = args[0]
    out = []
    for x in interp.iterate(args[1], node):
        if interp.truth(x if f is None else interp.call(f, [x], {}, node)):
            out.append(x)
    return out


def b_reversed(interp, args, kwargs, node):
    return list(reversed(interp.iterate(args[0], node)))


def b_sorted(interp, args, kwargs, node):
    items = interp.iterate(args[0], node)
    from .interp import is_native
    if 'key' in kwargs:
        raise Unsupported('sorted with key', node)
    if all(is_native(x) for x in items):
        return sorted(items, reverse=bool(kwargs.get('reverse', False)))
    raise Unsupported('sorted on symbolic values', node)


def b_isinstance(interp, args, kwargs, node):
    v, t = args
    if isinstance(t, tuple):
        rs = [isinstance_one(interp, v, x, node) for x in t]
        if any(r is True for r in rs):
            return True
        terms = [r.t for r in rs if isinstance(r, SBool)]
        if terms:
            return mk_bool(z3.Or(*terms))
        return False
    return isinstance_one(interp, v, t, node)


def isinstance_one(interp, v, t, node):
    from .interp import ClassModel, SObj, Builtin, LazyGen, SymSet, Closure
    from .seqs import SSeq
    from .pipes import SPipe, SNested
    from .arrays import SArr
    if isinstance(v, SArr):
        if isinstance(t, Builtin):
            return t.name in ('tuple', 'list', 'Iterable') and (t.name != 'list' or v.kind == 'list') and \
                (t.name != 'tuple' or v.kind == 'tuple')
        return False
    if isinstance(v, (SPipe, SNested)):
        if isinstance(t, Builtin):
            return t.name in ('tuple', 'Iterable') if isinstance(v, SPipe) else t.name in ('tuple', 'Iterable')
        return False
    if isinstance(v, sym.SOpaque):
        from . import heap
        return heap.isinstance_opaque(interp, v, t, node)
    if isinstance(t, Builtin):
        name = t.name
        if name == 'int':
            return isinstance(v, (SInt, SBool, int))
        if name == 'bool':
            return isinstance(v, (SBool, bool))
        if name == 'float':
            return isinstance(v, (SFloat, float))
        if name == 'str':
            return isinstance(v, (SStr, str))
        if name == 'tuple':
            return isinstance(v, tuple) or (isinstance(v, SSeq) and v.kind == 'tuple') or \
                (isinstance(v, SObj) and v.cls.ntfields is not None)
        if name == 'list':
            return isinstance(v, list) or (isinstance(v, SSeq) and v.kind == 'list')
        if name == 'dict':
            return isinstance(v, dict)
        if name == 'set':
            return isinstance(v, (set, SymSet))
        if name == 'complex':
            return isinstance(v, (sym.SComplex, complex))
        if name == 'ndarray':
            return False          # numpy arrays are outside the modelled value domain
        if name == 'float64':     # numpy scalars are outside the modelled cell values (A-NUMPY)
            return False
        if name == 'Number':      # numbers.Number: bool, int, float, complex (Decimal / Fraction are not cell values)
            return isinstance(v, (SInt, SBool, SFloat, int, float, sym.SComplex, complex))
        if name == 'Iterable':
            return isinstance(v, (SStr, str, tuple, list, dict, set, frozenset, range, SSeq,
                                  LazyGen, SymSet)) or \
                (isinstance(v, SObj) and v.cls.ntfields is not None)
        if name in sym.EXC_PARENTS:
            from .interp import ExcValue
            return isinstance(v, ExcValue) and sym.exc_isinstance(v.exc.typ, name)
        raise Unsupported(f'isinstance(_, {name})', node)
    if isinstance(t, ClassModel):
        if isinstance(v, SObj):
            return t in v.cls.mro()
        return False
    if t is type(None):
        return v is None
    raise Unsupported(f'isinstance with {t!r}', node)


def b_hasattr(interp, args, kwargs, node):
    from .interp import SObj
    obj, name = args
    if isinstance(obj, SObj):
        if name in obj.fields:
            return True
        c, m = obj.cls.find(name)
        if m is None and getattr(obj, 'partial', False):
            raise Unsupported(f"field '{name}' of {obj.cls.name} is not described by the contract's domain", node)
        return m is not None
    from . import heap
    r = heap.try_hasattr(interp, obj, name, node)
    if r is not heap.NOPE:
        return r
    try:
        interp.getattr(obj, name, node)
        return True
    except PyExc as e:
        if e.typ == 'AttributeError':
            return False
        raise


def b_getattr(interp, args, kwargs, node):
    obj, name = args[0], args[1]
    try:
        return interp.getattr(obj, name, node)
    except PyExc as e:
        if e.typ == 'AttributeError' and len(args) > 2:
            return args[2]
        raise


def b_setattr(interp, args, kwargs, node):
    obj, name, value = args
    interp.setattr(obj, name, value, node)


def b_super(interp, args, kwargs, node):
    from .interp import SuperProxy
    if len(args) == 2:
        return SuperProxy(args[0], args[1])
    raise Unsupported('zero-argument super() outside method', node)


def b_round(interp, args, kwargs, node):
    v = args[0]
    nd = args[1] if len(args) > 1 else None
    if not sym.any_sym(v, nd) and isinstance(v, (int, float)):
        return round(v, nd) if nd is not None else round(v)
    trust(interp, 'A-ROUND: built-in round(x, n) rounds the binary value to the nearest multiple of 10^-n, ties to even')
    if nd is None or (isinstance(nd, int) and nd == 0 and False):
        t = as_real_term(v)
        fl = sym.floor_int(interp.ex, t)
        frac = t - z3.ToReal(fl)
        r = z3.If(frac < 0.5, fl, z3.If(frac > 0.5, fl + 1, z3.If(fl % 2 == 0, fl, fl + 1)))
        return mk_int(r)
    if not isinstance(nd, int):
        raise Unsupported('round with symbolic ndigits', node)
    scale = z3.RealVal(10) ** nd if nd >= 0 else None
    t = as_real_term(v)
    if nd >= 0:
        m = z3.RealVal(10 ** nd)
        x = t * m
    else:
        m = z3.RealVal(10 ** (-nd))
        x = t / m
    fl = sym.floor_int(interp.ex, x)
    frac = x - z3.ToReal(fl)
    r = z3.If(frac < 0.5, fl, z3.If(frac > 0.5, fl + 1, z3.If(fl % 2 == 0, fl, fl + 1)))
    if isinstance(v, (SInt, SBool, int)):
        if nd >= 0:
            return v
        return mk_int(r * (10 ** (-nd)))
    if nd >= 0:
        return mk_float(z3.ToReal(r) / m)
    return mk_float(z3.ToReal(r) * m)


def b_divmod(interp, args, kwargs, node):
    a, b = args
    return (interp.binop('floordiv', a, b, node), interp.binop('mod', a, b, node))


def b_pow(interp, args, kwargs, node):
    """Python ** with result type and raise conditions (A-POW)."""
    a, b = args[0], args[1]
    if not sym.any_sym(a, b):
        try:
            r = a ** b
        except ZeroDivisionError as e:
            interp.raise_exc('ZeroDivisionError', str(e), node)
        except OverflowError as e:
            interp.raise_exc('OverflowError', str(e), node)
        if isinstance(r, complex):
            return sym.SComplex(None)
        return r
    ex = interp.ex
    if isinstance(b, int) and not isinstance(b, bool) and 0 <= b <= 8 and not is_floatlike(a):
        t = as_int_term(a)
        out = z3.IntVal(1)
        for _ in range(b):
            out = out * t
        return mk_int(out)
    if isinstance(b, int) and not isinstance(b, bool) and 0 <= b <= 8 and is_floatlike(a):
        t = as_real_term(a)
        out = z3.RealVal(1)
        for _ in range(b):
            out = out * t
        return mk_float(out)
    trust(interp, 'A-POW: a ** b: int**negative int -> float, 0**negative -> ZeroDivisionError, '
                  'negative**non-integral -> complex, float result beyond 1.8e308 -> OverflowError '
                  '(may-raise when |a| > 1 and b > 1), value = uninterpreted pow_real(a, b) otherwise')
    ta, tb = as_real_term(a), as_real_term(b)
    both_int = is_intlike(a) and is_intlike(b)
    # zero base, negative exponent
    if ex.branch(z3.And(ta == 0, tb < 0)):
        interp.raise_exc('ZeroDivisionError', '0 cannot be raised to a negative power', node)
    if both_int:
        ia, ib = as_int_term(a), as_int_term(b)
        if ex.branch(ib >= 0):
            r = uf('pow_int', I, I, I)(ia, ib)
            ex.assume(z3.Implies(ib == 0, r == 1))
            ex.assume(z3.Implies(ib == 1, r == ia))
            ex.assume(z3.Implies(ib == 2, r == ia * ia))
            return mk_int(r)
        return mk_float(uf('pow_real', R, R, R)(ta, tb))
    # float involved
    is_integral = (z3.ToReal(sym.floor_int(ex, tb)) == tb)
    if ex.branch(z3.And(ta < 0, z3.Not(is_integral))):
        return sym.SComplex(None)
    may_overflow = z3.And(z3.Or(ta > 1, ta < -1), tb > 1)
    if ex.branch(may_overflow):
        if ex.branch(uf('pow_overflows', R, R, B)(ta, tb)):
            interp.raise_exc('OverflowError', '(34, Numerical result out of range)', node)
    return mk_float(uf('pow_real', R, R, R)(ta, tb))


def b_callable(interp, args, kwargs, node):
    from .interp import Closure, Builtin, BoundMethod, Partial, ClassModel
    return isinstance(args[0], (Closure, Builtin, BoundMethod, Partial, ClassModel))


def b_type(interp, args, kwargs, node):
    from .interp import SObj
    v = args[0]
    if isinstance(v, SObj):
        return v.cls
    if isinstance(v, sym.SOpaque):
        from .heapmodel import STypeTag, VTYPE, to_v
        return STypeTag(VTYPE(to_v(interp, v)))
    names = {'bool': (SBool, bool), 'int': (SInt, int), 'float': (SFloat, float), 'str': (SStr, str)}
    for nm in ('bool', 'int', 'float', 'str'):
        if isinstance(v, names[nm]):
            return interp.world.builtins[nm]
    if v is None:
        return type(None)
    if isinstance(v, tuple):
        return interp.world.builtins['tuple']
    raise Unsupported('type() of this value', node)


def b_id(interp, args, kwargs, node):
    return id(args[0])


def b_repr(interp, args, kwargs, node):
    v = args[0]
    if isinstance(v, SFloat):
        trust(interp, 'A-REPR: repr(float) is its shortest round-tripping decimal; modelled as the '
                      'uninterpreted rendering float_repr(x) whose Decimal value is x')
        return mk_str(uf('float_repr', R, S)(v.t))
    if isinstance(v, (SInt,)):
        return mk_str(uf('int_repr', I, S)(v.t))
    if not isinstance(v, SV):
        return repr(v)
    raise Unsupported('repr of symbolic', node)


def b_partial(interp, args, kwargs, node):
    from .interp import Partial
    return Partial(args[0], list(args[1:]), dict(kwargs))


def b_chr(interp, args, kwargs, node):
    if isinstance(args[0], int):
        return chr(args[0])
    raise Unsupported('chr of symbolic', node)


def b_ord(interp, args, kwargs, node):
    if isinstance(args[0], str):
        return ord(args[0])
    raise Unsupported('ord of symbolic', node)


def b_floor(interp, args, kwargs, node):
    v = args[0]
    if isinstance(v, SFloat):
        trust(interp, 'A-FLOAT: math.floor/ceil exact on the real value')
        return mk_int(sym.floor_int(interp.ex, v.t))
    if isinstance(v, (SInt, SBool)):
        return mk_int(as_int_term(v))
    if isinstance(v, (int, float)):
        return math.floor(v)
    interp.raise_exc('TypeError', 'must be real number', node)


def b_ceil(interp, args, kwargs, node):
    v = args[0]
    if isinstance(v, SFloat):
        trust(interp, 'A-FLOAT: math.floor/ceil exact on the real value')
        return mk_int(-sym.floor_int(interp.ex, -v.t))
    if isinstance(v, (SInt, SBool)):
        return mk_int(as_int_term(v))
    if isinstance(v, (int, float)):
        return math.ceil(v)
    interp.raise_exc('TypeError', 'must be real number', node)


def b_trunc(interp, args, kwargs, node):
    return b_int(interp, args, kwargs, node)


def b_copysign(interp, args, kwargs, node):
    a, b = args
    ta, tb = as_real_term(a), as_real_term(b)
    trust(interp, 'A-FLOAT: copysign on reals (no signed zero)')
    absa = z3.If(ta >= 0, ta, -ta)
    return mk_float(z3.If(tb >= 0, absa, -absa))


def b_isclose(interp, args, kwargs, node):
    a, b = args[0], args[1]
    rel = kwargs.get('rel_tol', 1e-9)
    abs_tol = kwargs.get('abs_tol', 0.0)
    trust(interp, 'A-ISCLOSE: math.isclose(a,b) = |a-b| <= max(rel_tol*max(|a|,|b|), abs_tol) on reals')
    ta, tb = as_real_term(a), as_real_term(b)
    tr, tt = as_real_term(rel), as_real_term(abs_tol)

    def ab(x):
        return z3.If(x >= 0, x, -x)
    mx = z3.If(ab(ta) >= ab(tb), ab(ta), ab(tb))
    bound = z3.If(tr * mx >= tt, tr * mx, tt)
    return mk_bool(ab(ta - tb) <= bound)


# ---------------------------------------------------------------------------
# methods of strings / lists / dicts / tuples
# ---------------------------------------------------------------------------

def value_getattr(interp, obj, name, node):
    from .interp import Builtin, ExcValue, SymSet, LazyGen
    from .seqs import SSeq
    if isinstance(obj, (SStr, str)):
        if name in STR_METHODS:
            return Builtin(f'str.{name}', lambda i, a, k, n, _m=STR_METHODS[name]: _m(i, obj, a, k, n))
        raise Unsupported(f'str method {name}', node)
    if isinstance(obj, list):
        if name in LIST_METHODS:
            return Builtin(f'list.{name}', lambda i, a, k, n, _m=LIST_METHODS[name]: _m(i, obj, a, k, n))
        raise Unsupported(f'list method {name}', node)
    if isinstance(obj, dict):
        if name in DICT_METHODS:
            return Builtin(f'dict.{name}', lambda i, a, k, n, _m=DICT_METHODS[name]: _m(i, obj, a, k, n))
        raise Unsupported(f'dict method {name}', node)
    if isinstance(obj, (set, SymSet)):
        if name == 'add':
            def add(i, a, k, n):
                if isinstance(obj, set) and not isinstance(a[0], SV):
                    obj.add(a[0])
                else:
                    raise Unsupported('set.add symbolic', n)
            return Builtin('set.add', add)
        if name == 'clear' and isinstance(obj, set):
            return Builtin('set.clear', lambda i, a, k, n: obj.clear())
        raise Unsupported(f'set method {name}', node)
    if isinstance(obj, tuple):
        if name == 'index' or name == 'count':
            raise Unsupported(f'tuple.{name}', node)
    if isinstance(obj, SSeq):
        return obj.getattr(interp, name, node)
    if isinstance(obj, ExcValue):
        if name == 'args':
            return (mk_str(z3.String(interp.ex.fresh_name('excmsg'))),)
    if isinstance(obj, (SInt, SFloat, SBool, int, float)) or obj is None:
        if name in ('real',) and obj is not None:
            return obj
        if name == 'is_integer' and isinstance(obj, (SFloat, float)):
            t = as_real_term(obj)
            return Builtin('float.is_integer', lambda i, a, k, n: mk_bool(z3.ToReal(sym.floor_int(i.ex, t)) == t))
        interp.raise_exc('AttributeError',
                         f"'{pytype_name(obj)}' object has no attribute '{name}'", node)
    if isinstance(obj, sym.SComplex):
        interp.raise_exc('AttributeError', f"'complex' object has no attribute '{name}'", node)
    if isinstance(obj, tuple):
        interp.raise_exc('AttributeError', f"'tuple' object has no attribute '{name}'", node)
    from . import heap
    r = heap.try_getattr(interp, obj, name, node)
    if r is not heap.NOPE:
        return r
    if isinstance(obj, TokenizerConsts) and hasattr(obj, name):
        return getattr(obj, name)
    raise Unsupported(f'attribute {name} of {type(obj).__name__}', node)


def pytype_name(v):
    if v is None:
        return 'NoneType'
    if isinstance(v, (SBool, bool)):
        return 'bool'
    if isinstance(v, (SInt, int)):
        return 'int'
    if isinstance(v, (SFloat, float)):
        return 'float'
    if isinstance(v, (SStr, str)):
        return 'str'
    return type(v).__name__


def case_facts(interp, t):
    """Ground facts for str_upper/str_lower of term t (A-CASE)."""
    trust(interp, 'A-CASE: str.upper/lower are uninterpreted (str_upper/str_lower) with idempotence, '
                  'lower(upper(lower(s)))=lower(s), and the identity on the Excel error codes and "TRUE"/"FALSE" images')
    up, lo = uf('str_upper', S, S), uf('str_lower', S, S)
    ex = interp.ex
    ex.add_axiom(up(up(t)) == up(t))
    ex.add_axiom(lo(lo(t)) == lo(t))
    ex.add_axiom(lo(up(t)) == lo(t))
    ex.add_axiom(up(lo(t)) == up(t))
    ex.add_axiom((z3.Length(t) == 0) == (z3.Length(lo(t)) == 0))
    ex.add_axiom((z3.Length(t) == 0) == (z3.Length(up(t)) == 0))
    # single ASCII characters: exact mapping
    chain_u, chain_l = t, t
    for k in range(25, -1, -1):
        a, A = chr(97 + k), chr(65 + k)
        chain_u = z3.If(t == z3.StringVal(a), z3.StringVal(A), chain_u)
        chain_l = z3.If(t == z3.StringVal(A), z3.StringVal(a), chain_l)
    ascii1 = z3.InRe(t, z3.Range(' ', '~'))
    ex.add_axiom(z3.Implies(ascii1, z3.And(up(t) == chain_u, lo(t) == chain_l)))


def _case_map(interp, t, ufname, pyfn):
    """apply a case mapping; constants (also under if-then-else) are mapped concretely"""
    t = z3.simplify(t)
    if z3.is_string_value(t):
        return z3.StringVal(pyfn(t.as_string()))
    if z3.is_app(t) and t.decl().kind() == z3.Z3_OP_ITE:
        return z3.If(t.arg(0), _case_map(interp, t.arg(1), ufname, pyfn), _case_map(interp, t.arg(2), ufname, pyfn))
    case_facts(interp, t)
    return uf(ufname, S, S)(t)


def s_upper(interp, s, args, kwargs, node):
    if isinstance(s, str):
        return s.upper()
    return mk_str(_case_map(interp, s.t, 'str_upper', str.upper))


def s_lower(interp, s, args, kwargs, node):
    if isinstance(s, str):
        return s.lower()
    return mk_str(_case_map(interp, s.t, 'str_lower', str.lower))


def s_startswith(interp, s, args, kwargs, node):
    p = args[0]
    if isinstance(p, tuple):
        return interp.wrap_bool(interp._or([_b(s_startswith(interp, s, [x], {}, node)) for x in p]))
    if not sym.any_sym(s, p):
        return s.startswith(p)
    return mk_bool(z3.PrefixOf(str_term(p), str_term(s)))


def s_endswith(interp, s, args, kwargs, node):
    p = args[0]
    if isinstance(p, tuple):
        return interp.wrap_bool(interp._or([_b(s_endswith(interp, s, [x], {}, node)) for x in p]))
    if not sym.any_sym(s, p):
        return s.endswith(p)
    return mk_bool(z3.SuffixOf(str_term(p), str_term(s)))


def _b(v):
    return v.t if isinstance(v, SBool) else v


def s_replace(interp, s, args, kwargs, node):
    old, new = args[0], args[1]
    if not sym.any_sym(s, old, new) and len(args) == 2:
        return s.replace(old, new)
    if len(args) > 2:
        cnt = args[2]
        if isinstance(cnt, int) and cnt == 1:
            trust(interp, 'A-STRREPLACE: str.replace(old,new,1) = SMT str.replace (first occurrence)')
            if isinstance(old, str) and old == '':
                raise Unsupported('replace of empty pattern', node)
            if not isinstance(old, str):
                if interp.ex.branch(z3.Length(str_term(old)) == 0):
                    return mk_str(z3.Concat(str_term(new), str_term(s)))
            return mk_str(z3.Replace(str_term(s), str_term(old), str_term(new)))
        raise Unsupported('str.replace with count', node)
    trust(interp, 'A-STRREPLACE: str.replace(old,new) = SMT str.replace_all for non-empty old')
    if isinstance(old, str):
        if old == '':
            raise Unsupported('replace of empty pattern', node)
    else:
        if interp.ex.branch(z3.Length(str_term(old)) == 0):
            raise Unsupported('replace of empty symbolic pattern', node)
    ra = z3.Function('str.replace_all', S, S, S, S) if False else None
    return mk_str(replace_all(str_term(s), str_term(old), str_term(new)))


def replace_all(s, old, new):
    # z3 python API lacks ReplaceAll in some versions: build through the
    # smt-lib name via a declared function understood by the parser.
    try:
        return z3.SeqRef(z3.Z3_mk_seq_replace_all(s.ctx_ref(), s.as_ast(), old.as_ast(), new.as_ast()), s.ctx)
    except AttributeError:
        raise Unsupported('z3 build without seq.replace_all')


def s_find(interp, s, args, kwargs, node):
    sub = args[0]
    start = args[1] if len(args) > 1 else 0
    if not sym.any_sym(s, sub, start):
        return s.find(sub, start)
    trust(interp, 'A-STRFIND: str.find(sub, start) = SMT str.indexof (first occurrence at or after start, -1 if none)')
    st = str_term(s)
    it = as_int_term(start)
    n = z3.Length(st)
    pos = z3.If(it < 0, z3.If(it + n < 0, z3.IntVal(0), it + n), it)
    # python: start > len -> -1 (even for empty sub)
    r = z3.If(pos > n, z3.IntVal(-1), z3.IndexOf(st, str_term(sub), pos))
    return mk_int(r)


def s_zfill(interp, s, args, kwargs, node):
    w = args[0]
    if not sym.any_sym(s, w):
        return s.zfill(w)
    trust(interp, 'A-ZFILL: s.zfill(w) left-pads a sign-less string with zeros to width w')
    st = str_term(s)
    wt = as_int_term(w)
    n = z3.Length(st)
    pad = uf('zeros', I, S)
    k = z3.If(wt > n, wt - n, z3.IntVal(0))
    interp.ex.add_axiom(z3.And(z3.Length(pad(k)) == k, z3.InRe(pad(k), z3.Star(z3.Re(z3.StringVal('0'))))))
    signed = z3.Or(z3.PrefixOf(z3.StringVal('-'), st), z3.PrefixOf(z3.StringVal('+'), st))
    # zero padding does not change the parsed value in any base; a signed string is
    # padded after its sign (left uninterpreted: zfill_signed)
    res = z3.If(signed, uf('zfill_signed', S, I, S)(st, wt), z3.Concat(pad(k), st))
    for base in (2, 8, 16):
        parse, parses = parse_uf(base)
        cs = charset_re({2: '01', 8: '01234567', 16: '0123456789ABCDEFabcdef'}[base])
        interp.ex.add_axiom(z3.Implies(z3.InRe(st, z3.Plus(cs)),
                                       z3.And(parses(res), parses(st), parse(res) == parse(st))))
    return mk_str(res)


def charset_re(chars):
    return z3.Union(*[z3.Re(z3.StringVal(c)) for c in chars]) if len(chars) > 1 else z3.Re(z3.StringVal(chars))


def s_strip(interp, s, args, kwargs, node):
    if not sym.any_sym(s, *args):
        return s.strip(*args)
    if args and isinstance(args[0], str) and args[0]:
        chars = args[0]
        trust(interp, 'A-STRIP: s.strip(chars) is a substring of s that is empty exactly when every '
                      'character of s is in chars')
        st = str_term(s)
        key = ''.join(f'{ord(c):02x}' for c in chars)
        r = uf('strip_' + key, S, S)(st)
        lead = uf('strip_lead_' + key, S, S)(st)
        trail = uf('strip_trail_' + key, S, S)(st)
        cs = charset_re(chars)
        first = z3.SubString(r, 0, 1)
        last = z3.SubString(r, z3.Length(r) - 1, 1)
        interp.ex.add_axiom(z3.And(
            (z3.Length(r) == 0) == z3.InRe(st, z3.Star(cs)),
            st == z3.Concat(lead, r, trail),
            z3.InRe(lead, z3.Star(cs)), z3.InRe(trail, z3.Star(cs)),
            z3.Implies(z3.Length(r) > 0, z3.And(z3.Not(z3.InRe(first, cs)), z3.Not(z3.InRe(last, cs)))),
            z3.Implies(z3.And(z3.Not(z3.InRe(z3.SubString(st, 0, 1), cs)),
                              z3.Not(z3.InRe(z3.SubString(st, z3.Length(st) - 1, 1), cs))), r == st)))
        return mk_str(r)
    raise Unsupported('str.strip symbolic', node)


def s_lstrip(interp, s, args, kwargs, node):
    if not sym.any_sym(s, *args):
        return s.lstrip(*args)
    if args and isinstance(args[0], str) and args[0]:
        chars = args[0]
        trust(interp, 'A-LSTRIP: s.lstrip(chars) is the suffix of s left after removing its longest prefix made of chars')
        st = str_term(s)
        key = ''.join(f'{ord(c):02x}' for c in chars)
        r = uf('lstrip_' + key, S, S)(st)
        lead = uf('lstrip_lead_' + key, S, S)(st)
        cs = charset_re(chars)
        interp.ex.add_axiom(z3.And(
            st == z3.Concat(lead, r), z3.InRe(lead, z3.Star(cs)),
            z3.Implies(z3.Length(r) > 0, z3.Not(z3.InRe(z3.SubString(r, 0, 1), cs)))))
        return mk_str(r)
    raise Unsupported('str.lstrip symbolic', node)


def s_join(interp, s, args, kwargs, node):
    items = interp.iterate(args[0], node)
    for x in items:
        if not is_strlike(x):
            interp.raise_exc('TypeError', 'sequence item: expected str instance', node)
    if not sym.any_sym(s, *items):
        return s.join(items)
    t = None
    for i, x in enumerate(items):
        if i:
            t = z3.Concat(t, str_term(s))
        t = str_term(x) if t is None else z3.Concat(t, str_term(x))
    return mk_str(t) if t is not None else ''


def s_split(interp, s, args, kwargs, node):
    if not sym.any_sym(s, *args) and not sym.any_sym(*kwargs.values()):
        return s.split(*args, **kwargs)
    sep = args[0] if args else None
    maxsplit = kwargs.get('maxsplit', args[1] if len(args) > 1 else -1)
    if isinstance(sep, str) and sep and maxsplit == 1:
        st = str_term(s)
        i = z3.IndexOf(st, z3.StringVal(sep), 0)
        if interp.ex.branch(i < 0):
            return [s]
        return [mk_str(z3.SubString(st, 0, i)),
                mk_str(z3.SubString(st, i + len(sep), z3.Length(st) - i - len(sep)))]
    raise Unsupported('str.split symbolic', node)


def s_format(interp, s, args, kwargs, node):
    if not isinstance(s, str):
        raise Unsupported('symbolic format string', node)
    import re
    parts = re.split(r'(\{\d*\})', s)
    out = []
    auto = 0
    for p in parts:
        m = re.fullmatch(r'\{(\d*)\}', p)
        if m:
            idx = int(m.group(1)) if m.group(1) else auto
            auto += 1
            out.append(interp.to_str(args[idx], node))
        elif p:
            if '{' in p or '}' in p:
                raise Unsupported('format spec', node)
            out.append(p)
    if all(isinstance(x, str) for x in out):
        return ''.join(out)
    t = None
    for x in out:
        t = str_term(x) if t is None else z3.Concat(t, str_term(x))
    return mk_str(t)


def s_isdigit(interp, s, args, kwargs, node):
    if isinstance(s, str):
        return s.isdigit()
    raise Unsupported('isdigit symbolic', node)


def s_count(interp, s, args, kwargs, node):
    if not sym.any_sym(s, *args):
        return s.count(*args)
    raise Unsupported('str.count symbolic', node)


STR_METHODS = {'upper': s_upper, 'lower': s_lower, 'startswith': s_startswith,
               'endswith': s_endswith, 'replace': s_replace, 'find': s_find,
               'zfill': s_zfill, 'strip': s_strip, 'lstrip': s_lstrip, 'join': s_join, 'split': s_split,
               'format': s_format, 'isdigit': s_isdigit, 'count': s_count}


def l_append(interp, lst, args, kwargs, node):
    lst.append(args[0])


def l_pop(interp, lst, args, kwargs, node):
    if not lst:
        interp.raise_exc('IndexError', 'pop from empty list', node)
    if args:
        if isinstance(args[0], SV):
            raise Unsupported('list.pop symbolic index', node)
        try:
            return lst.pop(args[0])
        except IndexError:
            interp.raise_exc('IndexError', 'pop index out of range', node)
    return lst.pop()


def l_extend(interp, lst, args, kwargs, node):
    lst.extend(interp.iterate(args[0], node))


def l_insert(interp, lst, args, kwargs, node):
    if isinstance(args[0], SV):
        raise Unsupported('list.insert symbolic index', node)
    lst.insert(args[0], args[1])


def l_clear(interp, lst, args, kwargs, node):
    lst.clear()


LIST_METHODS = {'append': l_append, 'pop': l_pop, 'extend': l_extend, 'insert': l_insert,
                'clear': l_clear}


def d_get(interp, d, args, kwargs, node):
    k = args[0]
    default = args[1] if len(args) > 1 else None
    if isinstance(k, SV):
        for kk in d:
            t = interp.eq_term(k, kk)
            if (interp.ex.branch(t) if not isinstance(t, bool) else t):
                return d[kk]
        return default
    return d.get(k, default)


def d_items(interp, d, args, kwargs, node):
    return [(k, v) for k, v in d.items()]


def d_keys(interp, d, args, kwargs, node):
    return list(d.keys())


def d_values(interp, d, args, kwargs, node):
    return list(d.values())


def d_update(interp, d, args, kwargs, node):
    if args:
        d.update(args[0])
    d.update(kwargs)


def d_pop(interp, d, args, kwargs, node):
    k = args[0]
    if isinstance(k, SV):
        raise Unsupported('dict.pop symbolic', node)
    if k in d:
        return d.pop(k)
    if len(args) > 1:
        return args[1]
    interp.raise_exc('KeyError', repr(k), node)


def d_setdefault(interp, d, args, kwargs, node):
    k = args[0]
    if isinstance(k, SV):
        raise Unsupported('dict.setdefault symbolic', node)
    return d.setdefault(k, args[1] if len(args) > 1 else None)


DICT_METHODS = {'get': d_get, 'items': d_items, 'keys': d_keys, 'values': d_values,
                'update': d_update, 'pop': d_pop, 'setdefault': d_setdefault}


def nt_tuple_cmp(name, target):
    """super().__lt__ etc. of a namedtuple subclass = tuple comparison."""
    op = name.strip('_')

    def impl(interp, args, kwargs, node):
        from .interp import SObj
        other = args[0]
        a = list(target.nt_items())
        if isinstance(other, SObj) and other.cls.ntfields is not None:
            b = list(other.nt_items())
        elif isinstance(other, tuple):
            b = list(other)
        else:
            raise Unsupported('tuple comparison with non-tuple', node)
        interp.world.trusted.add('A-TUPLECMP: namedtuple rich comparison is lexicographic tuple comparison')
        if op in ('eq', 'ne'):
            return interp.compare(op, tuple(a), tuple(b), node)
        return interp.lex_compare(op, a, b, node)
    return impl


# ---------------------------------------------------------------------------
# external library functions (openpyxl etc.)
# ---------------------------------------------------------------------------

def x_get_column_letter(interp, args, kwargs, node):
    v = args[0]
    trust(interp, 'A-COLLETTER: openpyxl get_column_letter(c) for 1<=c<=18278 is an injective, '
                  'non-empty rendering COL(c) over A-Z; raises ValueError outside')
    if isinstance(v, int):
        if not 1 <= v <= 18278:
            interp.raise_exc('ValueError', 'Invalid column index', node)
    t = as_int_term(v)
    in_range = z3.And(t >= 1, t <= 18278)
    vr = getattr(interp.world, 'verifier', None)
    if not (vr is not None and vr.in_spec):
        # (inside a spec function the rendering is used as a total function)
        if interp.ex.branch(z3.Not(in_range)):
            interp.raise_exc('ValueError', 'Invalid column index', node)
    col = uf('COL', I, S)
    inv = uf('COLINV', S, I)
    interp.ex.add_axiom(z3.Implies(in_range, z3.And(inv(col(t)) == t, z3.Length(col(t)) >= 1,
                                                    z3.Length(col(t)) <= 3,
                                                    z3.InRe(col(t), z3.Plus(z3.Range('A', 'Z'))))))
    return mk_str(col(t))


def x_quote_sheetname(interp, args, kwargs, node):
    v = args[0]
    trust(interp, "A-QUOTESHEET: openpyxl quote_sheetname(s) = \"'\" + s.replace(\"'\", \"''\") + \"'\"")
    if isinstance(v, str):
        return "'{0}'".format(v.replace("'", "''"))
    return mk_str(z3.Concat(z3.StringVal("'"),
                            replace_all(str_term(v), z3.StringVal("'"), z3.StringVal("''")),
                            z3.StringVal("'")))


def x_namedtuple(interp, args, kwargs, node):
    import ast as _ast
    from .interp import ClassModel
    name, fields = args[0], args[1]
    if isinstance(fields, str):
        fields = fields.replace(',', ' ').split()
    src = f"class {name}(collections.namedtuple({name!r}, {' '.join(fields)!r})):\n    pass\n"
    cnode = _ast.parse(src).body[0]
    mod = interp.world.module('pycel.excelutil')
    return ClassModel(cnode, mod)


def make_externals(world):
    from .interp import Builtin, ExternalModule
    ext = {}

    def reg(key, impl):
        ext[key] = Builtin(key, impl)

    def x_import_module(interp, args, kwargs, node):
        from .interp import ExternalModule
        return ExternalModule(args[0] if isinstance(args[0], str) else 'module')

    def x_get_logger(interp, args, kwargs, node):
        from .records import SAnyObj
        return SAnyObj('logger')

    # the pieces of sys / traceback used to format a captured error: opaque text (A-TRACEBACK)
    reg('importlib.import_module', x_import_module)
    reg('logging.getLogger', x_get_logger)
    reg('sys.exc_info', lambda i, a, k, n: (None, None, None))
    reg('traceback.extract_tb', lambda i, a, k, n: ())
    reg('traceback.format_exception_only', lambda i, a, k, n: ['exception text'])
    reg('openpyxl.utils.get_column_letter', x_get_column_letter)
    reg('openpyxl.utils.quote_sheetname', x_quote_sheetname)
    reg('functools.partial', b_partial)
    reg('collections.namedtuple', x_namedtuple)
    reg('math.floor', b_floor)
    reg('math.ceil', b_ceil)
    reg('math.trunc', b_trunc)
    reg('math.copysign', b_copysign)
    reg('math.isclose', b_isclose)
    reg('math.isfinite', b_isfinite)
    reg('fractions.Fraction', x_fraction)
    reg('collections.abc.Iterable', None)
    ext['collections.abc.Iterable'] = Builtin('Iterable', None)
    ext['collections.abc'] = ExternalModule('collections.abc')
    ext['numbers.Number'] = Builtin('Number', None)
    ext['numpy.float64'] = Builtin('float64', None)
    ext['numpy.ndarray'] = Builtin('ndarray', None)
    ext['openpyxl.formula.tokenizer.Tokenizer'] = TokenizerConsts()
    ext['operator.eq'] = Builtin('operator.eq', lambda i, a, k, n: i.compare('eq', a[0], a[1], n))
    ext['operator.ne'] = Builtin('operator.ne', lambda i, a, k, n: i.compare('ne', a[0], a[1], n))
    ext['operator.lt'] = Builtin('operator.lt', lambda i, a, k, n: i.compare('lt', a[0], a[1], n))
    ext['operator.le'] = Builtin('operator.le', lambda i, a, k, n: i.compare('le', a[0], a[1], n))
    ext['operator.gt'] = Builtin('operator.gt', lambda i, a, k, n: i.compare('gt', a[0], a[1], n))
    ext['operator.ge'] = Builtin('operator.ge', lambda i, a, k, n: i.compare('ge', a[0], a[1], n))
    for nm, op in (('add', 'add'), ('sub', 'sub'), ('mul', 'mul'), ('truediv', 'truediv'),
                   ('floordiv', 'floordiv'), ('mod', 'mod'), ('pow', 'pow'), ('and_', 'and'),
                   ('or_', 'or'), ('xor', 'xor'), ('lshift', 'lshift'), ('rshift', 'rshift')):
        ext[f'operator.{nm}'] = Builtin(f'operator.{nm}',
                                        lambda i, a, k, n, _op=op: i.binop(_op, a[0], a[1], n))
    from . import calendar_model, decimal_model, regex_model
    calendar_model.register(ext)
    decimal_model.register(ext)
    regex_model.register(ext)
    import ast as _ast
    ext['operator.neg'] = Builtin('operator.neg', lambda i, a, k, n: i.unaryop(_ast.USub(), a[0], n))
    ext['operator.pos'] = Builtin('operator.pos', lambda i, a, k, n: i.unaryop(_ast.UAdd(), a[0], n))
    ext['operator.matmul'] = Builtin('operator.matmul', lambda i, a, k, n: i.raise_exc('TypeError', 'matmul', n))
    return ext


class TokenizerConsts:
    ERROR_CODES = ERROR_CODES


def make_builtins(world):
    from .interp import Builtin
    b = {}

    def reg(name, impl):
        b[name] = Builtin(name, impl)

    reg('str', b_str)
    reg('int', b_int)
    reg('float', b_float)
    reg('bool', b_bool)
    reg('len', b_len)
    reg('abs', b_abs)
    reg('min', _minmax(True))
    reg('max', _minmax(False))
    reg('sum', b_sum)
    reg('any', b_any)
    reg('all', b_all)
    reg('next', b_next)
    reg('iter', b_iter)
    reg('tuple', b_tuple)
    reg('list', b_list)
    reg('set', b_set)
    reg('frozenset', b_frozenset)
    reg('dict', b_dict)
    reg('range', b_range)
    reg('enumerate', b_enumerate)
    reg('zip', b_zip)
    reg('reversed', b_reversed)
    reg('map', b_map)
    reg('filter', b_filter)
    reg('sorted', b_sorted)
    reg('isinstance', b_isinstance)
    reg('hasattr', b_hasattr)
    reg('getattr', b_getattr)
    reg('setattr', b_setattr)
    reg('super', b_super)
    reg('round', b_round)
    reg('divmod', b_divmod)
    reg('pow', b_pow)
    reg('__pow__', b_pow)
    reg('callable', b_callable)
    reg('type', b_type)
    reg('id', b_id)
    reg('repr', b_repr)
    reg('bin', b_radix(2))
    reg('oct', b_radix(8))
    reg('hex', b_radix(16))
    reg('chr', b_chr)
    reg('ord', b_ord)
    reg('complex', None)
    reg('object', None)
    for e in sym.EXC_PARENTS:
        reg(e, None)
    return b


# ---------------------------------------------------------------------------
# symbolic twins of spec primitives (see SYMBOLIC_TWINS in the sidecars)
# ---------------------------------------------------------------------------

def sx_digits(interp, args, kwargs, node):
    """digits(u, base): upper-case rendering of u >= 0 in base 2/8/16."""
    u, base = args
    if isinstance(u, int):
        return {2: '{:b}', 8: '{:o}', 16: '{:X}'}[base].format(u)
    return mk_str(radix_facts(interp, as_int_term(u), base))


def sx_valid_digits(interp, args, kwargs, node):
    s_, base = args
    alphabet = {2: '01', 8: '01234567', 16: '0123456789ABCDEFabcdef'}[base]
    if isinstance(s_, str):
        return len(s_) > 0 and all(c in alphabet for c in s_)
    return mk_bool(z3.InRe(s_.t, z3.Plus(charset_re(alphabet))))


def sx_parse_digits(interp, args, kwargs, node):
    s_, base = args
    if isinstance(s_, str):
        return int(s_, base)
    parse, parses = parse_uf(base)
    return mk_int(parse(s_.t))
