"""MANIFEST.setup_cmd: verifies interpreters / solvers and builds the arena shim."""
import os
import shutil
import subprocess
import sys


def main():
    import z3
    print('z3', z3.get_version_string())
    for tool in ('/usr/bin/cvc5', '/usr/bin/z3', '/venv/bin/python'):
        print(tool, 'ok' if os.path.exists(tool) else 'MISSING')
    out = subprocess.run(['/venv/bin/python', '-c', 'import pycel, sys; print(pycel.__file__)'],
                         capture_output=True, text=True)
    print('pycel under /venv:', out.stdout.strip() or out.stderr.strip()[-300:])
    from .check import install_arena_shim
    print('arena shim:', install_arena_shim())
    sys.exit(0 if out.returncode == 0 else 1)


if __name__ == '__main__':
    main()
