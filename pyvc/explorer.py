"""Path exploration by re-execution along a decision trace (DFS).

`Explorer.paths(run)` calls `run()` once per feasible path.  Inside `run`
symbolic branches call `branch(cond)`; the explorer decides them from the
recorded trace or, at the frontier, by asking the solver which sides are
feasible under the current path condition.
"""
import time

import z3

from .sym import PathAbort


class NeedBranch(Exception):
    """Raised in speculative mode when evaluation would need to fork."""


_SYMS = {}
import os as _os
_DEBUG_SLOW = _os.environ.get('PYVC_DEBUG') == 'slow'


def symbols_of(t):
    """Set of uninterpreted symbol names (constants and functions) in term t."""
    key = t.get_id()
    if key in _SYMS:
        return _SYMS[key][1]
    out = set()
    seen = set()
    todo = [t]
    while todo:
        x = todo.pop()
        xid = x.get_id()
        if xid in seen:
            continue
        seen.add(xid)
        if z3.is_app(x):
            d = x.decl()
            if d.kind() == z3.Z3_OP_UNINTERPRETED:
                out.add(d.name())
            todo.extend(x.children())
        elif z3.is_quantifier(x):
            todo.append(x.body())
    if len(_SYMS) > 100000:
        _SYMS.clear()
    _SYMS[key] = (t, out)     # keep t alive: ids are recycled after GC
    return out


def relevant(pc, goal_syms):
    """Conjuncts of pc transitively sharing symbols with goal_syms (cone of
    influence).  Dropped conjuncts share no symbol with the kept ones, so the
    satisfiability of the whole is the conjunction of the parts."""
    syms = set(goal_syms)
    items = [(c, symbols_of(c)) for c in pc]
    kept = []
    changed = True
    rest = items
    while changed:
        changed = False
        nxt = []
        for c, sy in rest:
            if not sy or sy & syms:
                kept.append(c)
                if not sy <= syms:
                    syms |= sy
                    changed = True
            else:
                nxt.append((c, sy))
        rest = nxt
    return kept


_HASQ = {}


def _nested_quantifier(t):
    seen = set()
    todo = [t]
    while todo:
        x = todo.pop()
        if z3.is_quantifier(x):
            return True
        xid = x.get_id()
        if xid in seen:
            continue
        seen.add(xid)
        if z3.is_app(x):
            todo.extend(x.children())
    return False


def _mentions_string(t):
    seen = set()
    todo = [t]
    while todo:
        x = todo.pop()
        xid = x.get_id()
        if xid in seen:
            continue
        seen.add(xid)
        if z3.is_quantifier(x):
            todo.append(x.body())
        elif z3.is_app(x):
            if x.sort().kind() == z3.Z3_SEQ_SORT:
                return True
            todo.extend(x.children())
    return False


def has_quantifier(t):
    key = t.get_id()
    hit = _HASQ.get(key)
    if hit is not None and hit[0] is t:
        return hit[1]
    found = False
    seen = set()
    todo = [t]
    while todo:
        x = todo.pop()
        if z3.is_quantifier(x):
            # only the expensive ones: facts about texts (sequence theory under a quantifier), facts over pairs of indices
            if x.num_vars() > 1 or _nested_quantifier(x.body()) or _mentions_string(x.body()):
                found = True
                break
            continue
        xid = x.get_id()
        if xid in seen:
            continue
        seen.add(xid)
        if z3.is_app(x):
            todo.extend(x.children())
    if len(_HASQ) > 100000:
        _HASQ.clear()
    _HASQ[key] = (t, found)
    return found


class Explorer:
    SKIP_QUANTIFIED = False     # set per contract (fast_branch=True): quantified facts about texts are left out of feasibility checks

    def __init__(self, branch_timeout_ms=2000, max_paths=4000):
        self.branch_timeout_ms = branch_timeout_ms
        self.max_paths = max_paths
        self.speculative = 0
        self.floor_cache_seed = {}
        self.floor_cache = {}
        self.pipe_registry_seed = []
        self.pipe_registry = []
        self.first_choice_seed = {}
        self.first_choice = {}
        self.modular_memo_seed = {}
        self.modular_memo = {}
        self.cell_reads_seed = []
        self.cell_reads = []
        self.str_cmp_terms_seed = []
        self.str_cmp_terms = []
        self.heap_seed = None
        self.heap = None
        self.heap_writes = []
        self.branch_rlimit = 4000000
        self.base_pc = []
        self.prefix = ''
        self.fork_site = None
        self.fork_counts = {}
        self.trace = []
        self.pos = 0
        self.pc = []
        self.pending = []
        self.fresh_ctr = 0
        self.solver_ms = 0.0
        self.branch_queries = 0
        self.axioms_used = set()
        self.notes = []          # free-form per path notes (which models fired)
        self.path_count = 0

    # -- per path --------------------------------------------------------
    def _reset_path(self, prefix):
        self.trace = list(prefix)
        self.pos = 0
        self.pc = list(self.base_pc)
        self.fresh_ctr = 0
        self.floor_cache = dict(self.floor_cache_seed)
        self.pipe_registry = list(self.pipe_registry_seed)
        self.first_choice = dict(self.first_choice_seed)
        self.modular_memo = dict(self.modular_memo_seed)
        self.cell_reads = list(self.cell_reads_seed)
        self.str_cmp_terms = list(self.str_cmp_terms_seed)
        self.heap = dict(self.heap_seed) if self.heap_seed is not None else None
        self.heap_writes = []
        self.notes = []

    def fresh_name(self, base):
        self.fresh_ctr += 1
        return f'{self.prefix}{base}!{self.fresh_ctr}'

    def assume(self, cond, tag=None):
        """Add a fact to the path condition (trusted model fact or contract)."""
        if isinstance(cond, bool):
            if not cond:
                raise PathAbort()
            return
        cond = z3.simplify(cond)
        if z3.is_true(cond):
            return
        if z3.is_false(cond):
            raise PathAbort()
        if self.speculative:
            raise NeedBranch()
        # keep the path condition satisfiable: relevance filtering of queries
        # relies on it (a dropped, unrelated part must have a model)
        if self._check(cond) == z3.unsat:
            raise PathAbort()
        self.pc.append(cond)
        if tag:
            self.axioms_used.add(tag)

    def add_axiom(self, fact, tag=None):
        """Add a ground instance of a trusted, universally valid fact.  Valid in
        every model of the trusted theory, so it needs no feasibility check and
        may be added even while speculating."""
        fact = z3.simplify(fact)
        if z3.is_true(fact):
            return
        self.pc.append(fact)
        if tag:
            self.axioms_used.add(tag)

    def _check(self, cond):
        t0 = time.time()
        s = z3.Solver()
        # resource limit, not wall-clock: deterministic and thread-free
        s.set('rlimit', self.branch_rlimit)
        pc = self.pc
        if Explorer.SKIP_QUANTIFIED:
            # feasibility only: without the quantified facts more paths look feasible (never fewer); what is
            # obliged at the end of a path is still checked against the whole path condition
            pc = [c for c in pc if not has_quantifier(c)]
        for c in relevant(pc, symbols_of(cond)):
            s.add(c)
        s.add(cond)
        r = s.check()
        dt = (time.time() - t0) * 1000
        self.solver_ms += dt
        self.branch_queries += 1
        if dt > 300 and _DEBUG_SLOW:
            print('SLOW-BRANCH %.0fms %s site=%s cond=%s' % (dt, r, self.fork_site() if self.fork_site else None,
                                                           str(cond)[:300].replace(chr(10), ' ')))
        return r

    def branch(self, cond):
        """Decide a symbolic condition on this path; returns a Python bool."""
        if isinstance(cond, bool):
            return cond
        cond = z3.simplify(cond)
        if z3.is_true(cond):
            return True
        if z3.is_false(cond):
            return False
        if self.speculative:
            raise NeedBranch()
        if self.pos < len(self.trace):
            d = self.trace[self.pos]
            self.pos += 1
        else:
            can_t = self._check(cond) != z3.unsat
            # the path condition is kept satisfiable, so one side always is
            can_f = True if not can_t else self._check(z3.Not(cond)) != z3.unsat
            if can_t and can_f:
                self.pending.append(self.trace[:self.pos] + [False])
                d = True
                if self.fork_site is not None:
                    k = self.fork_site()
                    self.fork_counts[k] = self.fork_counts.get(k, 0) + 1
            elif can_t:
                d = True
            elif can_f:
                d = False
            else:
                raise PathAbort()
            self.trace.append(d)
            self.pos += 1
        c = cond if d else z3.Not(cond)
        self.pc.append(c)
        return d

    def choose(self, n):
        """Non-deterministic choice among n alternatives (0..n-1) on this path."""
        for i in range(n - 1):
            # encoded as a sequence of unconstrained boolean decisions
            if self._free_decision():
                return i
        return n - 1

    def _free_decision(self):
        if self.speculative:
            raise NeedBranch()
        if self.pos < len(self.trace):
            d = self.trace[self.pos]
            self.pos += 1
            return d
        self.pending.append(self.trace[:self.pos] + [False])
        self.trace.append(True)
        self.pos += 1
        return True

    # -- driver ----------------------------------------------------------
    def paths(self, run):
        """Generator: yields (outcome, pc, notes) for each explored path."""
        self.pending = [[]]
        self.path_count = 0
        while self.pending:
            prefix = self.pending.pop()
            self._reset_path(prefix)
            try:
                outcome = run()
            except PathAbort:
                continue
            self.path_count += 1
            if self.path_count > self.max_paths:
                raise RuntimeError('path explosion: more than %d paths' % self.max_paths)
            yield outcome, list(self.pc), list(self.notes)
