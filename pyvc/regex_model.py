"""A-RE: trusted models of the few regular expressions pycel's criteria parser uses.

Only patterns listed here are modelled (by their pattern text); any other use of `re`
puts the function out of reach.
  OPERATORS_RE  '^(?P<oper>(=|<>|<=?|>=?))?(?P<value>.*)$' : optional comparison prefix + rest
                (for text without a line break, which is a stated precondition)
  STAR_RE       r'\\*(?<!~)'  .sub(r, s)  ==  s.replace('*', r)   (the look-behind can never fail)
  QUESTION_MARK_RE r'\\?(?<!~)' .sub(r, s) ==  s.replace('?', r)
"""
import z3

from .sym import SStr, Unsupported, mk_str, str_term

MULTI_SPACE = ' +'
NUMBER_TEXT = r'\s*[+-]?(\d+\.?\d*|\.\d+)([eE][+-]?\d+)?\s*\Z'
OPERATORS = '^(?P<oper>(=|<>|<=?|>=?))?(?P<value>.*)$'
STAR = r'\*(?<!~)'
QMARK = r'\?(?<!~)'

TAG = ('A-RE: OPERATORS_RE splits an optional leading =, <>, <=, <, >=, > from the rest (text without line '
       'breaks); STAR_RE/QUESTION_MARK_RE.sub replace every * / ? (their look-behind never fails); compiled '
       'wildcard patterns themselves are NOT modelled (bounded stand-in)')


class SRegex:
    def __init__(self, pattern):
        self.pattern = pattern

    def hm_getattr(self, interp, name, node):
        from .interp import Builtin
        interp.world.trusted.add(TAG)
        if name == 'match' and self.pattern == OPERATORS:
            return Builtin('re.match', lambda i, a, k, n: operators_match(i, a[0], n))
        if name == 'sub' and self.pattern in (STAR, QMARK):
            ch = '*' if self.pattern == STAR else '?'
            return Builtin('re.sub', lambda i, a, k, n: sub_char(i, ch, a[0], a[1], n))
        if name == 'match' and self.pattern == NUMBER_TEXT:
            return Builtin('re.match', lambda i, a, k, n: number_text_match(i, a[0], n))
        if name == 'sub' and self.pattern == MULTI_SPACE:
            return Builtin('re.sub', lambda i, a, k, n: collapse_spaces(i, a[0], a[1], n))
        raise Unsupported(f're pattern {self.pattern!r}.{name}', node)


def collapse_spaces(interp, repl, s, node):
    """re.compile(' +').sub(' ', s): every run of spaces becomes one space (A-RE)."""
    if repl != ' ':
        raise Unsupported("' +'.sub with another replacement", node)
    if isinstance(s, str):
        import re
        return re.sub(' +', ' ', s)
    interp.world.trusted.add("A-RE: re.compile(' +').sub(' ', s) = s with every run of spaces collapsed to one: no two "
                             "adjacent spaces remain, text without adjacent spaces is unchanged, it is no longer than s, "
                             "and it starts / ends with a space exactly when s does")
    from .builtins_model import uf, S
    t = str_term(s)
    r = uf('collapse_spaces', S, S)(t)
    two = z3.StringVal('  ')
    sp = z3.StringVal(' ')
    interp.ex.add_axiom(z3.And(z3.Not(z3.Contains(r, two)),
                               z3.Implies(z3.Not(z3.Contains(t, two)), r == t),
                               z3.Length(r) <= z3.Length(t),
                               z3.PrefixOf(sp, r) == z3.PrefixOf(sp, t),
                               z3.SuffixOf(sp, r) == z3.SuffixOf(sp, t),
                               (z3.Length(r) == 0) == (z3.Length(t) == 0)))
    return mk_str(r)


def number_text_match(interp, s, node):
    """NUMBER_TEXT_RE.match(s): truthy exactly for the texts that are written like a number (optional sign, ASCII digits
    with an optional decimal point, optional exponent, white space around) - an uninterpreted predicate number_text(s)
    with the one fact the code relies on: such a text is parsed by float() (A-STRNUM)"""
    if not isinstance(s, (SStr, str)):
        interp.raise_exc('TypeError', 'expected string or bytes-like object', node)
    if isinstance(s, str):
        import re
        return SMatch(None, s) if re.compile(NUMBER_TEXT, re.ASCII).match(s) else None
    from .builtins_model import uf, S, B
    interp.world.trusted.add('A-RE: NUMBER_TEXT_RE.match(s) is an uninterpreted predicate number_text(s); number_text(s) '
                             'implies that float(s) parses (A-STRNUM)')
    t = s.t
    nt = uf('number_text', S, B)(t)
    interp.ex.add_axiom(z3.Implies(nt, uf('float_parses', S, B)(t)))
    if interp.ex.branch(nt):
        return SMatch(None, s)
    return None


class SMatch:
    def __init__(self, oper, value):
        self.groups = {'oper': oper, 'value': value}

    def hm_getattr(self, interp, name, node):
        from .interp import Builtin
        if name == 'group':
            return Builtin('match.group', lambda i, a, k, n: self.groups[a[0]])
        raise Unsupported(f'match.{name}', node)


def operators_match(interp, s, node):
    if not isinstance(s, (SStr, str)):
        interp.raise_exc('TypeError', 'expected string or bytes-like object', node)
    if isinstance(s, str):
        import re
        m = re.match(OPERATORS, s)
        if m is None:
            return None
        return SMatch(m.group('oper'), m.group('value'))
    t = s.t
    ex = interp.ex
    if ex.branch(z3.Contains(t, z3.StringVal('\n'))):
        raise Unsupported('criteria text with a line break (outside the modelled domain of OPERATORS_RE)', node)
    n = z3.Length(t)
    for op in ('=', '<>', '<=', '<', '>=', '>'):
        if ex.branch(z3.PrefixOf(z3.StringVal(op), t)):
            return SMatch(op, mk_str(z3.SubString(t, len(op), n)))
    return SMatch(None, s)


def sub_char(interp, ch, repl, s, node):
    if isinstance(s, str) and isinstance(repl, str):
        return s.replace(ch, repl)
    from .builtins_model import replace_all
    if not interp.ex.branch(z3.Contains(str_term(s), z3.StringVal(ch))):
        return s                   # nothing to replace: the very same text
    return mk_str(replace_all(str_term(s), z3.StringVal(ch), str_term(repl)))


def x_compile(interp, args, kwargs, node):
    pat = args[0]
    if not isinstance(pat, str):
        raise Unsupported('re.compile of a computed pattern (wildcard matching is bounded only)', node)
    return SRegex(pat)


def register(ext):
    from .interp import Builtin
    ext['re.compile'] = Builtin('re.compile', x_compile)
    ext['re.VERBOSE'] = 64
    ext['re.ASCII'] = 256
    ext['re.IGNORECASE'] = 2
