/* Replace CPython's arena allocator (mmap/munmap per 16 KiB data-stack chunk)
 * by a caching allocator: deep recursion that oscillates around a chunk
 * boundary otherwise costs one mmap+munmap per C->Python call (every z3 API
 * call returning an AST), which dominates wall time when 14 workers run. */
#include <stdlib.h>
#include <stddef.h>

typedef struct {
    void *ctx;
    void *(*alloc)(void *ctx, size_t size);
    void (*free)(void *ctx, void *ptr, size_t size);
} PyObjectArenaAllocator;

extern void PyObject_SetArenaAllocator(PyObjectArenaAllocator *allocator);
extern void PyObject_GetArenaAllocator(PyObjectArenaAllocator *allocator);
static PyObjectArenaAllocator orig;

#define SMALL 16384
#define CACHE 64
static void *cache[CACHE];
static int ncache = 0;

static void *shim_alloc(void *ctx, size_t size) {
    if (size == SMALL && ncache > 0) return cache[--ncache];
    return orig.alloc(orig.ctx, size);
}

static void shim_free(void *ctx, void *ptr, size_t size) {
    if (size == SMALL && ncache < CACHE) { cache[ncache++] = ptr; return; }
    orig.free(orig.ctx, ptr, size);
}

void pyvc_install_arena_shim(void) {
    static PyObjectArenaAllocator a = {NULL, shim_alloc, shim_free};
    static int installed = 0;
    if (installed) return;
    installed = 1;
    PyObject_GetArenaAllocator(&orig);
    PyObject_SetArenaAllocator(&a);
}
