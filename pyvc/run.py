"""Developer driver: python3-vt -m pyvc.run contracts.c11 [name-filter]"""
import importlib
import sys
import time

from .vc import Verifier


def main():
    modname = sys.argv[1]
    flt = sys.argv[2] if len(sys.argv) > 2 else ''
    import os
    repo = os.environ.get('MUT_REPO', '/repo')
    vr = Verifier(repo, '/verif')
    mod = importlib.import_module(modname)
    vr.register(mod.CONTRACTS)
    vr.register(getattr(mod, 'ASSUMED', []))
    for m in getattr(mod, 'USES', []):
        vr.register(importlib.import_module(m).CONTRACTS)
    t0 = time.time()
    for c in mod.CONTRACTS:
        if flt and flt not in c.name:
            continue
        rep = vr.verify_contract(c)
        show(rep)
    for lem in getattr(mod, 'LEMMAS', []):
        if flt and flt not in lem.name:
            continue
        rep = vr.verify_lemma(lem)
        show(rep)
    print('total %.1fs' % (time.time() - t0))
    for k, v in sorted(vr.explorer.fork_counts.items(), key=lambda kv: -kv[1])[:25]:
        print('  fork', k, v)
    print('trusted:', *sorted(vr.world.trusted), sep='\n  ')
    print('dropped:', sorted(vr.world.dropped))
    print('inlined:', sorted(vr.world.inlined))


def show(rep):
    c = rep.contract
    st = {}
    for r in rep.records:
        st.setdefault(r.name, {}).setdefault(r.verdict.status, []).append(r)
    print(f'== {c.name}: scenarios={rep.scenarios} paths={rep.paths} {rep.ms:.0f}ms '
          f'unsupported={rep.unsupported} infeasible={len(rep.infeasible_scenarios)}')
    for name, d in st.items():
        print('   ', name, {k: len(v) for k, v in d.items()})
        for k in ('sat', 'unknown'):
            for r in d.get(k, [])[:3]:
                print('       ', k, r.scenario, r.detail, r.witness, r.verdict.reason)


if __name__ == '__main__':
    main()
