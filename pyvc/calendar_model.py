"""A-CAL: trusted model of datetime / timedelta / calendar.monthrange.

The proleptic Gregorian calendar is axiomatised through
  G(k)      ordinal of the first day of month index k = 12*year + month - 1
  gdim(k)   length of that month (defined, not uninterpreted)
  YOF/MOF/DOF(o)  the (year, month, day) of ordinal o
with *ground instances* of:
  (G1) G(k+1) = G(k) + gdim(k)
  (G2) anchors: G(22800) = 693596 (1900-01-01); k <= 22800 -> G(k) <= 693596;
       k >= 22802 -> G(k) >= 693655; k >= 12 -> G(k) >= 1 ...
  (Y)  for 1 <= o <= 3652059: 1 <= MOF <= 12, 1 <= DOF <= gdim, 1 <= YOF <= 9999,
       G(12*YOF+MOF-1) + DOF - 1 = o;  and datetime(y,m,d) valid -> Y/M/D of its ordinal are y,m,d
Excel's own month serial XM(k) (with the fictitious 1900-02-29) is a spec-side
twin: XM(k+1) = XM(k) + xdim(k), XM(k) = G(k) - 693594 - [k <= 22801] for k >= 22800.
All of these are facts about the calendar, cross-checked exhaustively against
CPython by the bounded stand-in of C17 (every month 1900..9999, every serial day).
"""
import datetime as _dt

import z3

from . import sym
from .sym import (PyExc, SBool, SFloat, SInt, SV, Unsupported, as_int_term,
                  mk_bool, mk_int)

I = z3.IntSort()
G = z3.Function('G', I, I)
YOF = z3.Function('YOF', I, I)
MOF = z3.Function('MOF', I, I)
DOF = z3.Function('DOF', I, I)
XM = z3.Function('XM', I, I)
WD = z3.Function('WD', I, I)

ORD0 = 693594                 # 1899-12-30
K1900 = 1900 * 12             # January 1900
ORD_MAX = 3652059             # 9999-12-31

TAG = ('A-CAL: datetime/timedelta/calendar.monthrange implement the proleptic Gregorian calendar: '
       'ordinal(y,m,d) = G(12y+m-1)+d-1 with G(k+1)=G(k)+gdim(k), inverse YOF/MOF/DOF, anchors at 1900; '
       'datetime(y,m,d) raises ValueError exactly for invalid triples or years outside 1..9999')


def is_leap_term(y):
    return z3.Or(z3.And(y % 4 == 0, y % 100 != 0), y % 400 == 0)


def gdim_km(y, m):
    """Gregorian month length for year term y, month term m (1..12)."""
    return z3.If(m == 2, z3.If(is_leap_term(y), z3.IntVal(29), z3.IntVal(28)),
                 z3.If(z3.Or(m == 4, m == 6, m == 9, m == 11), z3.IntVal(30), z3.IntVal(31)))


def gdim_k(k):
    return gdim_km(k / 12, k % 12 + 1)


def xdim_k(k):
    """Excel month length: Gregorian except February 1900 has 29 days."""
    return z3.If(k == K1900 + 1, z3.IntVal(29), gdim_k(k))


def g_facts(ex, k):
    """Ground instances around month index k."""
    for t in (k - 1, k):
        ex.add_axiom(G(t + 1) == G(t) + gdim_k(t))
    ex.add_axiom(G(z3.IntVal(K1900)) == 693596)
    ex.add_axiom(G(z3.IntVal(K1900 + 1)) == 693627)
    ex.add_axiom(G(z3.IntVal(K1900 + 2)) == 693655)
    ex.add_axiom(z3.Implies(k <= K1900, G(k) <= 693596))
    ex.add_axiom(z3.Implies(k <= K1900 - 1, G(k) <= 693565))
    ex.add_axiom(z3.Implies(k >= K1900 + 2, G(k) >= 693655))
    ex.add_axiom(z3.Implies(k >= 12, G(k) >= 1))
    ex.add_axiom(z3.Implies(k <= 9999 * 12 + 11, G(k) <= ORD_MAX - 30))


def inv_facts(ex, o):
    y, m, d = YOF(o), MOF(o), DOF(o)
    k = 12 * y + m - 1
    ex.add_axiom(z3.Implies(z3.And(o >= 1, o <= ORD_MAX),
                            z3.And(m >= 1, m <= 12, d >= 1, d <= gdim_k(k), y >= 1, y <= 9999,
                                   G(k) + d - 1 == o)))
    ex.add_axiom(z3.Implies(o >= 693596, y >= 1900))
    ex.add_axiom(z3.Implies(o <= 693595, y <= 1899))
    ex.add_axiom(z3.Implies(o >= 693655, k >= K1900 + 2))
    ex.add_axiom(z3.Implies(z3.And(o >= 693596, o <= 693654), z3.And(k >= K1900, k <= K1900 + 1)))
    g_facts(ex, k)


def fwd_facts(ex, y, m, d):
    """datetime(y,m,d) valid: its ordinal decodes back to (y,m,d)."""
    k = 12 * y + m - 1
    o = G(k) + d - 1
    g_facts(ex, k)
    ex.add_axiom(z3.Implies(z3.And(y >= 1, y <= 9999, m >= 1, m <= 12, d >= 1, d <= gdim_k(k)),
                            z3.And(YOF(o) == y, MOF(o) == m, DOF(o) == d, o >= 1, o <= ORD_MAX)))
    return o


class SDate:
    """datetime.datetime / date with a (possibly symbolic) ordinal; time of day ignored."""

    def __init__(self, ordinal):
        self.ordinal = ordinal       # z3 Int term

    def hm_getattr(self, interp, name, node):
        from .interp import Builtin
        interp.world.trusted.add(TAG)
        o = self.ordinal
        if name in ('year', 'month', 'day'):
            inv_facts(interp.ex, o)
            return mk_int({'year': YOF, 'month': MOF, 'day': DOF}[name](o))
        if name == 'date':
            return Builtin('datetime.date', lambda i, a, k, n: self)
        if name == 'toordinal':
            return Builtin('toordinal', lambda i, a, k, n: mk_int(o))
        raise Unsupported(f'datetime attribute {name}', node)


class STimedelta:
    def __init__(self, days):
        self.days = days             # z3 Int term

    def hm_getattr(self, interp, name, node):
        if name == 'days':
            return mk_int(self.days)
        if name == 'seconds':
            return 0
        raise Unsupported(f'timedelta attribute {name}', node)


def date_binop(interp, op, a, b, node):
    interp.world.trusted.add(TAG)
    if isinstance(a, SDate) and isinstance(b, STimedelta) and op in ('add', 'sub'):
        o = a.ordinal + b.days if op == 'add' else a.ordinal - b.days
        o = z3.simplify(o)
        if interp.ex.branch(z3.Or(o < 1, o > ORD_MAX)):
            interp.raise_exc('OverflowError', 'date value out of range', node)
        return SDate(o)
    if isinstance(b, SDate) and isinstance(a, STimedelta) and op == 'add':
        return date_binop(interp, op, b, a, node)
    if isinstance(a, SDate) and isinstance(b, SDate) and op == 'sub':
        return STimedelta(z3.simplify(a.ordinal - b.ordinal))
    if isinstance(a, STimedelta) and isinstance(b, STimedelta) and op in ('add', 'sub'):
        return STimedelta(a.days + b.days if op == 'add' else a.days - b.days)
    interp.raise_exc('TypeError', f'unsupported operand for {op} on date values', node)


def x_datetime(interp, args, kwargs, node):
    """dt.datetime(y, m, d) / dt.date(y, m, d)"""
    interp.world.trusted.add(TAG)
    if len(args) < 3:
        raise Unsupported('datetime() with fewer than 3 arguments', node)
    y, m, d = args[:3]
    for v in (y, m, d):
        if isinstance(v, (SFloat, float)):
            interp.raise_exc('TypeError', "'float' object cannot be interpreted as an integer", node)
        if not isinstance(v, (SInt, SBool, int)):
            interp.raise_exc('TypeError', 'an integer is required', node)
    if not sym.any_sym(y, m, d):
        try:
            return SDate(z3.IntVal(_dt.date(y, m, d).toordinal()))
        except ValueError as e:
            interp.raise_exc('ValueError', str(e), node)
    ty, tm, td = as_int_term(y), as_int_term(m), as_int_term(d)
    k = 12 * ty + tm - 1
    valid = z3.And(ty >= 1, ty <= 9999, tm >= 1, tm <= 12, td >= 1, td <= gdim_km(ty, tm))
    if not interp.ex.branch(valid):
        interp.raise_exc('ValueError', 'day is out of range for month / year out of range', node)
    return SDate(fwd_facts(interp.ex, ty, tm, td))


def x_timedelta(interp, args, kwargs, node):
    days = kwargs.get('days', args[0] if args else 0)
    if len(kwargs) > (1 if 'days' in kwargs else 0) or len(args) > 1:
        raise Unsupported('timedelta with other units', node)
    if isinstance(days, (SFloat, float)):
        t = sym.as_real_term(days)
        interp.world.trusted.add('A-CAL: the time of day of a datetime does not affect its year/month/day '
                                 '(fractional timedelta days are floored for the date part)')
        return STimedelta(sym.floor_int(interp.ex, t))
    return STimedelta(as_int_term(days))


def x_monthrange(interp, args, kwargs, node):
    interp.world.trusted.add(TAG)
    y, m = args
    for v in (y, m):
        if isinstance(v, (SFloat, float)):
            interp.raise_exc('TypeError', "'float' object cannot be interpreted as an integer", node)
    ty, tm = as_int_term(y), as_int_term(m)
    if interp.ex.branch(z3.Or(tm < 1, tm > 12)):
        interp.raise_exc('ValueError', 'bad month number; must be 1-12', node)
    # (calendar.weekday maps years outside 1..9999 onto the 400-year cycle: no raise)
    return (mk_int(WD(12 * ty + tm - 1)), mk_int(gdim_km(ty, tm)))


def register(ext):
    from .interp import Builtin
    ext['datetime.datetime'] = Builtin('datetime.datetime', x_datetime)
    ext['datetime.date'] = Builtin('datetime.date', x_datetime)
    ext['datetime.timedelta'] = Builtin('datetime.timedelta', x_timedelta)
    ext['calendar.monthrange'] = Builtin('calendar.monthrange', x_monthrange)


# ---------------------------------------------------------------------------
# spec twins (C17 sidecar)
# ---------------------------------------------------------------------------

def sx_xm(interp, args, kwargs, node):
    """xm(k): Excel serial number of day 1 of month index k (k >= 22800)."""
    k = as_int_term(args[0])
    ex = interp.ex
    interp.world.trusted.add('A-CAL(XM): Excel month serial XM(k+1)=XM(k)+xdim(k), XM(k) = G(k) - 693594 - '
                             '[k <= 22801] for k >= 22800 (1900-01-01 is serial 1; fictitious 1900-02-29)')
    for t in (k - 1, k):
        ex.add_axiom(z3.Implies(t >= K1900, XM(t + 1) == XM(t) + xdim_k(t)))
    ex.add_axiom(XM(z3.IntVal(K1900)) == 1)
    ex.add_axiom(z3.Implies(k >= K1900, XM(k) == G(k) - ORD0 - z3.If(k <= K1900 + 1, 1, 0)))
    g_facts(ex, k)
    return mk_int(XM(k))


def sx_gregorian(interp, args, kwargs, node):
    """gregorian(o): (year, month, day) of proleptic Gregorian ordinal o."""
    o = as_int_term(args[0])
    inv_facts(interp.ex, o)
    return (mk_int(YOF(o)), mk_int(MOF(o)), mk_int(DOF(o)))


def sx_xdim(interp, args, kwargs, node):
    y, m = as_int_term(args[0]), as_int_term(args[1])
    return mk_int(z3.If(z3.And(y == 1900, m == 2), z3.IntVal(29), gdim_km(y, m)))


def sx_triple_fn(interp, args, kwargs, node):
    """an unspecified but functional (deterministic) triple of n: no calendar facts"""
    o = as_int_term(args[0])
    return (mk_int(YOF(o)), mk_int(MOF(o)), mk_int(DOF(o)))
