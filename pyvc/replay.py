"""Native replay of a counterexample on the real code.

Run as:  /venv/bin/python -m pyvc.replay <replay.json> [--repo /repo]
Exit 1 + 'VIOLATION property=<id> replay=<path>' when the failing obligation
is reproduced on the real code, exit 0 when the real code satisfies the clause
on that input (the counterexample was spurious through an abstraction).
"""
import builtins
import fractions
import importlib
import json
import os
import sys
import traceback


def resolve(target):
    modname, qual = target.split(':')
    if modname == 'builtins':
        return getattr(builtins, qual)
    obj = importlib.import_module(modname)
    for p in qual.split('.'):
        obj = getattr(obj, p)
    return obj


class NotReplayable(Exception):
    """the witness is over abstract state that has no concrete counterpart"""


ABSTRACT_MARKERS = ('$heap_compiler', '$node', '$value', '$heap_set', '$anyobj')
_PLACEHOLDERS = {}


class Placeholder:
    """an object known only by its identity (a cell handed to the tracker)"""

    def __init__(self, name):
        self.name = name

    def __repr__(self):
        return f'<{self.name}>'


def placeholder(name):
    if name not in _PLACEHOLDERS:
        _PLACEHOLDERS[name] = Placeholder(name)
    return _PLACEHOLDERS[name]


def decode_objset(text):
    """'K(Obj, False)' / 'Store(K(Obj, False), Obj!val!0, True)' ... -> set of placeholders"""
    import re
    if 'Lambda' in text or 'If(' in text:
        raise NotReplayable('identity set given by a lambda in the model')
    if not text.startswith(('K(Obj, False)', 'Store(')):
        raise NotReplayable('identity set is not finite in the model')
    members = {}
    for name, flag in re.findall(r'(Obj!val!\d+), (True|False)\)', text):
        members.setdefault(name, flag == 'True')      # innermost stores come first in the text
    # the outermost Store wins: scan from the right
    res = {}
    for name, flag in reversed(re.findall(r'(Obj!val!\d+), (True|False)\)', text)):
        res.setdefault(name, flag == 'True')
    return {placeholder(n) for n, f in res.items() if f}


def decode(v):
    if isinstance(v, dict):
        for mk in ABSTRACT_MARKERS:
            if mk in v:
                raise NotReplayable(f'witness component {mk} is abstract (heap / record mode)')
        if '$frac' in v:
            fr = fractions.Fraction(v['$frac'][0], v['$frac'][1])
            return float(fr)
        if '$namespace' in v:
            import types
            return types.SimpleNamespace(**{k: decode(x) for k, x in v['$namespace'].items()})
        if '$objset' in v:
            return decode_objset(v['$objset'])
        if '$obj' in v:
            return placeholder(v['$obj'])
        if '$dict' in v:
            return {k: decode(x) for k, x in v['$dict'].items()}
        if '$tuple' in v:
            return tuple(decode(x) for x in v['$tuple'])
        if '$list' in v:
            return [decode(x) for x in v['$list']]
        if '$ref' in v:
            return resolve(v['$ref'])
        if '$record' in v:
            fields = {k: decode(x) for k, x in v['fields'].items()}
            if v.get('build'):
                return resolve(v['build'])(**fields)
            cls = resolve(v['$record'])
            if getattr(decode, 'record_mode', False):
                # record mode: an instance carrying exactly the described fields
                obj = cls.__new__(cls)
                for k, x in fields.items():
                    object.__setattr__(obj, k, x)
                return obj
            try:
                return cls(**fields)
            except TypeError as e:
                raise NotReplayable(f'record {v["$record"]} has no native builder ({e})')
        if '$abstract' in v:
            # an abstract callable parameter: the sidecar's native stand-in native_<name>
            return getattr(decode.cmod, 'native_' + v['$abstract'], None) if getattr(decode, 'cmod', None) else None
        if '$nested_counter_element' in v:
            # abstract argument list: replay on a one-cell range holding the element for which the
            # pointwise obligation failed (plus a number, so that folds are non-trivial)
            ce = v['$nested_counter_element'] or {}
            return ((decode(ce.get('elem')), 1), (2, 3.5))
        if '$dyn' in v:
            return decode(v['$dyn'])
        return {k: decode(x) for k, x in v.items()}
    if isinstance(v, list):
        return [decode(x) for x in v]
    return v


def native_target(target):
    """'pycel.m:Class.method' -> callable taking (self, ...) positionally."""
    modname, qual = target.split(':')
    obj = importlib.import_module(modname)
    parts = qual.split('.')
    for p in parts:
        half = None
        if '@' in p:
            p, half = p.split('@')
        raw = None
        if isinstance(obj, type):
            raw = obj.__dict__.get(p)
            for base in obj.__mro__[1:]:
                if raw is None:
                    raw = base.__dict__.get(p)
        if raw is not None:
            if isinstance(raw, property):
                obj = raw.fset if half == 'setter' else raw.fget
            elif isinstance(raw, (staticmethod, classmethod)):
                obj = raw.__func__
            else:
                obj = raw
        else:
            obj = getattr(obj, p)
    return obj


def call_native(spec, args):
    cmod = importlib.import_module(spec['contract_module'])
    if spec.get('native_call'):
        return getattr(cmod, spec['native_call'])(*args)
    fn = native_target(spec['target'])
    return fn(*args)


def replay(spec):
    """Returns (reproduced: bool, observed: str)."""
    cmod = importlib.import_module(spec['contract_module'])
    decode.cmod = cmod
    names = spec['param_order']
    if spec['kind'] not in ('post', 'raises', 'lemma'):
        return None, f"not replayable natively: obligation kind {spec['kind']} (loop invariant / frame / call-site precondition)"
    decode.record_mode = bool(spec.get('record_mode'))
    if spec.get('record_mode') and spec.get('has_prepare'):
        return None, 'not replayable natively: the contract abstracts callees / prepares closure or ghost state at engine level'
    try:
        args = [decode(spec['args'][n]) for n in names]
        if not spec.get('native_call') and spec['kind'] != 'lemma':
            native_target(spec['target'])
    except NotReplayable as e:
        return None, f'not replayable natively: {e}'
    except AttributeError as e:
        return None, f'not replayable natively: target is not addressable from outside ({e})'
    kind = spec['kind']
    if kind == 'lemma':
        body = getattr(cmod, spec['clause'])
        try:
            ok = body(*args)
        except Exception as e:      # noqa: a raising lemma body is a failed lemma
            return True, f'lemma body raised {type(e).__name__}: {e}'
        return (not ok), f'lemma value {ok!r}'
    prior = spec['args'].get('$prior_call')
    if prior:
        # a memoising wrapper is modelled as "the body ran earlier on hash-equal
        # arguments": make that earlier call first
        pargs = [decode(prior[n]) if n in prior else a for n, a in zip(names, args)]
        try:
            call_native(spec, pargs)
        except Exception:
            pass
    restore = []
    call_args = args
    if spec.get('record_mode'):
        from . import recspec
        recspec.snapshot(args)
        fv = spec.get('free_vars') or []
        if fv:
            mod = importlib.import_module(spec['target'].split(':')[0])
            for n, a in zip(names, args):
                if n in fv:
                    restore.append((mod, n, getattr(mod, n, None)))
                    setattr(mod, n, a)
            call_args = [a for n, a in zip(names, args) if n not in fv]
    try:
        result = call_native(spec, call_args)
    except Exception as e:
        for mod, n, v in restore:
            setattr(mod, n, v)
        if kind == 'raises':
            allowed = spec.get('allowed_raises', {})
            for typ, clause in allowed.items():
                if any(c.__name__ == typ for c in type(e).__mro__):
                    if clause is None:
                        return False, f'raised allowed {type(e).__name__}'
                    ok = getattr(cmod, clause)(*args)
                    return (not ok), f'raised {type(e).__name__}, allowed-when clause = {ok!r}'
            return True, f'raised {type(e).__name__}: {e}'
        return True, f'raised {type(e).__name__}: {e} (contract expects a normal return)'
    for mod, n, v in restore:
        setattr(mod, n, v)
    if kind == 'raises':
        return False, f'returned {result!r} (no exception natively)'
    if kind in ('post',):
        clause = getattr(cmod, spec['clause'])
        try:
            ok = clause(*args, result)
        except Exception as e:
            if type(e).__name__ == 'NotNative':
                return None, f'not replayable natively: the clause uses {e}'
            return True, f'result {result!r}; clause raised {type(e).__name__}: {e}'
        return (not ok), f'result {result!r}; clause {spec["clause"]} = {ok!r}'
    if False:
        try:
            ok = True
        except Exception as e:
            return True, f'result {result!r}; clause raised {type(e).__name__}: {e}'
        return (not ok), f'result {result!r}; clause {spec["clause"]} = {ok!r}'
    if kind == 'pre@call':
        return False, 'call-site precondition: not replayable in isolation'
    return False, f'obligation kind {kind} has no native replay'


def main():
    path = sys.argv[1]
    repo = '/repo'
    if '--repo' in sys.argv:
        repo = sys.argv[sys.argv.index('--repo') + 1]
    here = os.path.dirname(os.path.dirname(os.path.abspath(__file__)))
    sys.path.insert(0, here)
    sys.path.insert(0, os.path.join(repo, 'src'))
    with open(path) as f:
        spec = json.load(f)
    try:
        reproduced, observed = replay(spec)
    except Exception:
        print('REPLAY-ERROR', traceback.format_exc())
        sys.exit(3)
    print(json.dumps({'reproduced': reproduced, 'observed': observed}))
    if reproduced:
        print(f"VIOLATION property={spec['property']} replay={path}")
        sys.exit(1)
    sys.exit(0)


if __name__ == '__main__':
    main()
