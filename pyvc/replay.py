"""Native replay of a counterexample on the real code.

Run as:  /venv/bin/python -m pyvc.replay <replay.json> [--repo /repo]
Exit 1 + 'VIOLATION property=<id> replay=<path>' when the failing obligation
is reproduced on the real code, exit 0 when the real code satisfies the clause
on that input (the counterexample was spurious through an abstraction).
"""
import builtins
import fractions
import importlib
import json
import os
import sys
import traceback


def resolve(target):
    modname, qual = target.split(':')
    if modname == 'builtins':
        return getattr(builtins, qual)
    obj = importlib.import_module(modname)
    for p in qual.split('.'):
        obj = getattr(obj, p)
    return obj


class NotReplayable(Exception):
    """the witness is over abstract state that has no concrete counterpart"""


ABSTRACT_MARKERS = ('$heap_compiler', '$node', '$value', '$heap_set', '$namespace', '$objset', '$obj', '$anyobj')


def decode(v):
    if isinstance(v, dict):
        for mk in ABSTRACT_MARKERS:
            if mk in v:
                raise NotReplayable(f'witness component {mk} is abstract (heap / record mode)')
        if '$frac' in v:
            fr = fractions.Fraction(v['$frac'][0], v['$frac'][1])
            return float(fr)
        if '$tuple' in v:
            return tuple(decode(x) for x in v['$tuple'])
        if '$list' in v:
            return [decode(x) for x in v['$list']]
        if '$ref' in v:
            return resolve(v['$ref'])
        if '$record' in v:
            fields = {k: decode(x) for k, x in v['fields'].items()}
            if v.get('build'):
                return resolve(v['build'])(**fields)
            cls = resolve(v['$record'])
            try:
                return cls(**fields)
            except TypeError as e:
                raise NotReplayable(f'record {v["$record"]} has no native builder ({e})')
        if '$abstract' in v:
            # an abstract callable parameter: the sidecar's native stand-in native_<name>
            return getattr(decode.cmod, 'native_' + v['$abstract'], None) if getattr(decode, 'cmod', None) else None
        if '$nested_counter_element' in v:
            # abstract argument list: replay on a one-cell range holding the element for which the
            # pointwise obligation failed (plus a number, so that folds are non-trivial)
            ce = v['$nested_counter_element'] or {}
            return ((decode(ce.get('elem')), 1), (2, 3.5))
        if '$dyn' in v:
            return decode(v['$dyn'])
        return {k: decode(x) for k, x in v.items()}
    if isinstance(v, list):
        return [decode(x) for x in v]
    return v


def native_target(target):
    """'pycel.m:Class.method' -> callable taking (self, ...) positionally."""
    modname, qual = target.split(':')
    obj = importlib.import_module(modname)
    parts = qual.split('.')
    for p in parts:
        raw = None
        if isinstance(obj, type):
            raw = obj.__dict__.get(p)
            for base in obj.__mro__[1:]:
                if raw is None:
                    raw = base.__dict__.get(p)
        if raw is not None:
            if isinstance(raw, property):
                obj = raw.fget
            elif isinstance(raw, (staticmethod, classmethod)):
                obj = raw.__func__
            else:
                obj = raw
        else:
            obj = getattr(obj, p)
    return obj


def call_native(spec, args):
    cmod = importlib.import_module(spec['contract_module'])
    if spec.get('native_call'):
        return getattr(cmod, spec['native_call'])(*args)
    fn = native_target(spec['target'])
    return fn(*args)


def replay(spec):
    """Returns (reproduced: bool, observed: str)."""
    cmod = importlib.import_module(spec['contract_module'])
    decode.cmod = cmod
    names = spec['param_order']
    try:
        args = [decode(spec['args'][n]) for n in names]
        if not spec.get('native_call') and spec['kind'] != 'lemma':
            native_target(spec['target'])
    except NotReplayable as e:
        return None, f'not replayable natively: {e}'
    except AttributeError as e:
        return None, f'not replayable natively: target is not addressable from outside ({e})'
    kind = spec['kind']
    if kind == 'lemma':
        body = getattr(cmod, spec['clause'])
        try:
            ok = body(*args)
        except Exception as e:      # noqa: a raising lemma body is a failed lemma
            return True, f'lemma body raised {type(e).__name__}: {e}'
        return (not ok), f'lemma value {ok!r}'
    prior = spec['args'].get('$prior_call')
    if prior:
        # a memoising wrapper is modelled as "the body ran earlier on hash-equal
        # arguments": make that earlier call first
        pargs = [decode(prior[n]) if n in prior else a for n, a in zip(names, args)]
        try:
            call_native(spec, pargs)
        except Exception:
            pass
    try:
        result = call_native(spec, args)
    except Exception as e:
        if kind == 'raises':
            allowed = spec.get('allowed_raises', {})
            for typ, clause in allowed.items():
                if any(c.__name__ == typ for c in type(e).__mro__):
                    if clause is None:
                        return False, f'raised allowed {type(e).__name__}'
                    ok = getattr(cmod, clause)(*args)
                    return (not ok), f'raised {type(e).__name__}, allowed-when clause = {ok!r}'
            return True, f'raised {type(e).__name__}: {e}'
        return True, f'raised {type(e).__name__}: {e} (contract expects a normal return)'
    if kind == 'raises':
        return False, f'returned {result!r} (no exception natively)'
    if kind in ('post',):
        clause = getattr(cmod, spec['clause'])
        try:
            ok = clause(*args, result)
        except Exception as e:
            return True, f'result {result!r}; clause raised {type(e).__name__}: {e}'
        return (not ok), f'result {result!r}; clause {spec["clause"]} = {ok!r}'
    if kind == 'pre@call':
        return False, 'call-site precondition: not replayable in isolation'
    return False, f'obligation kind {kind} has no native replay'


def main():
    path = sys.argv[1]
    repo = '/repo'
    if '--repo' in sys.argv:
        repo = sys.argv[sys.argv.index('--repo') + 1]
    here = os.path.dirname(os.path.dirname(os.path.abspath(__file__)))
    sys.path.insert(0, here)
    sys.path.insert(0, os.path.join(repo, 'src'))
    with open(path) as f:
        spec = json.load(f)
    try:
        reproduced, observed = replay(spec)
    except Exception:
        print('REPLAY-ERROR', traceback.format_exc())
        sys.exit(3)
    print(json.dumps({'reproduced': reproduced, 'observed': observed}))
    if reproduced:
        print(f"VIOLATION property={spec['property']} replay={path}")
        sys.exit(1)
    sys.exit(0)


if __name__ == '__main__':
    main()
