"""Heap mode hooks (abstract objects whose fields are SMT arrays).

The interpreter calls the try_* functions for values it does not know; they
return NOPE when the value is not a heap-mode value.
"""


class _Nope:
    def __repr__(self):
        return 'NOPE'


NOPE = _Nope()

HANDLERS = []     # heap-mode value classes register themselves here


def _dispatch(name, interp, obj, *rest):
    h = getattr(obj, 'hm_' + name, None)
    if h is None:
        return NOPE
    return h(interp, *rest)


def try_getattr(interp, obj, name, node):
    kind = getattr(obj, 'kind', None)
    if kind is not None and hasattr(kind, 'getattr'):
        return kind.getattr(interp, obj, name, node)
    return _dispatch('getattr', interp, obj, name, node)


def try_setattr(interp, obj, name, value, node):
    r = _dispatch('setattr', interp, obj, name, value, node)
    return r is not NOPE


def try_index(interp, obj, idx, node):
    return _dispatch('index', interp, obj, idx, node)


def try_store_index(interp, obj, idx, value, node):
    r = _dispatch('store_index', interp, obj, idx, value, node)
    return r is not NOPE


def try_delete_index(interp, obj, idx, node):
    r = _dispatch('delete_index', interp, obj, idx, node)
    return r is not NOPE


def try_iterate(interp, obj, node):
    return _dispatch('iterate', interp, obj, node)


def try_len(interp, obj, node):
    return _dispatch('len', interp, obj, node)


def try_float(interp, obj, node):
    return _dispatch('float', interp, obj, node)


def try_hasattr(interp, obj, name, node):
    return _dispatch('hasattr', interp, obj, name, node)


def truth_opaque(interp, v):
    return v.kind.truth(interp, v)


def eq_opaque(interp, a, b):
    from . import sym
    k = a.kind if isinstance(a, sym.SOpaque) else b.kind
    return k.eq(interp, a, b)


def is_none(interp, v):
    return v.kind.is_none(interp, v)


def isinstance_opaque(interp, v, t, node):
    return v.kind.isinstance(interp, v, t, node)
