"""Spec vocabulary of record mode (see records.py).  Symbolically these are engine built-ins; natively
they have no general meaning (`old` needs the entry snapshot), so record-mode contracts are not replayed
natively: a refuted obligation is reported with the solver's counter-model and `no-failing-input-found`
unless the sidecar supplies its own native reproduction."""


def _native(*a, **k):
    raise NotImplementedError('record-mode spec helper has no native meaning')


ghost_obj = old = ghost = old_ghost = is_member = set_empty = set_subset = same_set = set_is_added = same_obj = has_field = _native
