"""Spec vocabulary of record mode (see records.py).  Symbolically these are engine built-ins.  Natively (replay of a
counter-model on the real objects) `old(x)` answers from the snapshot the replay driver took before the call; ghost
counters / ghost objects have no native meaning (contracts that use them are not replayed)."""
import types

_OLD = {}


class NotNative(Exception):
    pass


def snapshot(objs):
    """structural copies of the mutable records reachable from objs; members of sets stay the same objects"""
    _OLD.clear()
    memo = {}

    def copy(x):
        if id(x) in memo:
            return memo[id(x)]
        if isinstance(x, (set, frozenset)):
            c = set(x)
        elif isinstance(x, dict):
            c = {k: copy(v) for k, v in x.items()}
        elif isinstance(x, list):
            c = [copy(v) for v in x]
        elif isinstance(x, types.SimpleNamespace) or (hasattr(x, '__dict__') and not isinstance(x, type)
                                                    and type(x).__module__.startswith('pycel')):
            c = types.SimpleNamespace()
            memo[id(x)] = c
            for k, v in vars(x).items():
                setattr(c, k, copy(v))
            return c
        else:
            return x
        memo[id(x)] = c
        return c
    for o in objs:
        copy(o)
    _OLD.update(memo)


def old(x):
    return _OLD.get(id(x), x)


def ghost(name):
    raise NotNative('ghost counter')


old_ghost = ghost_obj = ghost


def is_member(s, x):
    return any(x is y for y in s)


def set_empty(s):
    return len(s) == 0


def set_subset(a, b):
    return all(is_member(b, x) for x in a)


def same_set(a, b):
    return set_subset(a, b) and set_subset(b, a)


def set_is_added(new, old_, x):
    return is_member(new, x) and set_subset(old_, new) and all(y is x or is_member(old_, y) for y in new)


def same_obj(a, b):
    return a is b


def has_field(o, name):
    return hasattr(o, name)
