"""Symbolic arrays of unknown size (vectors and rectangular tables of dynamically typed cells).

An SArr has symbolic extents (z3 Int terms) and its cells are given by uninterpreted
functions of the index: TAG(i[,j]) selects the dynamic type, VI/VF/VS/VB give the payload.
Reading a cell at a symbolic index forks over the cell types (each path assumes the tag).
Derived arrays (comprehensions such as [row[0] for row in table]) are arrays whose element
function composes with the base one, so obligations about them stay pointwise.
"""
import z3

from . import sym
from .sym import (PathAbort, PyExc, SBool, SFloat, SInt, SStr, SV, Unsupported,
                  as_int_term, mk_bool, mk_int)

ERROR_CODES = ('#NULL!', '#DIV/0!', '#VALUE!', '#REF!', '#NAME?', '#NUM!', '#N/A')
ALTS = ('none', 'bool', 'int', 'float', 'str', 'err')
I = z3.IntSort()


def _ufs(name, arity):
    dom = [I] * arity
    return (z3.Function(f'TAG_{name}', *dom, I), z3.Function(f'VB_{name}', *dom, z3.BoolSort()),
            z3.Function(f'VI_{name}', *dom, I), z3.Function(f'VF_{name}', *dom, z3.RealSort()),
            z3.Function(f'VS_{name}', *dom, z3.StringSort()))


class SArr:
    def __init__(self, name, dims, fixed=(), elem=None, kind='tuple', arity=None, alts=ALTS):
        self.name = name
        self.dims = list(dims)
        self.fixed = tuple(fixed)
        self.elem = elem                  # callable(interp, [index terms]) -> value, for derived arrays
        self.kind = kind
        self.arity = arity if arity is not None else len(self.dims) + len(self.fixed)
        self.alts = alts

    def __repr__(self):
        return f'<array {self.name} dims={self.dims} fixed={self.fixed}>'

    # -- interpreter protocol ----------------------------------------------------------------------
    def hm_len(self, interp, node):
        return mk_int(self.dims[0])

    def length_term(self):
        return self.dims[0]

    def hm_index(self, interp, idx, node):
        if isinstance(idx, (SBool, bool)) or not isinstance(idx, (SInt, int)):
            interp.raise_exc('TypeError', 'indices must be integers', node)
        it = as_int_term(idx)
        n = self.dims[0]
        if interp.ex.branch(z3.Or(it >= n, it < -n)):
            interp.raise_exc('IndexError', 'index out of range', node)
        # decide the sign on the path (usually already known): keeps index terms syntactically simple
        pos = z3.simplify(it + n) if interp.ex.branch(it < 0) else z3.simplify(it)
        return self.at(interp, pos)

    def is_none_at(self, interp, idx, node):
        """`self[idx] is None` decided by a two-way fork on the cell's type tag (blank / not blank) instead of
        reading the cell (a six-way fork over its type); None when this array is not a plain vector of cells"""
        if len(self.dims) != 1 or self.elem is not None or isinstance(idx, (SBool, bool)) or \
                not isinstance(idx, (SInt, int)):
            return None
        it = as_int_term(idx)
        n = self.dims[0]
        ex = interp.ex
        if ex.branch(z3.Or(it >= n, it < -n)):
            interp.raise_exc('IndexError', 'index out of range', node)
        pos = z3.simplify(it + n) if ex.branch(it < 0) else z3.simplify(it)
        idxs = self.fixed + (pos,)
        for (pname, pidx, pval) in ex.cell_reads:
            if pname == self.name and len(pidx) == len(idxs) and all(a.eq(b) for a, b in zip(pidx, idxs)):
                return pval is None
        TAG = _ufs(self.name, self.arity)[0]
        tag = TAG(*idxs)
        ex.add_axiom(z3.And(tag >= 0, tag < len(ALTS)))
        for k, alt in enumerate(ALTS):
            if alt not in self.alts:
                ex.add_axiom(tag != k)
        return ex.branch(tag == ALTS.index('none'))

    def at(self, interp, pos):
        """cell / sub-array at an index term known to be within bounds"""
        r = self._at(interp, pos)
        import os
        if os.environ.get('PYVC_DEBUG') == 'at':
            print('AT', self.name, self.dims and str(self.dims[0])[:30].replace(chr(10), ' '), '->',
                  getattr(r, 'name', repr(r)[:30]))
        return r

    def _at(self, interp, pos):
        fixed = self.fixed + (pos,)
        if len(self.dims) > 1:
            return SArr(self.name, self.dims[1:], fixed, self.elem, self.kind, self.arity, self.alts)
        if self.elem is not None:
            return self.elem(interp, list(fixed))
        return base_cell(interp, self.name, self.arity, fixed, self.alts)

    def hm_iterate(self, interp, node):
        n = z3.simplify(self.dims[0])
        if z3.is_int_value(n):
            return [self.at(interp, z3.IntVal(k)) for k in range(n.as_long())]
        raise Unsupported('iteration over an array of symbolic length (needs a loop invariant)', node)

    def hm_getattr(self, interp, name, node):
        raise Unsupported(f'attribute {name} of a symbolic array', node)

    def map(self, f, label=''):
        """derived array: element i is f(self[i])"""
        base = self

        def elem(interp, idxs):
            return f(interp, base.at(interp, idxs[0]))
        return SArr(self.name + (f'|{label}' if label else ''), [self.dims[0]], (), elem, 'list', 1, self.alts)


def derived(length, elem, kind='tuple', label='derived'):
    """1-level array given by a length term and an element function of one index term"""
    return SArr(label, [z3.simplify(length)], (), lambda interp, idxs: elem(interp, idxs[0]), kind, 1)


def as_array(interp, v):
    """SArr view of a concrete tuple/list (of possibly symbolic items)"""
    if isinstance(v, SArr):
        return v
    items = list(v)

    def elem(i, idx):
        for k, x in enumerate(items[:-1]):
            if i.ex.branch(idx == k):
                return x
        return items[-1]
    return derived(z3.IntVal(len(items)), elem, 'tuple' if isinstance(v, tuple) else 'list', 'const')


def seq_repeat(interp, seq, k):
    """seq * k"""
    a = as_array(interp, seq)
    kt = as_int_term(k)
    n = a.dims[0]
    length = z3.If(z3.And(kt > 0, n > 0), kt * n, z3.IntVal(0))
    if isinstance(seq, (tuple, list)) and len(seq) == 1:
        item = seq[0]
        return derived(length, lambda i, idx: item, a.kind, f'repeat1[{type(item).__name__}]')
    def elem(i, idx):
        if i.ex.branch(n == 1):
            return a.at(i, z3.IntVal(0))          # a single item repeated: no modulo in the index term
        return a.at(i, z3.simplify(idx % n))
    return derived(length, elem, a.kind, 'repeat')


def seq_concat(interp, a, b):
    a = as_array(interp, a)
    b = as_array(interp, b)
    n1 = a.dims[0]

    def elem(i, idx):
        if i.ex.branch(idx < n1):
            return a.at(i, idx)
        return b.at(i, z3.simplify(idx - n1))
    return derived(n1 + b.dims[0], elem, a.kind, 'concat')


def seq_slice(interp, a, lo, hi, node):
    n = a.dims[0]
    start, stop = interp.clamp_slice(n, lo, hi)
    ln = z3.simplify(z3.If(stop > start, stop - start, z3.IntVal(0)))
    start = z3.simplify(start)
    return derived(ln, lambda i, idx: a.at(i, z3.simplify(start + idx)), a.kind, 'slice')


def base_cell(interp, name, arity, idxs, alts=ALTS):
    """The dynamically typed cell at the given index terms: forks over the cell type."""
    TAG, VB, VI, VF, VS = _ufs(name, arity)
    ex = interp.ex
    # the same cell read twice on a path (possibly through differently written index terms) is the
    # same value: reuse the earlier read when the path condition forces the indices to coincide
    for (pname, pidx, pval) in ex.cell_reads:
        if pname == name and len(pidx) == len(idxs):
            if all(a.eq(b) for a, b in zip(pidx, idxs)):
                return pval
            diff = z3.Or(*[a != b for a, b in zip(pidx, idxs)])
            if ex._check(diff) == z3.unsat:
                return pval
    val = _fork_cell(ex, TAG, VB, VI, VF, VS, idxs, alts)
    ex.cell_reads.append((name, tuple(idxs), val))
    return val


def _fork_cell(ex, TAG, VB, VI, VF, VS, idxs, alts):
    tag = TAG(*idxs)
    ex.add_axiom(z3.And(tag >= 0, tag < len(ALTS)))
    for k, alt in enumerate(ALTS):
        if alt not in alts:
            ex.add_axiom(tag != k)
    chosen = None
    live = [k for k, alt in enumerate(ALTS) if alt in alts]
    for k in live[:-1]:
        if ex.branch(tag == k):
            chosen = k
            break
    if chosen is None:
        chosen = live[-1]
        ex.assume(tag == chosen)
    alt = ALTS[chosen]
    if alt == 'none':
        return None
    if alt == 'bool':
        return sym.mk_bool(VB(*idxs))
    if alt == 'int':
        return mk_int(VI(*idxs))
    if alt == 'float':
        return sym.mk_float(VF(*idxs))
    s = VS(*idxs)
    if alt == 'str':
        for c in ERROR_CODES:
            ex.add_axiom(s != z3.StringVal(c))
    else:
        ex.add_axiom(z3.Or(*[s == z3.StringVal(c) for c in ERROR_CODES]))
    return sym.mk_str(s)


def comprehension_over_array(interp, node, env, arr):
    from .interp import Env
    if len(node.generators) != 1 or node.generators[0].ifs:
        raise Unsupported('filtering / nested comprehension over a symbolic array', node)
    g = node.generators[0]
    # the comprehension is materialised lazily (per element): freeze the local bindings now, as an
    # eager python comprehension would have used them
    env = Env(dict(env.vars), env.parent, env.module)

    def f(i, v):
        cenv = Env({}, env, env.module)
        i.assign(g.target, v, cenv)
        return i.eval(node.elt, cenv)
    return arr.map(f, f'comp@{node.lineno}')


def build_array(world, dom, name):
    """S.Array / S.Table domain -> SArr and a decoder reading it out of a model."""
    from .vc import Decoder
    ex = world.explorer
    dims = []
    for d in range(dom.ndim):
        n = z3.Int(f'{name}.n{d}')
        ex.assume(n >= dom.min_len)
        if dom.max_len is not None:
            ex.assume(n <= dom.max_len)
        dims.append(n)
    arr = SArr(name, dims, (), None, dom.kind, dom.ndim, dom.alts)

    def dec(m):
        TAG, VB, VI, VF, VS = _ufs(name, dom.ndim)
        sizes = [min(m.eval(n, model_completion=True).as_long(), 8) for n in dims]

        def cell(idx):
            ix = [z3.IntVal(i) for i in idx]
            t = m.eval(TAG(*ix), model_completion=True).as_long()
            alt = ALTS[t] if 0 <= t < len(ALTS) else 'none'
            if alt == 'none':
                return None
            if alt == 'bool':
                return bool(z3.is_true(m.eval(VB(*ix), model_completion=True)))
            if alt == 'int':
                return m.eval(VI(*ix), model_completion=True).as_long()
            if alt == 'float':
                v = m.eval(VF(*ix), model_completion=True)
                return {'$frac': [v.numerator_as_long(), v.denominator_as_long()], '$float': True}
            s = m.eval(VS(*ix), model_completion=True).as_string()
            return s

        def rec(prefix, d):
            if d == len(sizes):
                return cell(prefix)
            return {'$tuple': [rec(prefix + [i], d + 1) for i in range(sizes[d])]}
        return rec([], 0)
    d_ = Decoder(dec)
    d_.small = list(dims)        # sizes to be kept small when looking for a replayable witness
    return arr, d_


class SAbstractKey:
    """see spec.AbstractKey: `key < v` is LT_<type>(payload of v), an uninterpreted predicate per value type"""

    def __init__(self, name):
        self.name = name

    def __repr__(self):
        return f'<abstract key {self.name}>'

    def lt(self, interp, other, node):
        from .sym import SFloat, SStr, as_real_term, str_term
        B = z3.BoolSort()
        n = self.name
        if other is None:
            return mk_bool(z3.Const(f'LT_{n}_none', B))
        if isinstance(other, (bool, SBool)):
            t = other.t if isinstance(other, SBool) else z3.BoolVal(other)
            return mk_bool(z3.Function(f'LT_{n}_bool', B, B)(t))
        if isinstance(other, (int, SInt)):
            return mk_bool(z3.Function(f'LT_{n}_int', I, B)(as_int_term(other)))
        if isinstance(other, (float, SFloat)):
            return mk_bool(z3.Function(f'LT_{n}_float', z3.RealSort(), B)(as_real_term(other)))
        if isinstance(other, (str, SStr)):
            return mk_bool(z3.Function(f'LT_{n}_str', z3.StringSort(), B)(str_term(other)))
        raise Unsupported(f'abstract key compared with {type(other).__name__}', node)
