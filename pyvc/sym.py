"""Symbolic value layer of pyvc.

Concrete Python values (int, str, bool, None, float, tuple, list, dict,
frozenset) are used as they are; a value becomes an SV only when it depends on
a symbolic input.  Concrete-length sequences of symbolic values are ordinary
Python tuples/lists whose items may be SVs.
"""
import fractions

import z3


class Unsupported(Exception):
    """The construct is outside the accepted subset: function is out of reach."""

    def __init__(self, what, node=None):
        line = getattr(node, 'lineno', None)
        super().__init__(f'{what}@{line}')
        self.what = what
        self.line = line


class PyExc(Exception):
    """An exception raised by the *interpreted* code."""

    def __init__(self, typ, msg='', line=None):
        super().__init__(f'{typ}: {msg}')
        self.typ = typ
        self.msg = msg
        self.line = line


class PathAbort(Exception):
    """Current path is infeasible (assumption false)."""


EXC_PARENTS = {
    'BaseException': None,
    'Exception': 'BaseException',
    'ArithmeticError': 'Exception',
    'ZeroDivisionError': 'ArithmeticError',
    'OverflowError': 'ArithmeticError',
    'LookupError': 'Exception',
    'IndexError': 'LookupError',
    'KeyError': 'LookupError',
    'ValueError': 'Exception',
    'TypeError': 'Exception',
    'AttributeError': 'Exception',
    'AssertionError': 'Exception',
    'StopIteration': 'Exception',
    'RuntimeError': 'Exception',
    'RecursionError': 'RuntimeError',
    'NotImplementedError': 'RuntimeError',
    'NameError': 'Exception',
    'PyCelException': 'Exception',
    'UnknownFunction': 'PyCelException',
    'FormulaParserError': 'PyCelException',
    'FormulaEvalError': 'PyCelException',
    'InvalidOperation': 'ArithmeticError',
}


def exc_isinstance(typ, parent):
    while typ is not None:
        if typ == parent:
            return True
        typ = EXC_PARENTS.get(typ, 'Exception' if typ not in EXC_PARENTS else None)
    return False


class SV:
    __slots__ = ('t',)

    def __init__(self, t):
        self.t = t

    def __repr__(self):
        return f'{type(self).__name__}({self.t})'

    # guard against accidental native use
    def __bool__(self):
        raise Unsupported(f'native truth test of symbolic value {self!r}')

    def __eq__(self, other):
        return self is other

    def __hash__(self):
        return id(self)


class SInt(SV):
    __slots__ = ()


class SBool(SV):
    __slots__ = ()


class SFloat(SV):
    __slots__ = ()


class SStr(SV):
    __slots__ = ()


class SComplex(SV):
    """A value known to be a Python complex (no arithmetic modelled)."""
    __slots__ = ()


class SOpaque(SV):
    """A value of an uninterpreted sort (heap mode: cell values, nodes)."""
    __slots__ = ('kind',)

    def __init__(self, t, kind):
        self.t = t
        self.kind = kind


def is_sym(v):
    return isinstance(v, SV)


def any_sym(*vs):
    return any(isinstance(v, SV) for v in vs)


def real_val(f):
    if isinstance(f, float):
        fr = fractions.Fraction(f)
        return z3.RealVal(f'{fr.numerator}/{fr.denominator}')
    return z3.RealVal(f)


def lift(v):
    """Concrete scalar -> SV."""
    if isinstance(v, SV):
        return v
    if isinstance(v, bool):
        return SBool(z3.BoolVal(v))
    if isinstance(v, int):
        return SInt(z3.IntVal(v))
    if isinstance(v, float):
        return SFloat(real_val(v))
    if isinstance(v, str):
        return SStr(z3.StringVal(v))
    raise Unsupported(f'lift of {type(v).__name__}')


def as_int_term(v):
    """int-like (int/bool, concrete or symbolic) -> z3 Int term."""
    if isinstance(v, SInt):
        return v.t
    if isinstance(v, SBool):
        return z3.If(v.t, z3.IntVal(1), z3.IntVal(0))
    if isinstance(v, bool):
        return z3.IntVal(int(v))
    if isinstance(v, int):
        return z3.IntVal(v)
    raise Unsupported(f'as_int_term of {v!r}')


def as_real_term(v):
    if isinstance(v, SFloat):
        return v.t
    if isinstance(v, float):
        return real_val(v)
    return z3.ToReal(as_int_term(v))


def is_intlike(v):
    return isinstance(v, (SInt, SBool, int))  # bool is int


def is_numlike(v):
    return isinstance(v, (SInt, SBool, SFloat, int, float))


def is_strlike(v):
    return isinstance(v, (SStr, str))


def is_floatlike(v):
    return isinstance(v, (SFloat, float))


def str_term(v):
    if isinstance(v, SStr):
        return v.t
    if isinstance(v, str):
        return z3.StringVal(v)
    raise Unsupported(f'str_term of {v!r}')


def simp(t):
    return z3.simplify(t)


def mk_int(t):
    t = z3.simplify(t)
    if z3.is_int_value(t):
        return t.as_long()
    return SInt(t)


def mk_bool(t):
    t = z3.simplify(t)
    if z3.is_true(t):
        return True
    if z3.is_false(t):
        return False
    return SBool(t)


def mk_str(t):
    t = z3.simplify(t)
    if z3.is_string_value(t):
        return t.as_string()
    return SStr(t)


def mk_float(t):
    t = z3.simplify(t)
    return SFloat(t)


_FLOOR_CACHE = {}


def _rat(t):
    return fractions.Fraction(t.numerator_as_long(), t.denominator_as_long())


def _ite_leaves(t, limit=32):
    """[(conditions, ite-free term)] by distributing arithmetic over if-then-else."""
    if not z3.is_app(t):
        return [([], t)]
    k = t.decl().kind()
    if k == z3.Z3_OP_ITE:
        c, a, b = t.children()
        out = [([c] + cs, x) for cs, x in _ite_leaves(a, limit)] + \
              [([z3.Not(c)] + cs, x) for cs, x in _ite_leaves(b, limit)]
        return out if len(out) <= limit else [([], t)]
    if k in (z3.Z3_OP_ADD, z3.Z3_OP_MUL, z3.Z3_OP_SUB, z3.Z3_OP_UMINUS, z3.Z3_OP_DIV, z3.Z3_OP_TO_REAL):
        parts = [_ite_leaves(ch, limit) for ch in t.children()]
        if all(len(p) == 1 for p in parts):
            return [([], t)]
        combos = [([], [])]
        for p in parts:
            combos = [(cs + cs2, xs + [x]) for cs, xs in combos for cs2, x in p]
            if len(combos) > limit:
                return [([], t)]
        return [(cs, t.decl()(*xs)) for cs, xs in combos]
    return [([], t)]


def _as_scaled_int(t):
    """t == scale * ToReal(i) + offset  with rational scale/offset -> (i, scale, offset) or None."""
    t = z3.simplify(t)
    if z3.is_rational_value(t):
        return (None, fractions.Fraction(0), _rat(t))
    if not z3.is_app(t):
        return None
    k = t.decl().kind()
    if k == z3.Z3_OP_TO_REAL:
        return (t.arg(0), fractions.Fraction(1), fractions.Fraction(0))
    if k == z3.Z3_OP_UMINUS:
        r = _as_scaled_int(t.arg(0))
        return None if r is None else (r[0], -r[1], -r[2])
    if k == z3.Z3_OP_MUL and t.num_args() == 2:
        a, b = t.children()
        if z3.is_rational_value(b):
            a, b = b, a
        if z3.is_rational_value(a):
            r = _as_scaled_int(b)
            return None if r is None else (r[0], r[1] * _rat(a), r[2] * _rat(a))
        return None
    if k == z3.Z3_OP_DIV:
        a, b = t.children()
        if z3.is_rational_value(b) and _rat(b) != 0:
            r = _as_scaled_int(a)
            return None if r is None else (r[0], r[1] / _rat(b), r[2] / _rat(b))
        return None
    if k == z3.Z3_OP_ADD:
        cur = (None, fractions.Fraction(0), fractions.Fraction(0))
        for ch in t.children():
            r = _as_scaled_int(ch)
            if r is None:
                return None
            if r[0] is not None:
                if cur[0] is not None:
                    return None
                cur = (r[0], r[1], cur[2] + r[2])
            else:
                cur = (cur[0], cur[1], cur[2] + r[2])
        return cur
    return None


def _floor_leaf(ex, t):
    t = z3.simplify(t)
    if z3.is_rational_value(t):
        fr = _rat(t)
        return z3.IntVal(fr.numerator // fr.denominator)
    r = _as_scaled_int(t)
    if r is not None and r[0] is not None:
        i, scale, off = r
        # floor((p*i)/q + a/b) = floor((p*b*i + a*q) / (q*b)) : integer division by a positive constant
        den = scale.denominator * off.denominator
        num = scale.numerator * off.denominator * i + off.numerator * scale.denominator
        if den == 1:
            return z3.simplify(num)
        return z3.simplify(num / z3.IntVal(den))        # z3 Int division by a positive constant = floor
    if _has_symbolic_division(t):
        # nonlinear: z3's built-in to_int does better here than a definitional variable
        return z3.ToInt(t)
    cache = ex.floor_cache
    key = t.get_id()
    hit = cache.get(key)
    if hit is not None and hit[0].eq(t):
        k = hit[1]
    else:
        # deterministic name: position in this path (re-executions agree)
        name = f'{ex.prefix}floor!{len(cache) + 1}'
        k = z3.Int(name)
        cache[key] = (t, k)
        FLOOR_DEFS[name] = (t, k)
    ex.add_axiom(z3.And(z3.ToReal(k) <= t, t < z3.ToReal(k) + 1))
    # floor(x / s) with a non-constant divisor: the same fact multiplied out (no division),
    # which turns bracket obligations into linear reasoning over the products
    if z3.is_app(t) and t.decl().kind() == z3.Z3_OP_DIV and not z3.is_rational_value(t.arg(1)):
        x, d = t.arg(0), t.arg(1)
        kr = z3.ToReal(k)
        ex.add_axiom(z3.Implies(d > 0, z3.And(d * kr <= x, x < d * kr + d)))
        ex.add_axiom(z3.Implies(d < 0, z3.And(d * kr >= x, x > d * kr + d)))
    return k


def _has_symbolic_division(t):
    todo = [t]
    seen = 0
    while todo and seen < 200:
        x = todo.pop()
        seen += 1
        if z3.is_app(x):
            if x.decl().kind() == z3.Z3_OP_DIV and not z3.is_rational_value(x.arg(1)):
                return True
            if x.decl().kind() == z3.Z3_OP_MUL and sum(1 for a in x.children() if not z3.is_rational_value(a)) > 1:
                return True
            todo.extend(x.children())
    return False


def _factors(t):
    """flattened multiplicative factors of t (through nested * and unary minus)"""
    t = z3.simplify(t)
    if z3.is_app(t):
        k = t.decl().kind()
        if k == z3.Z3_OP_MUL:
            out = []
            for a in t.children():
                out.extend(_factors(a))
            return out
        if k == z3.Z3_OP_UMINUS:
            return [z3.RealVal(-1)] + _factors(t.arg(0))
    return [t]


def _push_to_real(t):
    """to_real(ite(c, a, b)) -> ite(c, to_real(a), to_real(b)); to_real(-a) -> -to_real(a)"""
    if z3.is_app(t) and t.decl().kind() == z3.Z3_OP_TO_REAL:
        a = t.arg(0)
        if z3.is_app(a) and a.decl().kind() == z3.Z3_OP_ITE:
            return z3.If(a.arg(0), _push_to_real(z3.ToReal(a.arg(1))), _push_to_real(z3.ToReal(a.arg(2))))
        if z3.is_app(a) and a.decl().kind() == z3.Z3_OP_UMINUS:
            return -_push_to_real(z3.ToReal(a.arg(0)))
        if z3.is_app(a) and a.decl().kind() == z3.Z3_OP_MUL and a.num_args() == 2 and z3.is_int_value(a.arg(0)):
            return z3.RealVal(a.arg(0).as_long()) * _push_to_real(z3.ToReal(a.arg(1)))
    return t


def _direct_multiple(rt, st):
    need = [f for f in _factors(st) if not (z3.is_rational_value(f) and abs(_rat(f)) == 1)]
    have = _factors(rt)
    for f in need:
        for i, h in enumerate(have):
            if h.eq(f):
                del have[i]
                break
        else:
            return False
    return all(_is_integral(h) for h in have)


def is_int_multiple(rt, st, depth=0):
    """Syntactic: is the Real term rt of the form (+/-) st * <integral factors> (through ite)?"""
    rt = _push_to_real(z3.simplify(rt))
    st = _push_to_real(z3.simplify(st))
    if z3.is_rational_value(rt) and rt.numerator_as_long() == 0:
        return True
    if not z3.is_app(rt) or depth > 8:
        return False
    if _direct_multiple(rt, st):
        return True
    if rt.decl().kind() == z3.Z3_OP_ITE:
        return is_int_multiple(rt.arg(1), st, depth + 1) and is_int_multiple(rt.arg(2), st, depth + 1)
    if z3.is_app(st) and st.decl().kind() == z3.Z3_OP_ITE:
        return is_int_multiple(rt, st.arg(1), depth + 1) and is_int_multiple(rt, st.arg(2), depth + 1)
    return False


def _is_integral(t):
    t = z3.simplify(t)
    if z3.is_rational_value(t):
        return t.denominator_as_long() == 1
    if z3.is_app(t):
        k = t.decl().kind()
        if k == z3.Z3_OP_TO_REAL:
            return True
        if k in (z3.Z3_OP_ITE,):
            return _is_integral(t.arg(1)) and _is_integral(t.arg(2))
        if k in (z3.Z3_OP_MUL, z3.Z3_OP_ADD, z3.Z3_OP_UMINUS, z3.Z3_OP_SUB):
            return all(_is_integral(a) for a in t.children())
    return False


FLOOR_DEFS = {}      # name -> (term, var) of the path being executed (latest definition wins)


def floor_int(ex, t):
    """floor of a Real term as an Int term.

    to_int/ite nests time out in z3 and cvc5, so: (1) if-then-else is distributed
    to the outside, (2) a leaf of the form (p/q)*to_real(i) + c becomes an integer
    division by a positive constant (pure LIA), (3) any other leaf gets a fresh
    integer k with the definitional axiom k <= t < k+1."""
    t = z3.simplify(t)
    leaves = _ite_leaves(t)
    if len(leaves) == 1:
        return _floor_leaf(ex, leaves[0][1])
    out = None
    for conds, leaf in reversed(leaves):
        fl = _floor_leaf(ex, leaf)
        if out is None:
            out = fl
        else:
            out = z3.If(z3.And(*conds) if len(conds) > 1 else conds[0], fl, out)
    return z3.simplify(out)
