"""Symbolic value layer of pyvc.

Concrete Python values (int, str, bool, None, float, tuple, list, dict,
frozenset) are used as they are; a value becomes an SV only when it depends on
a symbolic input.  Concrete-length sequences of symbolic values are ordinary
Python tuples/lists whose items may be SVs.
"""
import fractions

import z3


class Unsupported(Exception):
    """The construct is outside the accepted subset: function is out of reach."""

    def __init__(self, what, node=None):
        line = getattr(node, 'lineno', None)
        super().__init__(f'{what}@{line}')
        self.what = what
        self.line = line


class PyExc(Exception):
    """An exception raised by the *interpreted* code."""

    def __init__(self, typ, msg='', line=None):
        super().__init__(f'{typ}: {msg}')
        self.typ = typ
        self.msg = msg
        self.line = line


class PathAbort(Exception):
    """Current path is infeasible (assumption false)."""


EXC_PARENTS = {
    'BaseException': None,
    'Exception': 'BaseException',
    'ArithmeticError': 'Exception',
    'ZeroDivisionError': 'ArithmeticError',
    'OverflowError': 'ArithmeticError',
    'LookupError': 'Exception',
    'IndexError': 'LookupError',
    'KeyError': 'LookupError',
    'ValueError': 'Exception',
    'TypeError': 'Exception',
    'AttributeError': 'Exception',
    'AssertionError': 'Exception',
    'StopIteration': 'Exception',
    'RuntimeError': 'Exception',
    'RecursionError': 'RuntimeError',
    'NotImplementedError': 'RuntimeError',
    'NameError': 'Exception',
    'PyCelException': 'Exception',
    'UnknownFunction': 'PyCelException',
    'FormulaParserError': 'PyCelException',
    'FormulaEvalError': 'PyCelException',
    'InvalidOperation': 'ArithmeticError',
}


def exc_isinstance(typ, parent):
    while typ is not None:
        if typ == parent:
            return True
        typ = EXC_PARENTS.get(typ, 'Exception' if typ not in EXC_PARENTS else None)
    return False


class SV:
    __slots__ = ('t',)

    def __init__(self, t):
        self.t = t

    def __repr__(self):
        return f'{type(self).__name__}({self.t})'

    # guard against accidental native use
    def __bool__(self):
        raise Unsupported(f'native truth test of symbolic value {self!r}')

    def __eq__(self, other):
        return self is other

    def __hash__(self):
        return id(self)


class SInt(SV):
    __slots__ = ()


class SBool(SV):
    __slots__ = ()


class SFloat(SV):
    __slots__ = ()


class SStr(SV):
    __slots__ = ()


class SComplex(SV):
    """A value known to be a Python complex (no arithmetic modelled)."""
    __slots__ = ()


class SOpaque(SV):
    """A value of an uninterpreted sort (heap mode: cell values, nodes)."""
    __slots__ = ('kind',)

    def __init__(self, t, kind):
        self.t = t
        self.kind = kind


def is_sym(v):
    return isinstance(v, SV)


def any_sym(*vs):
    return any(isinstance(v, SV) for v in vs)


def real_val(f):
    if isinstance(f, float):
        fr = fractions.Fraction(f)
        return z3.RealVal(f'{fr.numerator}/{fr.denominator}')
    return z3.RealVal(f)


def lift(v):
    """Concrete scalar -> SV."""
    if isinstance(v, SV):
        return v
    if isinstance(v, bool):
        return SBool(z3.BoolVal(v))
    if isinstance(v, int):
        return SInt(z3.IntVal(v))
    if isinstance(v, float):
        return SFloat(real_val(v))
    if isinstance(v, str):
        return SStr(z3.StringVal(v))
    raise Unsupported(f'lift of {type(v).__name__}')


def as_int_term(v):
    """int-like (int/bool, concrete or symbolic) -> z3 Int term."""
    if isinstance(v, SInt):
        return v.t
    if isinstance(v, SBool):
        return z3.If(v.t, z3.IntVal(1), z3.IntVal(0))
    if isinstance(v, bool):
        return z3.IntVal(int(v))
    if isinstance(v, int):
        return z3.IntVal(v)
    raise Unsupported(f'as_int_term of {v!r}')


def as_real_term(v):
    if isinstance(v, SFloat):
        return v.t
    if isinstance(v, float):
        return real_val(v)
    return z3.ToReal(as_int_term(v))


def is_intlike(v):
    return isinstance(v, (SInt, SBool, int))  # bool is int


def is_numlike(v):
    return isinstance(v, (SInt, SBool, SFloat, int, float))


def is_strlike(v):
    return isinstance(v, (SStr, str))


def is_floatlike(v):
    return isinstance(v, (SFloat, float))


def str_term(v):
    if isinstance(v, SStr):
        return v.t
    if isinstance(v, str):
        return z3.StringVal(v)
    raise Unsupported(f'str_term of {v!r}')


def simp(t):
    return z3.simplify(t)


def mk_int(t):
    t = z3.simplify(t)
    if z3.is_int_value(t):
        return t.as_long()
    return SInt(t)


def mk_bool(t):
    t = z3.simplify(t)
    if z3.is_true(t):
        return True
    if z3.is_false(t):
        return False
    return SBool(t)


def mk_str(t):
    t = z3.simplify(t)
    if z3.is_string_value(t):
        return t.as_string()
    return SStr(t)


def mk_float(t):
    t = z3.simplify(t)
    return SFloat(t)
