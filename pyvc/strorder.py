"""String order as an abstract strict total order (opt-in per contract: abstract_str_order=True).

z3's sequence solver makes every query of a path slow (0.3 - 1 s, often `unknown`) once one `str.<` between
symbolic texts is in the path condition.  Code that only relies on `<` being a strict total order (binary search,
linear scans for the first / largest / smallest key) is proved against the uninterpreted predicate STRLT with the
ground instances of the order axioms for the texts compared on the path:

    not STRLT(a, a);  STRLT(a, b) -> not STRLT(b, a);  a != b -> STRLT(a, b) or STRLT(b, a);
    STRLT(a, b) and STRLT(b, c) -> STRLT(a, c);  two literals: their real order.

Every instance is true of the real order (SMT-LIB str.<, A-STRORDER), so `unsat` under the abstraction is `unsat`
for the real order.  A `sat` / `unknown` under the abstraction proves nothing: the query is asked again with
STRLT replaced by str.< (vc.check_valid), and only that answer is reported.
"""
import z3

S = z3.StringSort()
STRLT = z3.Function('STRLT', S, S, z3.BoolSort())
MAX_TERMS = 12


def abstract_lt(ex, ta, tb):
    ta, tb = z3.simplify(ta), z3.simplify(tb)
    terms = ex.str_cmp_terms
    for t in (ta, tb):
        if any(t.eq(u) for u in terms):
            continue
        ex.add_axiom(z3.Not(STRLT(t, t)))
        for u in terms:
            if z3.is_string_value(t) and z3.is_string_value(u):
                x, y = t.as_string(), u.as_string()
                ex.add_axiom(STRLT(t, u) == z3.BoolVal(x < y))
                ex.add_axiom(STRLT(u, t) == z3.BoolVal(y < x))
                continue
            ex.add_axiom(z3.Implies(STRLT(t, u), z3.Not(STRLT(u, t))))
            ex.add_axiom(z3.Implies(t != u, z3.Or(STRLT(t, u), STRLT(u, t))))
            ex.add_axiom(z3.Implies(t == u, z3.And(z3.Not(STRLT(t, u)), z3.Not(STRLT(u, t)))))
        if len(terms) < MAX_TERMS:
            for i, u in enumerate(terms):
                for v in terms[i + 1:]:
                    for (p, q, r) in ((t, u, v), (t, v, u), (u, t, v), (v, t, u), (u, v, t), (v, u, t)):
                        ex.add_axiom(z3.Implies(z3.And(STRLT(p, q), STRLT(q, r)), STRLT(p, r)))
        terms.append(t)
    return STRLT(ta, tb)


def concretize(t):
    """STRLT(a, b) -> str.<(a, b)"""
    return z3.substitute_funs(t, (STRLT, z3.Var(0, S) < z3.Var(1, S)))


def mentions(t):
    from .explorer import symbols_of
    return 'STRLT' in symbols_of(t)
