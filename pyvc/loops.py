"""Loops cut at sidecar invariants.

for x in <abstract set>  (e.g. dep_graph.successors(cell)):
    the contract supplies invariants over the current heap and the ghost set done(k) of
    members already visited.  Obligations: inv-init (done = {}), inv-keep (one arbitrary
    member not yet done, body executed once from a havocked heap satisfying the
    invariant), and the code after the loop continues from a havocked heap satisfying the
    invariant with done = all members.
"""
import ast

import z3

from . import heapmodel as HM
from .sym import PathAbort, Unsupported


def loop_ordinal(func_node, loop_node):
    k = 0
    for n in ast.walk(func_node):
        if isinstance(n, (ast.For, ast.While)):
            if n is loop_node:
                return k
            k += 1
    return None


def run_invariant_loop(interp, vr, node, env, it, invariants, force):
    from .vc import PathDone
    c = vr.active
    e = env
    while e is not None and getattr(e, 'func', None) is None:
        e = e.parent
    fnode = e.func.node if e is not None else None
    k = loop_ordinal(fnode, node) if fnode is not None else None
    invs = invariants.get(k)
    if invs is None:
        return False
    if not isinstance(it, HM.SAbstractSet):
        raise Unsupported('invariant loops are implemented for abstract sets (graph neighbours) only', node)
    if node.orelse:
        raise Unsupported('for/else with an invariant', node)
    ex = interp.ex
    args = vr.current_args
    owner = c.name
    vr.loop_heap = dict(HM.heap_of(ex))        # pre_*: the heap when this loop is entered
    # 1. the invariant holds on entry with nothing visited
    vr.done_set = z3.K(HM.Node, False)
    for i, inv in enumerate(invs):
        vr.oblige_spec(f'{owner}/inv-init@loop{k}#{i}:{inv.__name__}', 'inv-init', inv, args)
    # 2. an arbitrary later state: havoc what the loop may change, assume the invariant
    entry_heap = dict(HM.heap_of(ex))
    ex.heap = HM.fresh_heap(ex, f'loop{k}')
    untouched = []
    if getattr(c, 'modifies', None) is not None:
        # fields outside the function's frame are not havocked; that the body leaves them alone is checked at inv-keep
        untouched = [f_ for f_ in entry_heap if f_ not in c.modifies]
        for f_ in untouched:
            ex.heap[f_] = entry_heap[f_]
    done = z3.Array(ex.fresh_name(f'done@loop{k}'), HM.Node, z3.BoolSort())
    m = z3.Const(ex.fresh_name('dm'), HM.Node)
    ex.assume(z3.ForAll([m], z3.Implies(z3.Select(done, m), it.member(m))))
    vr.done_set = done
    for inv in invs:
        vr.assume_spec(inv, args)
    if ex.choose(2) == 0:
        # 3a. one more iteration, on a member not visited yet
        cnode = z3.Const(ex.fresh_name('member'), HM.Node)
        ex.assume(z3.And(it.member(cnode), z3.Not(z3.Select(done, cnode))))
        interp.assign(node.target, it.element(interp, cnode), env)
        from .interp import BreakSig, ContinueSig
        try:
            interp.exec_block(node.body, env)
        except ContinueSig:
            pass
        except BreakSig:
            raise Unsupported('break inside an invariant loop', node)
        vr.done_set = z3.Store(done, cnode, True)
        for i, inv in enumerate(invs):
            vr.oblige_spec(f'{owner}/inv-keep@loop{k}#{i}:{inv.__name__}', 'inv-keep', inv, args)
        if untouched:
            cur = HM.heap_of(ex)
            from .sym import mk_bool
            vr.oblige(f'{owner}/inv-keep@loop{k}:frame', 'inv-keep',
                      mk_bool(z3.And(*[cur[f_] == entry_heap[f_] for f_ in untouched])))
        raise PathDone()
    # 3b. the loop is over: every member has been visited
    m2 = z3.Const(ex.fresh_name('dm'), HM.Node)
    ex.assume(z3.ForAll([m2], z3.Implies(it.member(m2), z3.Select(done, m2))))
    return True
