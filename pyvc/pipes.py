"""Unbounded sequences as filter/map pipelines over an abstract base sequence.

A range handed to an aggregate is an abstract sequence `Base` of unknown length whose
elements are dynamically typed scalars.  Comprehensions / generator expressions /
flatten() over it build an `SPipe` = (base, stage) where `stage` maps one element to a
value or to DROP.  Two pipelines over the same base are equal iff their stages agree
on an *arbitrary* element: one pointwise obligation per comparison, decided by SMT
for all element values of all types - that is the induction-free, length-independent
part.  Folds (len, sum, max, min, first) of a pipeline are uninterpreted constants
indexed by the pipeline's equivalence class; the algebra of folds over equal
pipelines (A-FOLD) is mathematics about the combinators, not about pycel.
"""
import z3

from . import sym
from .sym import (PathAbort, PyExc, SBool, SFloat, SInt, SStr, SV, Unsupported,
                  mk_bool, mk_float, mk_int)

ERROR_CODES = ('#NULL!', '#DIV/0!', '#VALUE!', '#REF!', '#NAME?', '#NUM!', '#N/A')


class _Drop:
    def __repr__(self):
        return 'DROP'


DROP = _Drop()

ELEM_ALTS = ('none', 'bool', 'int', 'float', 'str', 'err')


def typed_elem(ex, name, alt):
    """A symbolic element of the given dynamic type."""
    if alt == 'none':
        return None
    if alt == 'bool':
        return SBool(z3.Bool(f'{name}.b'))
    if alt == 'int':
        return SInt(z3.Int(f'{name}.i'))
    if alt == 'float':
        return SFloat(z3.Real(f'{name}.f'))
    t = z3.String(f'{name}.{alt}')
    if alt == 'str':
        for c in ERROR_CODES:
            ex.add_axiom(t != z3.StringVal(c))
    else:
        ex.add_axiom(z3.Or(*[t == z3.StringVal(c) for c in ERROR_CODES]))
    return SStr(t)


class Base:
    """An abstract source sequence (row-major leaves of the ranges of one argument list)."""

    def __init__(self, name, alts=ELEM_ALTS):
        self.name = name
        self.alts = tuple(alts)

    def __repr__(self):
        return f'<leaves {self.name}>'


class SNested:
    """Abstract argument list of an aggregate: scalars and 2-D ranges of unknown shape."""

    def __init__(self, name, alts=ELEM_ALTS):
        self.name = name
        self.base = Base(name, alts)


class SPipe:
    def __init__(self, base, stage, kind='tuple', label='id'):
        self.base = base
        self.stage = stage          # callable(interp, elem) -> value | DROP
        self.kind = kind
        self.label = label

    def __repr__(self):
        return f'<pipe {self.base.name}:{self.label}>'

    @staticmethod
    def of_base(base):
        return SPipe(base, lambda interp, e: e)

    def then(self, f, label):
        prev = self.stage

        def stage(interp, e):
            v = prev(interp, e)
            if v is DROP:
                return DROP
            return f(interp, v)
        return SPipe(self.base, stage, self.kind, f'{self.label}|{label}')

    # interpreter protocol ---------------------------------------------------------------
    def hm_len(self, interp, node):
        return agg(interp, 'len', self, node)

    def hm_iterate(self, interp, node):
        raise Unsupported('concrete iteration over an unbounded range pipeline', node)

    def hm_index(self, interp, idx, node):
        raise Unsupported('indexing an unbounded range pipeline', node)


def comprehension_over_pipe(interp, node, env, pipe):
    from .interp import Env
    if len(node.generators) != 1:
        raise Unsupported('nested comprehension over an unbounded range pipeline', node)
    g = node.generators[0]
    # the comprehension is materialised lazily (per element): freeze the local bindings now, as an
    # eager python comprehension would have used them
    env = Env(dict(env.vars), env.parent, env.module)

    def f(i, v):
        cenv = Env({}, env, env.module)
        i.assign(g.target, v, cenv)
        for cond in g.ifs:
            if not i.truth(i.eval(cond, cenv)):
                return DROP
        return i.eval(node.elt, cenv)
    return pipe.then(f, f'comp@{node.lineno}')


# ---------------------------------------------------------------------------------------------
# pointwise equivalence and equivalence classes
# ---------------------------------------------------------------------------------------------

def _registry(interp):
    return interp.ex.pipe_registry


def pointwise_equal(interp, p, q, record=True, survive_only=False):
    """forall element e: p.stage(e) == q.stage(e)   (both DROP or equal values);
    with survive_only: the same elements survive (values may differ)"""
    if p.base is not q.base:
        return False
    if p is q:
        return True
    vr = interp.world.verifier
    from .vc import check_valid
    from .explorer import Explorer
    outer = interp.world.explorer
    for alt in p.base.alts:
        sub = Explorer(outer.branch_timeout_ms)
        sub.base_pc = list(outer.pc)
        sub.prefix = outer.fresh_name('pw') + '.'
        sub.floor_cache_seed = dict(outer.floor_cache)
        sub.pipe_registry_seed = list(outer.pipe_registry)
        sub.first_choice_seed = dict(outer.first_choice)
        nbase = len(sub.base_pc)
        interp.world.explorer = sub
        ok = True
        try:
            def run():
                e = typed_elem(sub, f'{p.base.name}.elem', alt)
                a = p.stage(interp, e)
                b = q.stage(interp, e)
                if a is DROP or b is DROP:
                    return ('drop', a is DROP and b is DROP, e)
                if survive_only:
                    return ('val', True, e)
                if isinstance(a, SPipe) or isinstance(b, SPipe):
                    return ('val', False, e)
                if type(a) is not type(b) and not (isinstance(a, SV) or isinstance(b, SV)):
                    if isinstance(a, bool) != isinstance(b, bool):
                        return ('val', False, e)
                if isinstance(a, (SBool, bool)) != isinstance(b, (SBool, bool)):
                    return ('val', False, e)       # True vs 1 are different cells
                return ('val', interp.eq_term(a, b), e)
            for (kind, same, e), pc, notes in sub.paths(run):
                if same is True:
                    continue
                goal = False if same is False else same
                v = check_valid(pc, goal)
                if v.status != 'unsat':
                    ok = False
                    if record and vr is not None:
                        vr.pipe_cex = {'alt': alt, 'elem': decode_elem(v.model, e), 'status': v.status,
                                       'pipes': [p.label, q.label]}
                    break
        finally:
            interp.world.explorer = outer
            outer.solver_ms += sub.solver_ms
        if not ok:
            return False
    return True


def decode_elem(model, e):
    if model is None or e is None:
        return None
    try:
        v = model.eval(e.t, model_completion=True)
        if isinstance(e, SBool):
            return bool(z3.is_true(v))
        if isinstance(e, SInt):
            return v.as_long()
        if isinstance(e, SFloat):
            return {'$frac': [v.numerator_as_long(), v.denominator_as_long()], '$float': True}
        return v.as_string()
    except Exception:
        return None


def class_id(interp, pipe, survive_only=False):
    """Index of the equivalence class of the pipeline (registry of the current path): by values
    for sum/max/min/first, by the set of surviving elements for len."""
    reg = _registry(interp)
    for i, other in enumerate(reg):
        if other.base is pipe.base and pointwise_equal(interp, pipe, other, record=False,
                                                       survive_only=survive_only):
            return i
    reg.append(pipe)
    return len(reg) - 1


def constant_value(interp, pipe):
    """(c,) when every surviving element is mapped to the same concrete constant c, else None"""
    outer = interp.world.explorer
    from .explorer import Explorer
    vals = []
    for alt in pipe.base.alts:
        sub = Explorer(outer.branch_timeout_ms)
        sub.base_pc = list(outer.pc)
        sub.prefix = outer.fresh_name('cv') + '.'
        sub.pipe_registry_seed = list(outer.pipe_registry)
        interp.world.explorer = sub
        try:
            def run():
                return pipe.stage(interp, typed_elem(sub, f'{pipe.base.name}.elem', alt))
            for v, pc, notes in sub.paths(run):
                if v is not DROP:
                    vals.append(v)
        finally:
            interp.world.explorer = outer
    if vals and all(isinstance(v, int) and not isinstance(v, bool) and v == vals[0] for v in vals):
        return (vals[0],)
    return None


def agg(interp, kind, pipe, node=None, default=None):
    """len / sum / max / min / first of a pipeline as terms indexed by its class."""
    ex = interp.ex
    interp.world.trusted.add('A-FOLD: len/sum/max/min/first of a filter-map pipeline are functions of the '
                             'pipeline (uninterpreted per equivalence class); sum/len of the empty pipeline are 0')
    sid = class_id(interp, pipe, survive_only=True)
    n = z3.Int(f'len!{pipe.base.name}!{sid}')
    ex.add_axiom(n >= 0)
    if kind == 'len':
        return mk_int(n)
    if kind == 'nonempty':
        return mk_bool(n > 0)
    cid = class_id(interp, pipe)
    if kind == 'sum':
        cv = constant_value(interp, pipe)
        if cv is not None:
            return mk_int(n * cv[0])          # sum of a constant = constant * count
        check_numeric(interp, pipe, node)
        s = z3.Real(f'sum!{pipe.base.name}!{cid}')
        ex.add_axiom(z3.Implies(n == 0, s == 0))
        return mk_float(s)
    if kind in ('max', 'min'):
        if ex.branch(n == 0):
            if default is not None:
                return default[0]
            interp.raise_exc('ValueError', f'{kind}() arg is an empty sequence', node)
        check_numeric(interp, pipe, node)
        return mk_float(z3.Real(f'{kind}!{pipe.base.name}!{cid}'))
    if kind == 'first':
        if ex.branch(n == 0):
            if default is not None:
                return default[0]
            interp.raise_exc('StopIteration', '', node)
        # the first surviving element: a fresh element of a chosen type that survives the stage
        fc = ex.first_choice
        key = (pipe.base.name, cid)
        if key in fc:
            k = fc[key]
        else:
            k = ex.choose(len(pipe.base.alts))
            fc[key] = k
        e = typed_elem(ex, f'first!{pipe.base.name}!{cid}', pipe.base.alts[k])
        v = pipe.stage(interp, e)
        if v is DROP:
            raise PathAbort()
        return v
    raise Unsupported(f'aggregate {kind}', node)


def check_numeric(interp, pipe, node):
    """every surviving element is an int or a float (so + / comparison cannot raise)"""
    outer = interp.world.explorer
    from .explorer import Explorer
    for alt in pipe.base.alts:
        sub = Explorer(outer.branch_timeout_ms)
        sub.base_pc = list(outer.pc)
        sub.prefix = outer.fresh_name('num') + '.'
        sub.pipe_registry_seed = list(outer.pipe_registry)
        interp.world.explorer = sub
        bad = []
        try:
            def run():
                e = typed_elem(sub, f'{pipe.base.name}.elem', alt)
                v = pipe.stage(interp, e)
                return v
            for v, pc, notes in sub.paths(run):
                if v is DROP:
                    continue
                if not sym.is_numlike(v):
                    bad.append(v)
        finally:
            interp.world.explorer = outer
        if bad:
            interp.raise_exc('TypeError', 'unsupported operand type(s) for aggregate over non-numbers', node)


def pipe_eq(interp, a, b):
    if isinstance(a, SPipe) and isinstance(b, SPipe):
        return pointwise_equal(interp, a, b)
    return False


# ---------------------------------------------------------------------------------------------
# hooks used by the interpreter / builtins
# ---------------------------------------------------------------------------------------------

def flatten_abstract(interp, args, kwargs, node):
    """pycel.excelutil.flatten on an abstract argument list: its row-major leaves (A-FLATTEN),
    each passed through `coerce`."""
    data = args[0]
    coerce = kwargs.get('coerce', args[1] if len(args) > 1 else None)
    interp.world.trusted.add('A-FLATTEN: flatten(args) of an argument list of scalars and rectangular ranges '
                             'yields its leaves in row-major order (checked for small shapes by the stand-in)')
    pipe = SPipe.of_base(data.base)
    if coerce is not None:
        pipe = pipe.then(lambda i, v: i.call(coerce, [v], {}, node), 'coerce')
    return pipe


def sx_leaves(interp, args, kwargs, node):
    """spec twin of leaves(args)"""
    data = args[0]
    if isinstance(data, SNested):
        return SPipe.of_base(data.base)
    if isinstance(data, SPipe):
        return data
    raise Unsupported('leaves() of a concrete structure in symbolic mode', node)
