"""A-DEC / A-REPR: trusted model of decimal.Decimal as used by pycel's rounding.

Decimal(repr(x)) has exactly the value of the shortest round-tripping decimal
rendering of x; the properties are *stated* over that rendering, so on the
symbolic side the value is the real x itself.  quantize(q, rounding) returns
the multiple of q selected by the rounding mode (the definition in the decimal
specification) and raises InvalidOperation when the coefficient would exceed
the context precision (28 digits).  float(Decimal) is exact (A-FLOAT).
"""
import decimal as _decimal
import fractions

import z3

from . import sym
from .sym import SFloat, SInt, SStr, Unsupported, as_real_term, mk_float

TAG = ('A-DEC: Decimal(repr(x)) is the exact decimal rendering of x (value x on the spec side, A-REPR); '
       'Decimal.quantize(q, mode) is the multiple of q chosen by mode in {ROUND_HALF_UP, ROUND_DOWN, ROUND_UP}; '
       'InvalidOperation when |x|/q >= 10^28; float(Decimal) exact')


class SDecimal:
    def __init__(self, value, concrete=None):
        self.value = value            # z3 Real term
        self.concrete = concrete      # fractions.Fraction when known

    def hm_getattr(self, interp, name, node):
        from .interp import Builtin
        if name == 'quantize':
            return Builtin('Decimal.quantize', lambda i, a, k, n: quantize(i, self, a, k, n))
        raise Unsupported(f'Decimal.{name}', node)

    def hm_float(self, interp, node):
        interp.world.trusted.add(TAG)
        return mk_float(self.value)


class RoundingMode:
    def __init__(self, name):
        self.name = name


ROUND_HALF_UP = RoundingMode('ROUND_HALF_UP')
ROUND_DOWN = RoundingMode('ROUND_DOWN')
ROUND_UP = RoundingMode('ROUND_UP')
ROUND_HALF_EVEN = RoundingMode('ROUND_HALF_EVEN')
ROUND_FLOOR = RoundingMode('ROUND_FLOOR')
ROUND_CEILING = RoundingMode('ROUND_CEILING')


def x_decimal(interp, args, kwargs, node):
    interp.world.trusted.add(TAG)
    v = args[0] if args else 0
    if isinstance(v, str):
        try:
            fr = fractions.Fraction(_decimal.Decimal(v))
        except _decimal.InvalidOperation:
            interp.raise_exc('InvalidOperation', 'invalid literal for Decimal', node)
        return SDecimal(z3.RealVal(f'{fr.numerator}/{fr.denominator}'), fr)
    if isinstance(v, int) and not isinstance(v, bool):
        return SDecimal(z3.RealVal(v), fractions.Fraction(v))
    if isinstance(v, SStr):
        # only renderings of numbers reach Decimal in pycel: repr(x) / str(x)
        t = v.t
        if z3.is_app(t) and t.decl().name() in ('float_repr', 'float_str'):
            return SDecimal(t.arg(0))
        if z3.is_app(t) and t.decl().name() == 'int_repr':
            return SDecimal(z3.ToReal(t.arg(0)))
        from .builtins_model import UF
        raise Unsupported('Decimal of a symbolic string that is not repr(number)', node)
    if isinstance(v, (SInt,)):
        return SDecimal(z3.ToReal(v.t))
    if isinstance(v, (SFloat, float)):
        # Decimal(float) is the exact binary value
        return SDecimal(as_real_term(v))
    raise Unsupported(f'Decimal({type(v).__name__})', node)


def quantize(interp, self, args, kwargs, node):
    interp.world.trusted.add(TAG)
    q = args[0]
    mode = kwargs.get('rounding', args[1] if len(args) > 1 else ROUND_HALF_EVEN)
    if not isinstance(q, SDecimal) or q.concrete is None:
        raise Unsupported('quantize with a symbolic quantum', node)
    if not isinstance(mode, RoundingMode):
        raise Unsupported('quantize rounding mode', node)
    # only the exponent of the quantum matters (Decimal('100').quantize semantics): pycel
    # builds quanta as Decimal('1E+n') or Decimal(repr(pow(10, -n))); the literal's exponent
    # is recorded when the Decimal is built
    exp = getattr(q, 'exponent', None)
    if exp is None:
        raise Unsupported('quantize: quantum exponent unknown', node)
    unit = fractions.Fraction(10) ** exp
    u = z3.RealVal(f'{unit.numerator}/{unit.denominator}')
    x = self.value
    ax = z3.If(x >= 0, x, -x)
    scaled = ax / u
    if interp.ex.branch(scaled >= z3.RealVal(10 ** 28)):
        interp.raise_exc('InvalidOperation', 'quantize result has too many digits', node)
    fli = sym.floor_int(interp.ex, scaled)
    fl = z3.ToReal(fli)
    frac = scaled - fl
    if mode.name == 'ROUND_HALF_UP':
        n = z3.If(frac >= z3.RealVal('1/2'), fl + 1, fl)
    elif mode.name == 'ROUND_DOWN':
        n = fl
    elif mode.name == 'ROUND_UP':
        n = z3.If(frac > 0, fl + 1, fl)
    elif mode.name == 'ROUND_HALF_EVEN':
        n = z3.If(frac > z3.RealVal('1/2'), fl + 1,
                  z3.If(frac < z3.RealVal('1/2'), fl,
                        z3.If(fli % 2 == 0, fl, fl + 1)))
    else:
        raise Unsupported(f'rounding mode {mode.name}', node)
    r = n * u
    return SDecimal(z3.simplify(z3.If(x >= 0, r, -r)))


def x_decimal_with_exponent(interp, args, kwargs, node):
    d = x_decimal(interp, args, kwargs, node)
    v = args[0] if args else 0
    if isinstance(v, str):
        d.exponent = _decimal.Decimal(v).as_tuple().exponent
    elif isinstance(v, int):
        d.exponent = 0
    return d


def register(ext):
    from .interp import Builtin
    ext['decimal.Decimal'] = Builtin('decimal.Decimal', x_decimal_with_exponent)
    ext['decimal.ROUND_HALF_UP'] = ROUND_HALF_UP
    ext['decimal.ROUND_DOWN'] = ROUND_DOWN
    ext['decimal.ROUND_UP'] = ROUND_UP
    ext['decimal.ROUND_HALF_EVEN'] = ROUND_HALF_EVEN
    ext['decimal.ROUND_FLOOR'] = ROUND_FLOOR
    ext['decimal.ROUND_CEILING'] = ROUND_CEILING


# -- spec twins (C19) ---------------------------------------------------------------------

def sx_decimal_of(interp, args, kwargs, node):
    """decimal_of(x): exact value of the shortest decimal rendering of x (A-REPR: x itself)"""
    return mk_float(as_real_term(args[0]))


def sx_pow10(interp, args, kwargs, node):
    d = args[0]
    if not isinstance(d, int):
        raise Unsupported('pow10 of symbolic exponent', node)
    fr = fractions.Fraction(10) ** d
    return mk_float(z3.RealVal(f'{fr.numerator}/{fr.denominator}'))


def sx_to_float(interp, args, kwargs, node):
    return mk_float(as_real_term(args[0]))


def sx_is_multiple(interp, args, kwargs, node):
    """is_multiple(r, s): r = s * k for an integer k (s != 0).  Decided syntactically when the
    result is literally s * <integer> (what the code computes); otherwise by the definition."""
    from .sym import is_int_multiple, floor_int, mk_bool
    r, s_ = args
    rt, st = as_real_term(r), as_real_term(s_)
    if is_int_multiple(rt, st):
        return True
    k = floor_int(interp.ex, rt / st)
    return mk_bool(rt == st * z3.ToReal(k))
