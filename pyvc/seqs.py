"""Symbolic-length sequences (functional encoding: length term + element
function).  Filled in by the properties that need them (C13-C16)."""
import z3

from . import sym
from .sym import SInt, Unsupported, as_int_term, mk_bool, mk_int


class SSeq:
    """A sequence whose length is a z3 Int term and whose i-th element is
    produced by a Python callable on a z3 Int index term."""

    def __init__(self, length, elem, kind='tuple'):
        self._length = length           # z3 Int term
        self.elem = elem                # callable(interp, z3 Int term) -> value
        self.kind = kind

    def length_term(self):
        return self._length

    def length(self):
        return mk_int(self._length)

    # construction ------------------------------------------------------------
    @staticmethod
    def from_concrete(interp, items):
        items = list(items)

        def elem(i, idx):
            for k, x in enumerate(items):
                if i.ex.branch(idx == k):
                    return x
            raise sym.PathAbort()
        return SSeq(z3.IntVal(len(items)), elem, 'tuple' if isinstance(items, tuple) else 'list')

    @staticmethod
    def range(interp, args, node):
        if len(args) == 1:
            lo, hi = 0, args[0]
        elif len(args) == 2:
            lo, hi = args
        else:
            raise Unsupported('range with step', node)
        lo_t, hi_t = as_int_term(lo), as_int_term(hi)
        n = z3.If(hi_t > lo_t, hi_t - lo_t, z3.IntVal(0))
        return SSeq(n, lambda i, idx: mk_int(lo_t + idx), 'range')

    @staticmethod
    def repeat(interp, seq, k):
        """tuple * symbolic int"""
        items = list(seq)
        kt = as_int_term(k)
        n = len(items)
        if n == 0:
            return seq
        length = z3.If(kt > 0, kt * n, z3.IntVal(0))
        if n == 1:
            return SSeq(length, lambda i, idx: items[0], 'tuple')
        base = SSeq.from_concrete(interp, items)
        return SSeq(length, lambda i, idx: base.elem(i, idx % n), 'tuple')

    @staticmethod
    def binop(interp, op, a, b, node):
        if op == 'add' and isinstance(a, SSeq) and isinstance(b, (SSeq, tuple, list)):
            bb = b if isinstance(b, SSeq) else SSeq.from_concrete(interp, b)
            return a.concat(bb)
        if op == 'add' and isinstance(b, SSeq) and isinstance(a, (tuple, list)):
            return SSeq.from_concrete(interp, a).concat(b)
        if op == 'mul':
            seq, k = (a, b) if isinstance(a, SSeq) else (b, a)
            kt = as_int_term(k)
            n = seq._length
            length = z3.If(z3.And(kt > 0, n > 0), kt * n, z3.IntVal(0))
            return SSeq(length, lambda i, idx: seq.elem(i, idx % n), seq.kind)
        interp.raise_exc('TypeError', f'{op} on sequences', node)

    def concat(self, other):
        n1 = self._length

        def elem(i, idx):
            if i.ex.branch(idx < n1):
                return self.elem(i, idx)
            return other.elem(i, idx - n1)
        return SSeq(n1 + other._length, elem, self.kind)

    # access ------------------------------------------------------------------
    def getitem(self, interp, idx, node):
        it = as_int_term(idx)
        n = self._length
        if interp.ex.branch(z3.Or(it >= n, it < -n)):
            interp.raise_exc('IndexError', 'index out of range', node)
        pos = z3.simplify(it + n) if interp.ex.branch(it < 0) else z3.simplify(it)
        return self.elem(interp, pos)

    def slice(self, interp, lo, hi, node):
        n = self._length
        start, stop = interp.clamp_slice(n, lo, hi)
        ln = z3.simplify(z3.If(stop > start, stop - start, z3.IntVal(0)))
        start = z3.simplify(start)
        return SSeq(ln, lambda i, idx: self.elem(i, start + idx), self.kind)

    def concretize_iter(self, interp, node):
        n = z3.simplify(self._length)
        if z3.is_int_value(n):
            return [self.elem(interp, z3.IntVal(k)) for k in range(n.as_long())]
        raise Unsupported('iteration over symbolic-length sequence', node)

    def enumerate(self, interp, start):
        st = as_int_term(start)
        return SSeq(self._length, lambda i, idx: (mk_int(st + idx), self.elem(i, idx)), 'enumerate')

    def getattr(self, interp, name, node):
        raise Unsupported(f'attribute {name} of symbolic sequence', node)

    def contains(self, interp, item):
        raise Unsupported('in on symbolic-length sequence')

    def minmax(self, interp, is_min, default, node):
        raise Unsupported('min/max of symbolic-length sequence', node)

    def sum(self, interp, start, node):
        raise Unsupported('sum of symbolic-length sequence', node)

    def any_all(self, interp, is_any, node):
        raise Unsupported('any/all over symbolic-length sequence', node)

    def first(self, interp, default, node):
        raise Unsupported('next() over symbolic-length sequence', node)


def comprehension_over_sseq(interp, node, env, seq):
    """[elt for target in seq if conds]  with seq of symbolic length.

    Without conditions: a map (same length, element function composed).
    With conditions: a filter -- handled by the combinator layer."""
    from .interp import Env
    g = node.generators[0]
    # the comprehension is materialised lazily (per element): freeze the local bindings now, as an
    # eager python comprehension would have used them
    env = Env(dict(env.vars), env.parent, env.module)
    if g.ifs:
        raise Unsupported('filter comprehension over symbolic-length sequence', node)

    def elem(i, idx):
        cenv = Env({}, env, env.module)
        i.assign(g.target, seq.elem(i, idx), cenv)
        return i.eval(node.elt, cenv)
    return SSeq(seq._length, elem, 'tuple')
