"""Vocabulary of heap contracts, native side (run-time checking on the real objects).

The prover has symbolic twins (pyvc.heapmodel.sx_*).  Natively the functions read the real
cells; `old_*` read the snapshot that the run-time checker took before the operation
(CURRENT.old), `forall_nodes` ranges over every node of the model under check.
"""


class _Ctx:
    compiler = None
    old = {}          # id(cell) -> value before the operation
    done = set()


CURRENT = _Ctx()


def snapshot(compiler):
    CURRENT.compiler = compiler
    CURRENT.old = {id(c): c.value for c in compiler.cell_map.values()}


def cached(c):
    return c.value is not None


def old_cached(c):
    return CURRENT.old.get(id(c)) is not None


def same_value(c):
    old = CURRENT.old.get(id(c))
    return type(old) is type(c.value) and old == c.value


def value_is(c, v):
    return type(c.value) is type(v) and c.value == v


def succ(a, b):
    g = CURRENT.compiler.dep_graph
    return a in g and b in g and g.has_edge(a, b)


def same_node(a, b):
    return a is b


def in_done(c):
    return id(c) in CURRENT.done


def forall_nodes(pred):
    return all(pred(c) for c in CURRENT.compiler.cell_map.values())


def reads(p, d):
    """the formula of d consumes the value of p"""
    need = d.needed_addresses
    return any(a.address == p.address.address for a in need)


def computed(d):
    return bool(getattr(d, 'formula', None)) or type(d).__name__ == '_CellRange'


def holds_f(d):
    """the cached value of d is what its formula yields from the current values of its precedents"""
    comp = CURRENT.compiler
    if type(d).__name__ == '_CellRange':
        if d.formula is None and not d.address.is_unbounded_range:
            want = tuple(tuple(comp.cell_map[a.address].value for a in row) for row in d.addresses)
            return want == d.value
        return True
    if not getattr(d, 'formula', None):
        return True
    got = comp.eval(d)
    from pycel.excelutil import is_address, list_like
    if is_address(got):
        # the formula is a reference: the value is the referenced node's value
        ref = comp.cell_map.get(got.address)
        return ref is not None and ref.value == d.value
    if d.address.is_range:
        return got == d.value
    got = (got[0][0] if list_like(got[0]) else got[0]) if list_like(got) else got
    return type(got) is type(d.value) and got == d.value or (got != got and d.value != d.value)


def old_holds_f(d):
    return True


def in_map(address):
    return address in CURRENT.compiler.cell_map


def cell_at(address):
    return CURRENT.compiler.cell_map[address]


# vocabulary of the trim_graph closures (sets of addresses held in closure variables, the formula field): the
# symbolic twins live in pyvc.heapmodel; natively these contracts are exercised through the bounded stand-in only

def _no_native(*a, **k):
    raise NotImplementedError('no native meaning: checked deductively only')


is_unbounded = pre_in_set = pre_same_fields = local = edge = old_edge = in_set = old_in_set = has_formula = old_has_formula = same_formula = _no_native


def is_range(d):
    """the node is a range node (what the code tests with isinstance(.., _CellRange))"""
    return type(d).__name__ in ('_CellRange', '_CycleCellRange')
