"""Loops of pure functions cut at sidecar invariants over the function's own local variables.

A contract names the loop by its ordinal (breadth-first position among the loops of the function, as
everywhere else) and gives

    dict(inv=[spec functions], locals=('lo', 'hi'), vars={'lo': Int()}, variant=fn or None,
         index=True / False, havoc=callable(vr, interp, env) or None)

* `locals`: names of local variables of the real function; their current values are appended to the
  contract's parameters when an invariant / variant is evaluated (so an invariant is a spec function
  over (params..., locals...[, k])).
* `vars`: the locals the loop may assign, with the domain of their values: they are replaced by fresh
  values before the arbitrary iteration (every other local keeps what the path knows about it; the
  real body assigning a local that is not listed is refused, see _check_assigned).
* `havoc`: engine-level action for state that is not a plain local (an element of a list a closure writes).
* `entry`: locals whose value on arrival at the loop is appended after the locals (ghost copies for the invariant).
* `index=True`: a for-loop over a sequence of symbolic length (`for x in seq`, `for i, x in enumerate(seq, 1)`):
  the ghost index k = number of completed iterations is appended after the locals.

while-loops:  inv-init on arrival; havoc; assume inv; the test is evaluated: false -> the code after the
loop runs on that state; true -> one iteration of the real body, then inv-keep and the variant, and the path ends.
for-loops:    inv-init at k = 0; havoc; fresh k, assume inv(k); either k = len and the code after the loop runs,
or 0 <= k < len, the target is bound to element k, one iteration of the real body runs: `break` continues
after the loop on that state, reaching the end of the body obliges inv(k + 1) and the path ends.
"""
import ast

import z3

from .sym import SInt, Unsupported, as_int_term, mk_bool, mk_int


def _assigned_names(stmts):
    out = set()
    for s in stmts:
        for n in ast.walk(s):
            if isinstance(n, ast.Name) and isinstance(n.ctx, (ast.Store, ast.Del)):
                out.add(n.id)
            elif isinstance(n, (ast.FunctionDef, ast.Lambda, ast.ClassDef)):
                pass
    return out


def _check_assigned(node, spec, extra=()):
    """every local the real loop assigns must be declared in `vars` (or be the loop target): an edit that
    makes the loop change another variable cannot silently keep the facts known about it"""
    assigned = _assigned_names(node.body)
    if isinstance(node, ast.For):
        tgt = {n.id for n in ast.walk(node.target) if isinstance(n, ast.Name)}
    else:
        tgt = set()
    # names first bound inside the body and not used by the invariant are plain temporaries: allowed
    declared = set(spec.get('vars', {})) | tgt | set(extra) | set(spec.get('temps', ()))
    missing = assigned - declared
    if missing:
        raise Unsupported(f'loop assigns {sorted(missing)} which the loop contract does not declare (vars / temps)', node)


def _args(vr, env, spec, k=None, entry=()):
    out = list(vr.current_args)
    for n in spec.get('locals', ()):
        try:
            out.append(env.lookup(n))
        except KeyError:
            raise Unsupported(f'loop contract names the local {n}, which the function does not have here')
    out.extend(entry)
    if k is not None:
        out.append(k)
    return out


def _entry(env, spec):
    """`entry`: locals whose value on arrival at the loop the invariant refers to (a ghost copy)"""
    out = []
    for n in spec.get('entry', ()):
        try:
            out.append(env.lookup(n))
        except KeyError:
            raise Unsupported(f'loop contract names the local {n}, which the function does not have here')
    return out


def _havoc(vr, interp, env, spec, k):
    from .vc import build_value, pick_alt
    ex = interp.ex
    for n, dom in spec.get('vars', {}).items():
        v, _ = build_value(vr.world, pick_alt(vr.world, dom), ex.fresh_name(f'{n}@loop{k}'))
        e = env
        while e is not None and n not in e.vars:
            e = e.parent
        (e or env).vars[n] = v
    h = spec.get('havoc')
    if h is not None:
        h(vr, interp, env)


def run_local_while(interp, vr, node, env, spec, k):
    from .interp import BreakSig, ContinueSig
    from .vc import PathDone
    owner = vr.active.name
    invs = spec['inv']
    if node.orelse:
        raise Unsupported('while/else with an invariant', node)
    _check_assigned(node, spec)
    ent = _entry(env, spec)
    for i, inv in enumerate(invs):
        vr.oblige_spec(f'{owner}/inv-init@loop{k}#{i}:{inv.__name__}', 'inv-init', inv, _args(vr, env, spec, entry=ent))
    _havoc(vr, interp, env, spec, k)
    for inv in invs:
        vr.assume_spec(inv, _args(vr, env, spec, entry=ent))
    variant = spec.get('variant')
    v0 = vr.eval_spec(variant, _args(vr, env, spec, entry=ent), 'goal') if variant else None
    if not interp.truth(interp.eval(node.test, env)):
        return True
    try:
        interp.exec_block(node.body, env)
    except ContinueSig:
        pass
    except BreakSig:
        return True
    for i, inv in enumerate(invs):
        vr.oblige_spec(f'{owner}/inv-keep@loop{k}#{i}:{inv.__name__}', 'inv-keep', inv, _args(vr, env, spec, entry=ent))
    if variant:
        v1 = vr.eval_spec(variant, _args(vr, env, spec, entry=ent), 'goal')
        vr.oblige(f'{owner}/variant@loop{k}:{variant.__name__}', 'variant',
                  mk_bool(z3.And(as_int_term(v1) < as_int_term(v0), as_int_term(v1) >= 0)))
    raise PathDone()


def run_local_for(interp, vr, node, env, spec, k, it):
    from .arrays import SArr
    from .interp import BreakSig, ContinueSig
    from .seqs import SSeq
    from .vc import PathDone
    owner = vr.active.name
    invs = spec['inv']
    if node.orelse:
        raise Unsupported('for/else with an invariant', node)
    if isinstance(it, SArr):
        n_t, elem = it.length_term(), (lambda i, idx, a=it: a.at(i, idx))
    elif isinstance(it, SSeq):
        n_t, elem = it.length_term(), it.elem
    else:
        raise Unsupported('indexed loop contract on a loop that does not run over a sequence of symbolic length', node)
    _check_assigned(node, spec)
    ex = interp.ex
    for i, inv in enumerate(invs):
        vr.oblige_spec(f'{owner}/inv-init@loop{k}#{i}:{inv.__name__}', 'inv-init', inv,
                       _args(vr, env, spec, mk_int(z3.IntVal(0))))
    _havoc(vr, interp, env, spec, k)
    kk = z3.Int(ex.fresh_name(f'k@loop{k}'))
    ex.assume(z3.And(kk >= 0, kk <= n_t))
    for inv in invs:
        vr.assume_spec(inv, _args(vr, env, spec, SInt(kk)))
    if not ex.branch(kk < n_t):
        return True                 # every element has been visited: the code after the loop
    interp.assign(node.target, elem(interp, kk), env)
    try:
        interp.exec_block(node.body, env)
    except ContinueSig:
        pass
    except BreakSig:
        return True                 # left early: the code after the loop, on the state the body left
    for i, inv in enumerate(invs):
        vr.oblige_spec(f'{owner}/inv-keep@loop{k}#{i}:{inv.__name__}', 'inv-keep', inv,
                       _args(vr, env, spec, mk_int(z3.simplify(kk + 1))))
    raise PathDone()
