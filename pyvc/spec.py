"""Contract vocabulary shared by the prover (python3-vt) and by native replay
(/venv/bin/python).  Pure Python: no z3, no pycel import at module level.

A sidecar module (contracts/cXX.py) defines
  * parameter domain descriptors (below),
  * spec functions: ordinary Python functions, executed *symbolically* by the
    prover (it parses the sidecar's own source) and *natively* by replay and by
    the bounded stand-in -- one text, two uses,
  * CONTRACTS: list of Contract, LEMMAS: list of Lemma.
"""


# ---------------------------------------------------------------------------
# domain descriptors
# ---------------------------------------------------------------------------

class Dom:
    pass


class Int(Dom):
    def __init__(self, lo=None, hi=None):
        self.lo, self.hi = lo, hi


class Bool(Dom):
    pass


class Float(Dom):
    """A Python float, modelled as a real (A-FLOAT)."""

    def __init__(self, lo=None, hi=None):
        self.lo, self.hi = lo, hi


class Str(Dom):
    def __init__(self, maxlen=None, not_in=(), one_of=None):
        self.maxlen = maxlen
        self.not_in = tuple(not_in)
        self.one_of = one_of


class NoneT(Dom):
    pass


class Const(Dom):
    def __init__(self, value):
        self.value = value


class Ref(Dom):
    """A named Python object from the analysed world, e.g. Ref('builtins:min')
    or Ref('pycel.excelutil:VALUE_ERROR')."""

    def __init__(self, target):
        self.target = target


class Union(Dom):
    """Case split: one scenario per alternative."""

    def __init__(self, *alts):
        self.alts = alts


class Tuple(Dom):
    def __init__(self, *elems, kind='tuple'):
        self.elems = elems
        self.kind = kind


class Record(Dom):
    """Instance of a repo class with the given field domains.

    build: native function(**field_values) -> real object (used by replay).
    """

    def __init__(self, cls, fields, build=None, closed=False):
        self.cls = cls
        self.fields = fields
        self.build = build
        self.closed = closed      # a shared singleton: writing any attribute not listed here breaks the frame


class Namespace(Dom):
    """An attribute bag (threading.local(), a module-level record): fields name -> Dom; absent names are absent."""

    def __init__(self, **fields):
        self.fields = fields


class ObjSet(Dom):
    """A mutable set of object identities (empty=True: the empty set)."""

    def __init__(self, empty=False):
        self.empty = empty


class ObjRef(Dom):
    """An object known only by its identity."""


class DictOf(Dom):
    """A dict with the given constant keys."""

    def __init__(self, **fields):
        self.fields = fields


class Seq(Dom):
    """Symbolic-length sequence of elem (lo <= len <= hi)."""

    def __init__(self, elem, lo=0, hi=None, kind='tuple'):
        self.elem = elem
        self.lo, self.hi = lo, hi
        self.kind = kind


class Dyn(Dom):
    """Dynamically typed scalar (Val datatype), optionally restricted."""

    def __init__(self, tags=('none', 'bool', 'int', 'float', 'str')):
        self.tags = tuple(tags)


class Nested(Dom):
    """The argument list of an aggregate: scalars and rectangular ranges of unknown shape,
    whose leaves are dynamically typed cells (blank, logical, int, float, text, error value)."""

    def __init__(self, alts=('none', 'bool', 'int', 'float', 'str', 'err')):
        self.alts = tuple(alts)


class Array(Dom):
    """A vector (ndim=1) or rectangular table (ndim=2) of unknown size whose cells are dynamically
    typed (blank, logical, int, float, text, error value)."""

    def __init__(self, ndim=1, min_len=1, max_len=None, kind='tuple',
                 alts=('none', 'bool', 'int', 'float', 'str', 'err')):
        self.ndim = ndim
        self.min_len = min_len
        self.max_len = max_len
        self.kind = kind
        self.alts = tuple(alts)


class HeapCompiler(Dom):
    """`self` of an ExcelCompiler method in heap mode: cell_map and dep_graph are abstract (A-NX)"""

    def __init__(self, cycles=False, building=False, evaluating=None, trimming=False, eval_raises=()):
        self.cycles = cycles
        self.eval_raises = tuple(eval_raises)    # exception types the compiled formula may raise (after nested evaluations)
        self.building = building     # graph construction: cell_map membership, graph_todos and edges are mutable heap state
        self.trimming = trimming     # trim_graph: cell_map membership is mutable heap state
        self.evaluating = evaluating   # evaluation: list of frame clauses that hold across nested evaluations (self.eval)


class HeapCell(Dom):
    """a cell / range node of the model (an element of the uninterpreted sort Node)"""


class HeapAddr(Dom):
    """an address object (AddressRange / AddressCell) of a node (heap mode)"""


class HeapSet(Dom):
    """A set of cell addresses held in a local / closure variable of the code (heap mode)."""

    def __init__(self, name):
        self.name = name


class OpaqueV(Dom):
    """an Excel value of unknown type (uninterpreted sort V; None included unless excluded)"""

    def __init__(self, allow_none=True):
        self.allow_none = allow_none


class Abstract(Dom):
    """An abstract callable parameter with a contract of its own."""

    def __init__(self, name, returns, ensures=None, pure=True, raises=(), effects=None):
        self.name = name
        self.returns = returns
        self.ensures = ensures
        self.pure = pure
        self.raises = tuple(raises)     # exception type names the callable may raise (each explored)
        self.effects = effects          # engine-level callable(vr, interp, args): what a call may change


class AbstractKey(Dom):
    """An object of which only `key < cell value` is used, where that comparison is an unknown pure (total,
    deterministic, effect-free) function of the value it is compared with: proving a search routine for such a
    key proves it for every ordering key whose __lt__ is pure."""


class AnyObj(Dom):
    """An object of which nothing is used but calls of its methods (a logger): every attribute is a
    callable without effect that returns None."""


# ---------------------------------------------------------------------------
# contracts
# ---------------------------------------------------------------------------

class Contract:
    """Contract of one real function.

    target   : 'pycel.module:Class.method' or 'pycel.module:func.closure'
    params   : dict name -> Dom  (Union domains are split into scenarios)
    requires : spec functions over the parameters (assumed / checked at calls)
    ensures  : spec functions over (parameters..., result)
    raises   : dict exception type -> spec function over parameters that says
               when raising it is allowed; anything else is a failed obligation
    returns  : Dom of the result (needed when the contract is used modularly)
    modular  : list of targets whose calls are replaced by their contract
    """

    def __init__(self, target, prop, params, requires=(), ensures=(), raises=None,
                 returns=None, modular=(), name=None, closure_env=None,
                 decreases=None, invariants=None, notes='', bound_args=None,
                 klass='PROVED', frame=None, when=None, free_vars=(),
                 native_call=None, apply_decorators=False, heap=False, effects=None, record=False, ghost=(), prepare=None,
                 modifies=None, heap_sets=(), ghost_before_loop=None, abstract_str_order=False,
                 fast_branch=False, tier='quick'):
        self.target = target
        self.prop = prop
        self.params = params
        self.requires = list(requires)
        self.ensures = list(ensures)
        self.raises = dict(raises or {})
        self.returns = returns
        self.modular = list(modular)
        self.name = name or target.split(':')[1]
        self.closure_env = closure_env     # for closures: factory call description
        self.decreases = decreases
        self.invariants = invariants or {}
        self.notes = notes
        self.bound_args = bound_args
        self.klass = klass
        self.frame = frame
        self.when = when
        self.free_vars = tuple(free_vars)
        self.native_call = native_call
        self.apply_decorators = apply_decorators
        self.heap = heap
        self.effects = effects      # modular use: engine-level havoc of what the callee may change
        self.record = record        # record mode: ensures see the live objects, old(x) the entry snapshot
        self.ghost = tuple(ghost)   # ghost counters (symbolic ints) of this contract
        self.prepare = prepare      # engine-level callable(vr, interp, closure, byname) run before the call
        self.modifies = modifies    # heap mode: the heap fields the function may change (None: any); checked and used
        self.heap_sets = tuple(heap_sets)      # locals `x = set()` of addresses that are kept as heap fields
        self.ghost_before_loop = ghost_before_loop or {}    # loop ordinal -> engine-level ghost action before the loop
        self.fast_branch = fast_branch    # branch feasibility is decided without the quantified facts of the path
        self.tier = tier            # 'thorough': discharged by the thorough command only (minutes per scenario)
        self.abstract_str_order = abstract_str_order    # text order as an abstract strict total order (pyvc/strorder.py)


class Lemma:
    """A property lemma: a spec function over symbolic parameters that must
    return True, where calls to contracted functions use only their contracts."""

    def __init__(self, name, prop, params, body, requires=(), modular=(), notes=''):
        self.name = name
        self.prop = prop
        self.params = params
        self.body = body
        self.requires = list(requires)
        self.modular = list(modular)
        self.notes = notes


# ---------------------------------------------------------------------------
# spec helpers with a native meaning (the prover has symbolic twins)
# ---------------------------------------------------------------------------

def implies(a, b):
    return (not a) or bool(b)


def forall_range(lo, hi, pred):
    """pred(i) for all lo <= i < hi (natively: enumerated; symbolically: one
    fresh universally quantified index)."""
    return all(pred(i) for i in range(lo, hi))


def same_call(target, *args):
    """the result of calling the real function `target` ('module:function') on args.
    (Symbolically: the result the code obtained from its own modular call, after proving
    that the arguments agree.)"""
    import importlib
    modname, qual = target.split(':')
    obj = importlib.import_module(modname)
    for p in qual.split('.'):
        obj = getattr(obj, p)
    return obj(*args)


def is_error(v):
    return isinstance(v, str) and v in ERROR_CODES


ERROR_CODES = ('#NULL!', '#DIV/0!', '#VALUE!', '#REF!', '#NAME?', '#NUM!', '#N/A')
