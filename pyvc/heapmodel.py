"""Heap / graph mode: the compiler's object graph as SMT arrays over an uninterpreted Node sort.

  value : Node -> V      cached result of a cell / range node (NONE_V = not computed)
  succ  : Node x Node    edge relation of dep_graph (precedent -> dependant)
  cellmap / inmap        cell_map as a function String -> Node with a domain predicate

V is an uninterpreted sort of Excel values with a distinguished NONE_V; python `==` / `!=`
between values is the uninterpreted relation pyeq (reflexive, but 0 == False: equality of
payload does not imply identity), `type(v)` is vtype(v).  The heap of a path is a dict of
arrays updated functionally; a modular call havocs it and assumes the callee's ensures
between the snapshot before the call (old) and the fresh heap (new).  No transitive
closure is ever used: contracts are local closure conditions (DESIGN 2.4).
"""
import z3

from . import sym
from .sym import PyExc, SBool, SV, Unsupported, mk_bool

Node = z3.DeclareSort('Node')
V = z3.DeclareSort('V')
NONE_V = z3.Const('NONE_V', V)
PYEQ = z3.Function('pyeq', V, V, z3.BoolSort())
VTYPE = z3.Function('vtype', V, z3.IntSort())
TRUTHY = z3.Function('truthy', V, z3.BoolSort())
VINT = z3.Function('VInt', z3.IntSort(), V)
SUCC = z3.Function('succ', Node, Node, z3.BoolSort())
INNODE = z3.Function('in_graph', Node, z3.BoolSort())
CELLMAP = z3.Function('cell_map', z3.StringSort(), Node)
INMAP = z3.Function('in_cell_map', z3.StringSort(), z3.BoolSort())

READS = z3.Function('reads', Node, Node, z3.BoolSort())
COMPUTED = z3.Function('computed', Node, z3.BoolSort())
FSEM = z3.Function('F', Node, z3.ArraySort(Node, V), V)
STR_TAG = z3.IntVal(1)

HEAP_FIELDS = {'value': V, 'formula': V, 'edges': z3.ArraySort(Node, z3.BoolSort())}
HEAP_FIELDS['set:cell_map'] = z3.BoolSort()      # formula: NONE_V = the cell has no formula (a constant / frozen cell)
ISRANGE = z3.Function('is_range_node', Node, z3.BoolSort())
ISUNBOUNDED = z3.Function('is_unbounded_ref_node', Node, z3.BoolSort())
ADDRTEXT = z3.Function('address_text', Node, z3.StringSort())


def declare_heap_set(name):
    """a set of nodes kept by the code (a local / closure variable holding addresses) as one more heap field"""
    HEAP_FIELDS.setdefault('set:' + name, z3.BoolSort())


def fresh_heap(ex, tag):
    return {f: z3.Array(ex.fresh_name(f'{f}@{tag}'), Node, srt) for f, srt in HEAP_FIELDS.items()}


def edge_term(h, p, d):
    return z3.Select(z3.Select(h['edges'], p), d)


def graph_axioms(ex):
    """A-NX: an edge joins two nodes of the graph"""
    a, b = z3.Consts('nx_a nx_b', Node)
    ax = z3.ForAll([a, b], z3.Implies(SUCC(a, b), z3.And(INNODE(a), INNODE(b))))
    if not any(ax.eq(c) for c in ex.pc):
        ex.add_axiom(ax)


def heap_of(ex):
    if ex.heap is None:
        ex.heap = {f: z3.Array(f'{f}@entry', Node, srt) for f, srt in HEAP_FIELDS.items()}
    graph_axioms(ex)
    return ex.heap


class VKind:
    """operations on opaque Excel values"""

    @staticmethod
    def truth(interp, v):
        # bool(value): an uninterpreted predicate, false for None (0, FALSE, "" are falsy values that are not None)
        interp.ex.add_axiom(z3.Not(TRUTHY(NONE_V)))
        return interp.ex.branch(TRUTHY(v.t))

    @staticmethod
    def is_none(interp, v):
        return mk_bool(v.t == NONE_V)

    @staticmethod
    def eq(interp, a, b):
        interp.world.trusted.add('A-PYEQ: == between cell values is an uninterpreted reflexive relation pyeq '
                                 '(equal payloads of different types, 0 == False, are possible)')
        ta, tb = to_v(interp, a), to_v(interp, b)
        interp.ex.add_axiom(PYEQ(ta, ta))
        interp.ex.add_axiom(PYEQ(tb, tb))
        interp.ex.add_axiom(z3.Implies(ta == tb, PYEQ(ta, tb)))
        interp.ex.add_axiom(z3.Implies(z3.Or(ta == NONE_V, tb == NONE_V), PYEQ(ta, tb) == (ta == tb)))
        # values of the same type that compare equal are the same value
        interp.ex.add_axiom(z3.Implies(z3.And(PYEQ(ta, tb), VTYPE(ta) == VTYPE(tb)), ta == tb))
        return PYEQ(ta, tb)

    @staticmethod
    def isinstance(interp, v, t, node):
        """scalar Excel values: only the text / non-text distinction is visible"""
        from .interp import Builtin, ClassModel
        if isinstance(t, ClassModel):
            return False
        if isinstance(t, Builtin) and t.name in ('str', 'Iterable'):
            return mk_bool(VTYPE(to_v(interp, v)) == STR_TAG)
        if isinstance(t, Builtin) and t.name in ('tuple', 'list', 'dict', 'set'):
            return False
        raise Unsupported(f'isinstance of an opaque cell value with {t!r}', node)


class FKind(VKind):
    """the formula field: an ExcelFormula object (truthy) or None"""

    @staticmethod
    def getattr(interp, v, name, node):
        if name == 'python_code':
            # a formula object always carries code (A-CODE): only its truth is used here
            return 'python-code'
        raise Unsupported(f'attribute {name} of a formula', node)

    @staticmethod
    def truth(interp, v):
        return interp.ex.branch(v.t != NONE_V)


class SAddrKey:
    """the address text of a node (cell.address.address): a key of cell_map and of the address sets"""

    def __init__(self, node):
        self.node = node

    def contains(self, interp, item):
        # ':' in address  <=>  the node is a range
        if item == ':':
            return mk_bool(ISRANGE(self.node))
        raise Unsupported('substring test on an address key')

    def hm_str(self, interp):
        return sym.mk_str(ADDRTEXT(self.node))

    def __repr__(self):
        return f'<address of {self.node}>'


class SAddrObj:
    """an AddressRange / AddressCell known only as the address of a node"""

    def __init__(self, node):
        self.node = node

    def hm_getattr(self, interp, name, node):
        if name == 'address':
            return SAddrKey(self.node)
        if name == 'is_range':
            return mk_bool(ISRANGE(self.node))
        if name == 'is_unbounded_range':
            return mk_bool(ISUNBOUNDED(self.node))
        raise Unsupported(f'address.{name} of an abstract node', node)

    def hm_str(self, interp):
        return sym.mk_str(ADDRTEXT(self.node))


class SNodeSet:
    """a set of address keys held in a local / closure variable, stored as heap field 'set:<name>'"""

    def __init__(self, name):
        self.name = name
        self.field = 'set:' + name

    def term(self, interp):
        return heap_of(interp.ex)[self.field]

    def contains(self, interp, item):
        return mk_bool(z3.Select(self.term(interp), _node(item)))

    def hm_getattr(self, interp, name, node):
        from .interp import Builtin
        if name == 'add':
            def add(i, args, kwargs, n):
                ex = i.ex
                h = dict(heap_of(ex))
                h[self.field] = z3.Store(h[self.field], _node(args[0]), True)
                ex.heap = h
            return Builtin('set.add', add)
        if name == 'append':
            return self.hm_getattr(interp, 'add', node)
        if name == 'pop':
            def pop(i, args, kwargs, n):
                # some member; it leaves the collection (a work list holds a node once)
                ex = i.ex
                m = z3.Const(ex.fresh_name('popped'), Node)
                h = dict(heap_of(ex))
                if not ex.branch(z3.Select(h[self.field], m)):
                    raise sym.PathAbort()
                h[self.field] = z3.Store(h[self.field], m, False)
                ex.heap = h
                return heap_cell(i, m)
            return Builtin('list.pop', pop)
        raise Unsupported(f'set method {name} on a node set', node)

    def hm_truth(self, interp):
        ex = interp.ex
        return ex.branch(self.term(interp) != z3.K(Node, False))


def to_v(interp, x):
    """python value -> term of sort V"""
    if isinstance(x, sym.SOpaque) and x.kind is VKind:
        return x.t
    if x is None:
        return NONE_V
    if isinstance(x, bool):
        raise Unsupported('bool constant as an opaque value')
    if isinstance(x, int):
        t = VINT(z3.IntVal(x))
        interp.ex.add_axiom(t != NONE_V)
        return t
    raise Unsupported(f'value of type {type(x).__name__} in the heap')


def opaque(t):
    return sym.SOpaque(t, VKind)


class STypeTag:
    def __init__(self, t):
        self.t = t


class HeapFields:
    """dict-like view of one node's fields: heap-backed ones go through the arrays of the path"""

    def __init__(self, interp, node, plain):
        self.interp = interp
        self.node = node
        self.plain = dict(plain)

    def __contains__(self, name):
        return name in HEAP_FIELDS or name in self.plain or name in ('address', 'needed_addresses', 'addresses')

    def __getitem__(self, name):
        if name in HEAP_FIELDS:
            h = heap_of(self.interp.ex)
            t = z3.simplify(z3.Select(h[name], self.node))
            return sym.SOpaque(t, FKind) if name == 'formula' else opaque(t)
        if name == 'address' and name not in self.plain:
            return SAddrObj(self.node)
        if name == 'addresses' and name not in self.plain:
            return SMemberTable(self.node)
        if name == 'needed_addresses' and name not in self.plain:
            # the addresses the node's formula (or the range) needs: its read-precedents
            d = self.node
            return SAbstractSet(lambda p, _d=d: READS(p, _d), 'needed_addresses', element=lambda interp, n: SAddrObj(n))
        return self.plain[name]

    def __setitem__(self, name, value):
        if name in HEAP_FIELDS:
            ex = self.interp.ex
            h = dict(heap_of(ex))
            before = h[name]
            h[name] = z3.Store(h[name], self.node, to_v(self.interp, value))
            ex.heap = h
            if name == 'value':
                f_congruence(ex, before, h[name])        # F over the values before and after this assignment
            ex.heap_writes.append((name, self.node))
            return
        self.plain[name] = value

    def get(self, name, default=None):
        return self[name] if name in self else default


def heap_cell(interp, node_term, cls_target='pycel.excelcompiler:_Cell'):
    from .interp import SObj
    from .vc import resolve_ref
    cls = resolve_ref(interp.world, cls_target)
    obj = SObj(cls, {})
    obj.fields = HeapFields(interp, node_term, {})
    obj.node = node_term
    return obj


class SCellMap:
    """self.cell_map"""

    def __init__(self, mutable=False, classes=False):
        # mutable: membership is the heap set 'cell_map' over nodes (graph construction); otherwise the static map
        self.mutable = mutable
        # classes: a node found in the map is a _CellRange or a _Cell according to is_range_node (evaluation)
        self.classes = classes

    def hm_index(self, interp, idx, node):
        if isinstance(idx, SAddrKey) and self.mutable:
            if not interp.ex.branch(z3.Select(heap_of(interp.ex)['set:cell_map'], idx.node)):
                interp.raise_exc('KeyError', 'address not in cell_map', node)
            return heap_cell(interp, idx.node)
        if isinstance(idx, SAddrKey):
            interp.world.trusted.add('A-MAP: cell_map holds the node of every address that a node of the graph needs '
                                     '(_gen_graph built the precedents of every output)')
            return heap_cell(interp, idx.node)
        t = sym.str_term(idx)
        if not interp.ex.branch(INMAP(t)):
            interp.raise_exc('KeyError', 'address not in cell_map', node)
        n = CELLMAP(t)
        if self.classes and interp.ex.branch(ISRANGE(n)):
            return heap_cell(interp, n, 'pycel.excelcompiler:_CellRange')
        return heap_cell(interp, n)

    def as_abstract_set(self, interp):
        """iteration over the map: its keys, i.e. the addresses of the nodes that are in it now"""
        if not self.mutable:
            raise Unsupported('iteration over the static cell_map')
        snap = heap_of(interp.ex)['set:cell_map']
        return SAbstractSet(lambda n, _s=snap: z3.Select(_s, n), 'cell_map keys', element=lambda i, n: SAddrKey(n))

    def hm_getattr(self, interp, name, node):
        from .interp import Builtin
        if name == 'items':
            def items(i, a, k, n):
                if not self.mutable:
                    raise Unsupported('iteration over the static cell_map', n)
                snap = heap_of(i.ex)['set:cell_map']
                return SAbstractSet(lambda nd, _s=snap: z3.Select(_s, nd), 'cell_map items',
                                    element=lambda ii, nd: (SAddrKey(nd), heap_cell(ii, nd)))
            return Builtin('cell_map.items', items)
        if name == 'get':
            def get(i, a, k, n):
                key = a[0]
                default = a[1] if len(a) > 1 else None
                if isinstance(key, SAddrKey) and self.mutable:
                    if i.ex.branch(z3.Select(heap_of(i.ex)['set:cell_map'], key.node)):
                        return heap_cell(i, key.node)
                    return default
                if isinstance(key, SAddrKey):
                    return heap_cell(i, key.node)      # A-MAP
                if isinstance(key, (str, sym.SStr)):
                    t = sym.str_term(key)
                    if not i.ex.branch(INMAP(t)):
                        return default
                    nd = CELLMAP(t)
                    if self.classes and i.ex.branch(ISRANGE(nd)):
                        return heap_cell(i, nd, 'pycel.excelcompiler:_CellRange')
                    return heap_cell(i, nd)
                raise Unsupported('cell_map.get with this key', n)
            return Builtin('cell_map.get', get)
        raise Unsupported(f'cell_map.{name}', node)

    def hm_delete_index(self, interp, idx, node):
        if not (isinstance(idx, SAddrKey) and self.mutable):
            raise Unsupported('del cell_map[...] with this key', node)
        ex = interp.ex
        h = dict(heap_of(ex))
        if not ex.branch(z3.Select(h['set:cell_map'], idx.node)):
            interp.raise_exc('KeyError', 'address not in cell_map', node)
        h['set:cell_map'] = z3.Store(h['set:cell_map'], idx.node, False)
        ex.heap = h

    def hm_len(self, interp, node):
        n = z3.Int(interp.ex.fresh_name('n_cells'))
        interp.ex.assume(n >= 0)
        return sym.mk_int(n)

    def contains(self, interp, item):
        if isinstance(item, SAddrKey):
            if self.mutable:
                return mk_bool(z3.Select(heap_of(interp.ex)['set:cell_map'], item.node))
            return True          # A-MAP
        return mk_bool(INMAP(sym.str_term(item)))


class SMemberTable:
    """range.addresses: the rows of member addresses of a range node (members = its read-precedents)"""

    def __init__(self, node):
        self.node = node


class SMemberTableGen:
    """a generator expression over the rows of a member table, not yet consumed"""

    def __init__(self, table, gen_node, env):
        self.table = table
        self.gen_node = gen_node
        self.env = env


def consume_member_table(interp, gen, node):
    """tuple(tuple(E(addr) for addr in row) for row in range.addresses): E is evaluated once for every member of the
    range, in some order; it may change the heap (E evaluates the member).  Cut like a loop at the invariants the
    contract gives under the key 'members'; the result is the table of what E returned, which for E = _evaluate is the
    table of the members' values: by definition the value F(range, values) of a range node without formula."""
    import ast
    from .interp import Env
    from .vc import PathDone
    vr = interp.world.verifier
    c = vr.active
    invs = (getattr(c, 'invariants', None) or {}).get('members')
    g_outer = gen.gen_node
    if invs is None:
        raise Unsupported('comprehension over the members of a range without invariants', node)
    inner = g_outer.elt
    # expected shape: tuple(<genexp over the row>)
    if not (isinstance(inner, ast.Call) and isinstance(inner.func, ast.Name) and inner.func.id == 'tuple'
            and len(inner.args) == 1 and isinstance(inner.args[0], ast.GeneratorExp)
            and len(inner.args[0].generators) == 1 and not inner.args[0].generators[0].ifs
            and len(g_outer.generators) == 1 and not g_outer.generators[0].ifs):
        raise Unsupported('comprehension over the members of a range: unexpected shape', node)
    g_in = inner.args[0]
    ex = interp.ex
    rng = gen.table.node
    args = vr.current_args
    owner = c.name
    vr.loop_env = gen.env
    vr.loop_heap = dict(heap_of(ex))
    vr.done_set = z3.K(Node, False)
    for i, inv in enumerate(invs):
        vr.oblige_spec(f'{owner}/inv-init@members#{i}:{inv.__name__}', 'inv-init', inv, args)
    entry = dict(heap_of(ex))
    ex.heap = fresh_heap(ex, 'members')
    for f_ in entry:
        if f_ != 'value':
            ex.heap[f_] = entry[f_]          # evaluating members computes values, nothing else (checked at inv-keep)
    done = z3.Array(ex.fresh_name('done@members'), Node, z3.BoolSort())
    m = z3.Const(ex.fresh_name('dm'), Node)
    ex.assume(z3.ForAll([m], z3.Implies(z3.Select(done, m), READS(m, rng))))
    vr.done_set = done
    for inv in invs:
        vr.assume_spec(inv, args)
    if ex.choose(2) == 0:
        cn = z3.Const(ex.fresh_name('member'), Node)
        ex.assume(z3.And(READS(cn, rng), z3.Not(z3.Select(done, cn))))
        cenv = Env({}, gen.env, gen.env.module)
        interp.assign(g_in.generators[0].target, SAddrObj(cn), cenv)
        interp.eval(g_in.elt, cenv)
        vr.done_set = z3.Store(done, cn, True)
        for i, inv in enumerate(invs):
            vr.oblige_spec(f'{owner}/inv-keep@members#{i}:{inv.__name__}', 'inv-keep', inv, args)
        cur = heap_of(ex)
        vr.oblige(f'{owner}/inv-keep@members:frame', 'inv-keep',
                  mk_bool(z3.And(*[cur[f_] == entry[f_] for f_ in entry if f_ != 'value'])))
        raise PathDone()
    m2 = z3.Const(ex.fresh_name('dm'), Node)
    ex.assume(z3.ForAll([m2], z3.Implies(READS(m2, rng), z3.Select(done, m2))))
    interp.world.trusted.add('A-RANGE-F: the value of a range node without formula is the table of the values of its '
                             'members: F(range, values) is that table (definition)')
    r = FSEM(rng, heap_of(ex)['value'])
    ex.assume(r != NONE_V)
    return opaque(r)


class SAbstractSet:
    """an iterable whose members are characterised by a predicate over Node"""

    def __init__(self, member, label, element=None):
        self.member = member        # callable(node_term) -> z3 Bool
        self.label = label
        self.element = element or (lambda interp, n: heap_cell(interp, n))    # what the loop variable is bound to


class SGraph:
    """self.dep_graph (networkx DiGraph; A-NX)"""

    def __init__(self, classes=False):
        # classes: a neighbour is a _CellRange or a _Cell according to is_range_node (code that tests isinstance)
        self.classes = classes

    def _element(self):
        if not self.classes:
            return None

        def element(interp, n):
            if interp.ex.branch(ISRANGE(n)):
                return heap_cell(interp, n, 'pycel.excelcompiler:_CellRange')
            return heap_cell(interp, n)
        return element

    def hm_getattr(self, interp, name, node):
        from .interp import Builtin
        interp.world.trusted.add('A-NX: networkx.DiGraph is a set of nodes and a set of edges: `n in g`, '
                                 'g.successors(n), g.predecessors(n), add_edge')
        if name == 'successors':
            return Builtin('successors', lambda i, a, k, n: SAbstractSet(
                lambda m, _c=a[0].node: SUCC(_c, m), 'successors', self._element()))
        if name == 'add_edge':
            def add_edge(i, a, k, n):
                ex = i.ex
                h = dict(heap_of(ex))
                p, d = _node(a[0]), _node(a[1])
                h['edges'] = z3.Store(h['edges'], p, z3.Store(z3.Select(h['edges'], p), d, True))
                ex.heap = h
            return Builtin('add_edge', add_edge)
        if name in ('nodes', 'edges'):
            # only their number is used (a log line)
            return Builtin(name, lambda i, a, k, n: sym.mk_int(z3.Int(i.ex.fresh_name('n_' + name))))
        if name == 'predecessors':
            return Builtin('predecessors', lambda i, a, k, n: SAbstractSet(
                lambda m, _c=a[0].node: SUCC(m, _c), 'predecessors', self._element()))
        raise Unsupported(f'dep_graph.{name}', node)

    def contains(self, interp, item):
        return mk_bool(INNODE(item.node))


def heap_evaluate(interp, args, kwargs, node):
    """self.evaluate(address) as seen by graph surgery: it may compute and cache values of nodes that have none, never
    changes a cached value, a formula or an address set, and the evaluated node has a value afterwards (a formula
    never evaluates to None: eval_func maps blank to 0 - C09 blank_is_zero)"""
    interp.world.trusted.add('A-EVALUATE-CACHES: evaluate(address) only fills in values of un-cached nodes and leaves the '
                             'evaluated formula cell with a value that is not None (bounded for C01/C05; the not-None '
                             'part is proved for eval_func in C09)')
    target = args[0]
    if isinstance(target, SAddrKey):
        n = target.node
    else:
        n = CELLMAP(sym.str_term(target))
    ex = interp.ex
    h = dict(heap_of(ex))
    old = h['value']
    new = z3.Array(ex.fresh_name('value@evaluate'), Node, V)
    m = z3.Const(ex.fresh_name('ev'), Node)
    ex.assume(z3.ForAll([m], z3.Implies(z3.Select(old, m) != NONE_V, z3.Select(new, m) == z3.Select(old, m))))
    ex.assume(z3.Select(new, n) != NONE_V)
    h['value'] = new
    ex.heap = h
    return opaque(z3.Select(new, n))


def make_heap_eval(frames, raises=()):
    """self.eval(cell) as seen by _evaluate: the compiled formula evaluates its read-precedents through _evaluate
    (frames: the clauses of _evaluate's own contract that hold across those nested calls - induction on the depth of
    the recursion) and returns F(cell, values), a value that is neither None (eval_func maps blank to 0: C09) nor an
    address (written references only: computed references - INDIRECT / OFFSET - are outside C01 / C04)"""
    def heap_eval(interp, args, kwargs, node):
        vr = interp.world.verifier
        ex = interp.ex
        cell = args[0]
        n = _node(cell)
        interp.world.trusted.add('A-EVAL: a compiled formula reads exactly its declared read-precedents, through _evaluate, '
                                 'and returns F(cell, their values); no other effect')
        pre = dict(heap_of(ex))
        ex.heap = fresh_heap(ex, 'eval')
        # what evaluation cannot touch
        for f in pre:
            if f != 'value':
                ex.heap[f] = pre[f]
        vr.old_heaps.append(pre)
        try:
            for fr in frames:
                vr.assume_spec(fr, list(vr.current_args))
        finally:
            vr.old_heaps.pop()
        new = heap_of(ex)['value']
        # the cell under evaluation is not assigned by the evaluations it triggers (acyclic model; a cycle raises
        # RecursionError in non-iterative mode)
        interp.world.trusted.add('A-ACYCLIC: evaluating a formula does not (transitively) evaluate the same cell')
        ex.assume(z3.Select(new, n) == z3.Select(pre['value'], n))
        f_congruence(ex, pre['value'], new)
        if raises:
            # the formula may fail (unknown function, a function that raises, a failing precedent): eval_func lets only
            # pycel's own errors out (proved in C09); what the nested evaluations did before the failure obeys the frames
            k = ex.choose(len(raises) + 1)
            if k:
                from .sym import PyExc
                raise PyExc(raises[k - 1], 'raised by the compiled formula (abstract)')
        p = z3.Const(ex.fresh_name('rp'), Node)
        ex.assume(z3.ForAll([p], z3.Implies(READS(p, n), z3.Select(new, p) != NONE_V)))
        r = FSEM(n, new)
        ex.assume(r != NONE_V)
        return opaque(r)
    return heap_eval


class Dummy:
    """an object whose methods do nothing (loggers)"""

    def hm_getattr(self, interp, name, node):
        from .interp import Builtin
        return Builtin(f'log.{name}', lambda i, a, k, n: None)


# ---------------------------------------------------------------------------------------------
# spec twins: the vocabulary of heap contracts
# ---------------------------------------------------------------------------------------------

def _node(x):
    if hasattr(x, 'node'):
        return x.node
    if isinstance(x, NodeVal):
        return x.t
    raise Unsupported('expected a cell / node')


class NodeVal:
    """a quantified / skolem node handed to a spec lambda"""

    def __init__(self, t):
        self.t = t
        self.node = t


def cur_heap(interp):
    return heap_of(interp.ex)


def old_heap(interp):
    vr = interp.world.verifier
    if not vr.old_heaps:
        raise Unsupported('old_* used outside a post-state context')
    return vr.old_heaps[-1]


def sx_cached(interp, args, kwargs, node):
    return mk_bool(z3.Select(cur_heap(interp)['value'], _node(args[0])) != NONE_V)


def sx_old_cached(interp, args, kwargs, node):
    return mk_bool(z3.Select(old_heap(interp)['value'], _node(args[0])) != NONE_V)


def sx_same_value(interp, args, kwargs, node):
    """value of the node is identical (tag and payload) in the old and the current heap"""
    n = _node(args[0])
    return mk_bool(z3.Select(cur_heap(interp)['value'], n) == z3.Select(old_heap(interp)['value'], n))


def sx_value_is(interp, args, kwargs, node):
    """the node now holds exactly the given value (identity, not python ==)"""
    n = _node(args[0])
    return mk_bool(z3.Select(cur_heap(interp)['value'], n) == to_v(interp, args[1]))


def sx_succ(interp, args, kwargs, node):
    return mk_bool(SUCC(_node(args[0]), _node(args[1])))


def sx_same_node(interp, args, kwargs, node):
    return mk_bool(_node(args[0]) == _node(args[1]))


def sx_in_done(interp, args, kwargs, node):
    vr = interp.world.verifier
    if vr.done_set is None:
        raise Unsupported('done() used outside a loop invariant')
    return mk_bool(z3.Select(vr.done_set, _node(args[0])))


def sx_forall_nodes(interp, args, kwargs, node):
    pred = args[0]
    vr = interp.world.verifier
    ex = interp.ex
    if vr.spec_mode == 'assume':
        m = z3.Const(ex.fresh_name('qn'), Node)
        parts = []
        for extra, kind, val in vr.summarize_callable(pred, [NodeVal(m)], 'assume'):
            if kind == 'exc':
                continue
            t = vr.as_bool_term(val)
            if t is False:
                continue
            conj = list(extra) + ([] if t is True else [t])
            parts.append(z3.And(*conj) if conj else z3.BoolVal(True))
        body = z3.Or(*parts) if parts else z3.BoolVal(False)
        return mk_bool(z3.ForAll([m], body))
    m = z3.Const(ex.fresh_name('skn'), Node)
    return interp.call(pred, [NodeVal(m)], {}, node)


def sx_reads(interp, args, kwargs, node):
    """reads(p, d): the formula of d consumes the value of p (a subset of the graph edges)"""
    return mk_bool(READS(_node(args[0]), _node(args[1])))


def sx_computed(interp, args, kwargs, node):
    """d is a formula cell or a range node (its value is computed, not an input)"""
    return mk_bool(COMPUTED(_node(args[0])))


def f_congruence(ex, va, vb):
    """F(d, .) depends only on the values of d's reads-precedents (A-EVAL)"""
    d, p = z3.Consts('f_d f_p', Node)
    ex.add_axiom(z3.ForAll([d], z3.Implies(
        z3.ForAll([p], z3.Implies(READS(p, d), z3.Select(va, p) == z3.Select(vb, p))),
        FSEM(d, va) == FSEM(d, vb))))


def sx_holds_f(interp, args, kwargs, node):
    """the cached value of d is what its formula yields from the current values of its precedents"""
    interp.world.trusted.add('A-EVAL: a compiled formula is a deterministic function F(d, values) of the values of '
                             'its declared read-precedents and has no other effect (this is C04 + purity of the '
                             'library functions)')
    n = _node(args[0])
    cur = cur_heap(interp)['value']
    vr = interp.world.verifier
    if vr.old_heaps:
        f_congruence(interp.ex, old_heap(interp)['value'], cur)
    return mk_bool(z3.Select(cur, n) == FSEM(n, cur))


def sx_old_holds_f(interp, args, kwargs, node):
    n = _node(args[0])
    old = old_heap(interp)['value']
    return mk_bool(z3.Select(old, n) == FSEM(n, old))


def _set_field(h, name, node=None):
    f = h.get('set:' + name)
    if f is None:
        raise Unsupported(f'the contract speaks about the address set {name!r}, which the code under verification does not '
                          f'keep as such (a plain `{name} = set()` local is expected)', node)
    return f


def sx_in_set(interp, args, kwargs, node):
    return mk_bool(z3.Select(_set_field(cur_heap(interp), args[0], node), _node(args[1])))


def sx_old_in_set(interp, args, kwargs, node):
    return mk_bool(z3.Select(_set_field(old_heap(interp), args[0], node), _node(args[1])))


def sx_has_formula(interp, args, kwargs, node):
    return mk_bool(z3.Select(cur_heap(interp)['formula'], _node(args[0])) != NONE_V)


def sx_old_has_formula(interp, args, kwargs, node):
    return mk_bool(z3.Select(old_heap(interp)['formula'], _node(args[0])) != NONE_V)


def sx_same_formula(interp, args, kwargs, node):
    n = _node(args[0])
    return mk_bool(z3.Select(cur_heap(interp)['formula'], n) == z3.Select(old_heap(interp)['formula'], n))


def sx_is_unbounded(interp, args, kwargs, node):
    return mk_bool(ISUNBOUNDED(_node(args[0])))


def sx_is_range(interp, args, kwargs, node):
    return mk_bool(ISRANGE(_node(args[0])))


def sx_edge(interp, args, kwargs, node):
    return mk_bool(edge_term(cur_heap(interp), _node(args[0]), _node(args[1])))


def sx_old_edge(interp, args, kwargs, node):
    return mk_bool(edge_term(old_heap(interp), _node(args[0]), _node(args[1])))


def loop_heap(interp):
    vr = interp.world.verifier
    h = getattr(vr, 'loop_heap', None)
    if h is None:
        raise Unsupported('pre_* used outside a loop invariant')
    return h


def sx_pre_in_set(interp, args, kwargs, node):
    """membership when the loop being cut was entered"""
    return mk_bool(z3.Select(_set_field(loop_heap(interp), args[0], node), _node(args[1])))


def sx_pre_same_fields(interp, args, kwargs, node):
    """value and formula of the node are what they were when the loop was entered"""
    n = _node(args[0])
    lh, ch = loop_heap(interp), cur_heap(interp)
    return mk_bool(z3.And(z3.Select(ch['value'], n) == z3.Select(lh['value'], n),
                          z3.Select(ch['formula'], n) == z3.Select(lh['formula'], n)))


def sx_local(interp, args, kwargs, node):
    """the value of a local variable of the function under verification at the loop being cut"""
    vr = interp.world.verifier
    env = getattr(vr, 'loop_env', None)
    if env is None:
        raise Unsupported('local() used outside a loop invariant')
    return env.lookup(args[0])


def sx_in_map(interp, args, kwargs, node):
    if isinstance(args[0], SAddrKey):
        return True          # the address of a node of the model
    return mk_bool(INMAP(sym.str_term(args[0])))


def sx_cell_at(interp, args, kwargs, node):
    if isinstance(args[0], SAddrKey):
        return heap_cell(interp, args[0].node)
    return heap_cell(interp, CELLMAP(sym.str_term(args[0])))
