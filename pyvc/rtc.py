"""Bounded stand-in runner (native, under /venv/bin/python).

The sidecar's `bounded(tier, seed, R)` drives the *real* functions over an
enumerated domain and evaluates the *same* contract clauses natively:
R.check(obligation, ok, witness) per evaluation.  Results are reported as
`bounded`, with the bound, and are never counted as proved.
"""
import argparse
import hashlib
import importlib
import json
import os
import sys
import time


class Reporter:
    def __init__(self, pid, out_dir):
        self.pid = pid
        self.out_dir = out_dir
        self.evaluations = 0
        self.seen = set()
        self.distinct_nontrivial = 0
        self.failures = []
        self.rule = ''
        self.bound = ''
        self.per_obligation = {}
        self.samples = []
        self.known = []
        self.known_hits = {}
        self.known_example = {}
        self.mod = None

    def check(self, obligation, ok, witness, nontrivial=True):
        self.evaluations += 1
        self.per_obligation[obligation] = self.per_obligation.get(obligation, 0) + 1
        if nontrivial:
            h = hashlib.sha1(repr((obligation, witness)).encode()).digest()[:8]
            if h not in self.seen:
                self.seen.add(h)
                self.distinct_nontrivial += 1
        if len(self.samples) < 5 and self.evaluations % 97 == 1:
            self.samples.append({'obligation': obligation, 'witness': repr(witness)[:300], 'ok': bool(ok)})
        if not ok:
            kf = self.classify(obligation, witness)
            if kf is not None:
                self.known_hits[kf] = self.known_hits.get(kf, 0) + 1
                if kf not in self.known_example:
                    self.known_example[kf] = {'obligation': obligation, 'witness': witness}
            elif len(self.failures) < 200:
                self.failures.append({'obligation': obligation, 'witness': witness})

    def classify(self, obligation, witness):
        """id of the known finding this failure belongs to, or None."""
        for e in self.known:
            if e['obligation'] != obligation:
                continue
            cls = e.get('witness_class')
            if cls is None:
                return e['id']
            fn = getattr(self.mod, cls, None)
            try:
                if fn is not None and fn(witness):
                    return e['id']
            except Exception:
                pass
        return None

    def guard(self, obligation, fn, witness, nontrivial=True):
        """check that fn() returns truthy and does not raise."""
        try:
            ok = fn()
            detail = None
        except Exception as e:      # noqa
            ok = False
            detail = f'{type(e).__name__}: {e}'
        if not ok and detail:
            witness = dict(witness) if isinstance(witness, dict) else {'witness': witness}
            witness['_raised'] = detail
        self.check(obligation, ok, witness, nontrivial)
        return ok


def main():
    ap = argparse.ArgumentParser()
    ap.add_argument('pid')
    ap.add_argument('--tier', default='quick')
    ap.add_argument('--seed', type=int, default=0)
    ap.add_argument('--repo', default='/repo')
    ap.add_argument('--out', required=True)
    args = ap.parse_args()
    here = os.path.dirname(os.path.dirname(os.path.abspath(__file__)))
    sys.path.insert(0, here)
    sys.path.insert(0, os.path.join(args.repo, 'src'))
    mod = importlib.import_module(f'contracts.{args.pid.lower()}')
    R = Reporter(args.pid, os.path.dirname(args.out))
    R.mod = mod
    kpath = os.path.join(here, 'known_findings.json')
    if os.path.exists(kpath):
        with open(kpath) as f:
            R.known = [e for e in json.load(f).get('findings', []) if e.get('property') == args.pid]
    t0 = time.time()
    mod.bounded(args.tier, args.seed, R)
    fails = []
    for i, fl in enumerate(R.failures[:20]):
        path = os.path.join(os.path.dirname(args.out), f'{args.pid}-bounded-{i + 1}.json')
        with open(path, 'w') as f:
            json.dump({'property': args.pid, 'obligation': fl['obligation'], 'kind': 'bounded',
                       'witness': fl['witness'], 'note': 'bounded stand-in failure on the real code'},
                      f, indent=1, default=repr)
        fails.append({'obligation': fl['obligation'], 'witness': fl['witness'], 'replay': path})
    res = {'evaluations': R.evaluations, 'distinct_nontrivial': R.distinct_nontrivial, 'rule': R.rule,
           'bound': R.bound, 'per_obligation': R.per_obligation, 'n_failures': len(R.failures),
           'failures': fails, 'known_hits': R.known_hits, 'samples': R.samples, 'native_wall_s': round(time.time() - t0, 2)}
    with open(args.out, 'w') as f:
        json.dump(res, f, indent=1, default=repr)
    sys.exit(1 if R.failures else 0)


if __name__ == '__main__':
    try:
        main()
    except SystemExit:
        raise
    except BaseException:       # a crash of the harness is a fault (exit 3), never a violation
        import traceback
        traceback.print_exc()
        sys.exit(3)
