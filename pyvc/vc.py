"""Verification-condition generation and discharge.

verify_contract(): symbolically executes the *real* function (re-read from
/repo on every run) for every scenario of its contract, path by path; every
path end yields obligations (post clauses, allowed-raise clauses, call-site
preconditions, loop-invariant clauses) that are discharged by SMT queries
`path condition => clause`.
"""
import ast
import fractions
import itertools
import os
import subprocess
import tempfile
import time

import z3

from . import spec as S
from . import sym
from .explorer import Explorer, relevant, symbols_of
from .interp import (BoundMethod, Builtin, ClassModel, Closure, Env, Interp,
                     ReturnSig, SObj, World)
from .sym import (PathAbort, PyExc, SBool, SFloat, SInt, SStr, SV, Unsupported,
                  mk_bool, mk_float, mk_int, mk_str)

MAIN_TIMEOUT_MS = int(os.environ.get('PYVC_TIMEOUT_MS', '10000'))
MAIN_RLIMIT = int(os.environ.get('PYVC_RLIMIT', '30000000'))
QUICK_RLIMIT = int(os.environ.get('PYVC_QUICK_RLIMIT', '4000000'))
PORTFOLIO_BUDGET_S = float(os.environ.get('PYVC_PORTFOLIO_S', '120'))
PORTFOLIO_SPENT_S = 0.0
TIME_SCALE = 1          # > 1 for the deep tier (check.py)
CVC5 = '/usr/bin/cvc5'
OLDZ3 = '/usr/bin/z3'


# ---------------------------------------------------------------------------
# discharge
# ---------------------------------------------------------------------------

class MergedModel:
    """Union of two models over disjoint symbol sets."""

    def __init__(self, a, b):
        self.a, self.b = a, b

    def eval(self, t, model_completion=True):
        from .explorer import symbols_of
        syms = symbols_of(t)
        in_a = {d.name() for d in self.a.decls()}
        if syms & in_a or not syms:
            return self.a.eval(t, model_completion=model_completion)
        return self.b.eval(t, model_completion=model_completion)


class Verdict:
    def __init__(self, status, backend, ms, model=None, reason=''):
        self.status = status      # 'unsat' (discharged) | 'sat' (fails) | 'unknown'
        self.backend = backend
        self.ms = ms
        self.model = model
        self.reason = reason


def run_cli(cmd, text, timeout_s):
    with tempfile.NamedTemporaryFile('w', suffix='.smt2', delete=False,
                                     dir=os.environ.get('TMPDIR', '/tmp')) as f:
        f.write(text)
        path = f.name
    try:
        t0 = time.time()
        try:
            out = subprocess.run(cmd + [path], capture_output=True, text=True, timeout=timeout_s)
            res = out.stdout.strip().split('\n')[0] if out.stdout.strip() else 'unknown'
        except subprocess.TimeoutExpired:
            res = 'timeout'
        return res, (time.time() - t0) * 1000
    finally:
        os.unlink(path)


def _z3_check(rel, neg, rlimit, timeout_ms=None):
    s = z3.Solver()
    s.set('rlimit', rlimit)
    if timeout_ms:
        s.set('timeout', timeout_ms)     # backstop: some tactics (nlsat) ignore rlimit
    for c in rel:
        s.add(c)
    s.add(neg)
    t0 = time.time()
    r = s.check()
    return r, s, (time.time() - t0) * 1000


def check_valid(pc, goal, timeout_ms=None, portfolio=True):
    """check_valid_raw; a verdict other than `unsat` on a query that uses the abstract string order (strorder.py)
    is not reported: the query is asked again with the real str.< in its place."""
    v = check_valid_raw(pc, goal, timeout_ms, portfolio)
    if v.status == 'unsat' or isinstance(goal, bool) and goal:
        return v
    from . import strorder
    g = z3.BoolVal(goal) if isinstance(goal, bool) else goal
    if not (strorder.mentions(g) or any(strorder.mentions(c) for c in pc)):
        return v
    v2 = check_valid_raw([strorder.concretize(c) for c in pc], strorder.concretize(g), timeout_ms, portfolio)
    v2.ms += v.ms
    v2.backend = v2.backend + '(str.< after abstract ' + v.status + ')'
    return v2


def check_valid_raw(pc, goal, timeout_ms=None, portfolio=True):
    """Is (AND pc) => goal valid?  Returns Verdict.

    Portfolio (each step only when the previous ones answered unknown):
      z3 5.1 at a small resource limit -> cvc5 (short wall-clock cap) -> z3 with the to_int
      encoding of floor() -> z3 at a larger resource limit -> z3 4.8.
    Resource limits, not wall-clock, wherever the solver offers them."""
    global PORTFOLIO_SPENT_S
    if isinstance(goal, bool):
        if goal:
            return Verdict('unsat', 'trivial', 0.0)
        goal_t = z3.BoolVal(False)
    else:
        goal_t = goal
    neg = z3.Not(goal_t)
    rel = relevant(pc, symbols_of(neg))
    r, s, ms = _z3_check(rel, neg, QUICK_RLIMIT)
    if r == z3.unsat:
        return Verdict('unsat', 'z3-5.1', ms)
    if r == z3.sat:
        return _sat_verdict(s, pc, rel, ms)
    reason = s.reason_unknown()
    if not portfolio:
        return Verdict('unknown', 'z3-5.1', ms, reason=reason)
    res = None
    if PORTFOLIO_SPENT_S <= PORTFOLIO_BUDGET_S:
        text = '(set-logic ALL)\n' + s.to_smt2()
        res, ms2 = run_cli([CVC5, '--strings-exp', '--tlimit=6000'], text, 10)
        PORTFOLIO_SPENT_S += ms2 / 1000
        ms += ms2
        if res == 'unsat':
            return Verdict('unsat', 'cvc5-1.0', ms)
    # second encoding of floor(): built-in to_int instead of definitional integer variables
    present = symbols_of(neg)
    for c in rel:
        present = present | symbols_of(c)
    subs = [(k, z3.ToInt(t)) for name, (t, k) in sym.FLOOR_DEFS.items() if name in present]
    if subs:
        r3, s3, ms3 = _z3_check([z3.substitute(c, *subs) for c in rel], z3.substitute(neg, *subs), MAIN_RLIMIT // 3 * TIME_SCALE, 15000 * TIME_SCALE)
        ms += ms3
        if r3 == z3.unsat:
            return Verdict('unsat', 'z3-5.1(to_int)', ms)
    r4, s4, ms4 = _z3_check(rel, neg, MAIN_RLIMIT * TIME_SCALE, 20000 * TIME_SCALE)
    ms += ms4
    if r4 == z3.unsat:
        return Verdict('unsat', 'z3-5.1', ms)
    if r4 == z3.sat:
        return _sat_verdict(s4, pc, rel, ms)
    res3 = None
    if PORTFOLIO_SPENT_S <= PORTFOLIO_BUDGET_S:
        res3, ms5 = run_cli([OLDZ3, '-T:6'], s.to_smt2(), 10)
        PORTFOLIO_SPENT_S += ms5 / 1000
        ms += ms5
        if res3 == 'unsat':
            return Verdict('unsat', 'z3-4.8', ms)
    if res == 'sat' or res3 == 'sat':
        return Verdict('sat', 'cvc5/z3-cli', ms, model=None, reason='sat without parsed model')
    return Verdict('unknown', 'z3-5.1+cvc5+z3-4.8', ms, reason=f'{reason}; cvc5={res}; z3old={res3}')


def _sat_verdict(s, pc, rel, ms):
    model = s.model()
    if len(rel) < len(pc):
        # complete the witness: the dropped conjuncts share no symbol with
        # the query, solve them separately and merge the models
        rest = [c for c in pc if not any(c is k for k in rel)]
        s2 = z3.Solver()
        s2.set('rlimit', MAIN_RLIMIT)
        for c in rest:
            s2.add(c)
        r2 = s2.check()
        if r2 == z3.sat:
            model = MergedModel(model, s2.model())
        elif r2 == z3.unsat:
            # the rest of the path condition is contradictory: the path is infeasible
            # (a branch check had answered unknown), the obligation holds vacuously there
            return Verdict('unsat', 'z3-5.1(infeasible path)', ms)
        else:
            return Verdict('unknown', 'z3-5.1', ms, reason='counter-model of the goal found, but the feasibility '
                                                            'of the rest of the path condition is unknown')
    return Verdict('sat', 'z3-5.1', ms, model=model)


# ---------------------------------------------------------------------------
# building symbolic values from domain descriptors
# ---------------------------------------------------------------------------

def expand_scenarios(params):
    """dict name->Dom with Unions -> list of dict name->Dom without top-level Unions."""
    if isinstance(params, (list, tuple)):
        out = []
        for p in params:
            out.extend(expand_scenarios(p))
        return out
    names = list(params)
    alts = []
    for n in names:
        alts.append(expand_dom(params[n]))
    out = []
    for combo in itertools.product(*alts):
        out.append(dict(zip(names, combo)))
    return out


def expand_dom(d):
    if isinstance(d, S.Union):
        out = []
        for a in d.alts:
            out.extend(expand_dom(a))
        return out
    if isinstance(d, S.Tuple):
        parts = [expand_dom(e) for e in d.elems]
        return [S.Tuple(*c, kind=d.kind) for c in itertools.product(*parts)]
    if isinstance(d, S.Record):
        names = list(d.fields)
        parts = [expand_dom(d.fields[n]) for n in names]
        return [S.Record(d.cls, dict(zip(names, c)), build=d.build, closed=getattr(d, 'closed', False))
                for c in itertools.product(*parts)]
    if isinstance(d, (S.Namespace, S.DictOf)):
        names = list(d.fields)
        parts = [expand_dom(d.fields[n]) for n in names]
        return [type(d)(**dict(zip(names, c))) for c in itertools.product(*parts)]
    return [d]


def dom_label(d):
    if isinstance(d, S.Const):
        return repr(d.value)
    if isinstance(d, S.Ref):
        return d.target.split(':')[-1]
    if isinstance(d, S.Tuple):
        return '(' + ','.join(dom_label(e) for e in d.elems) + ')'
    if isinstance(d, S.Record):
        inner = ','.join(f'{k}={dom_label(v)}' for k, v in d.fields.items()
                         if isinstance(v, (S.Const, S.Record, S.NoneT)))
        return d.cls.split(':')[-1] + (f'[{inner}]' if inner else '')
    if isinstance(d, (S.Namespace, S.DictOf)):
        return ('ns' if isinstance(d, S.Namespace) else 'dict') + '{' + ','.join(
            f'{k}={dom_label(v)}' for k, v in d.fields.items()) + '}'
    if isinstance(d, S.Seq):
        return f'Seq[{dom_label(d.elem)}]'
    if isinstance(d, S.Dyn):
        return 'Dyn'
    if isinstance(d, S.Abstract):
        return f'fn:{d.name}'
    return type(d).__name__.lower().replace('nonet', 'None')


class Decoder:
    """Reads the concrete value of a built symbolic parameter out of a model."""

    def __init__(self, fn):
        self.fn = fn

    def __call__(self, model):
        return self.fn(model)


def model_int(model, t):
    v = model.eval(t, model_completion=True)
    return v.as_long()


def model_real(model, t):
    v = model.eval(t, model_completion=True)
    if z3.is_rational_value(v):
        return {'$frac': [v.numerator_as_long(), v.denominator_as_long()]}
    if z3.is_algebraic_value(v):
        a = v.approx(20)
        return {'$frac': [a.numerator_as_long(), a.denominator_as_long()]}
    return {'$frac': [0, 1]}


def model_str(model, t):
    v = model.eval(t, model_completion=True)
    s = v.as_string()
    # z3 escapes non-printable as \u{..}
    import re
    return re.sub(r'\\u\{([0-9a-fA-F]+)\}', lambda m: chr(int(m.group(1), 16)), s)


def build_value(world, dom, name):
    """Returns (value, decoder).  Adds the domain's constraints as assumptions."""
    ex = world.explorer
    if isinstance(dom, S.Int):
        t = z3.Int(name)
        if dom.lo is not None:
            ex.assume(t >= dom.lo)
        if dom.hi is not None:
            ex.assume(t <= dom.hi)
        return SInt(t), Decoder(lambda m: model_int(m, t))
    if isinstance(dom, S.Bool):
        t = z3.Bool(name)
        return SBool(t), Decoder(lambda m: bool(z3.is_true(m.eval(t, model_completion=True))))
    if isinstance(dom, S.Float):
        t = z3.Real(name)
        if dom.lo is not None:
            ex.assume(t >= sym.real_val(dom.lo))
        if dom.hi is not None:
            ex.assume(t <= sym.real_val(dom.hi))
        return SFloat(t), Decoder(lambda m: dict(model_real(m, t), **{'$float': True}))
    if isinstance(dom, S.Str):
        t = z3.String(name)
        if dom.maxlen is not None:
            ex.assume(z3.Length(t) <= dom.maxlen)
        for x in dom.not_in:
            ex.assume(t != z3.StringVal(x))
        if dom.one_of is not None:
            ex.assume(z3.Or(*[t == z3.StringVal(x) for x in dom.one_of]))
        return SStr(t), Decoder(lambda m: model_str(m, t))
    if isinstance(dom, S.NoneT):
        return None, Decoder(lambda m: None)
    if isinstance(dom, S.Const):
        return dom.value, Decoder(lambda m: dom.value if not isinstance(dom.value, tuple) else {'$tuple': list(dom.value)})
    if isinstance(dom, S.Ref):
        return resolve_ref(world, dom.target), Decoder(lambda m: {'$ref': dom.target})
    if isinstance(dom, S.Tuple):
        vals, decs = [], []
        for i, e in enumerate(dom.elems):
            v, d = build_value(world, e, f'{name}.{i}')
            vals.append(v)
            decs.append(d)
        seq = tuple(vals) if dom.kind == 'tuple' else list(vals)
        tag = '$tuple' if dom.kind == 'tuple' else '$list'
        return seq, Decoder(lambda m: {tag: [d(m) for d in decs]})
    if isinstance(dom, S.Record):
        cls = resolve_ref(world, dom.cls)
        fields, decs = {}, {}
        for k, fd in dom.fields.items():
            v, d = build_value(world, fd, f'{name}.{k}')
            fields[k] = v
            decs[k] = d
        obj = SObj(cls, fields)
        if cls.ntfields is None:
            obj.partial = True
        if getattr(dom, 'closed', False):
            obj.closed = True
        bname = dom.build.__module__ + ':' + dom.build.__name__ if dom.build else None
        return obj, Decoder(lambda m: {'$record': dom.cls, 'build': bname,
                                       'fields': {k: d(m) for k, d in decs.items()}})
    if isinstance(dom, S.Namespace):
        from . import records as REC
        fields, decs = {}, {}
        for k, fd in dom.fields.items():
            v, d = build_value(world, fd, f'{name}.{k}')
            fields[k] = v
            decs[k] = d
        return SObj(REC.namespace_class(world), fields), Decoder(lambda m: {'$namespace': {k: d(m) for k, d in decs.items()}})
    if isinstance(dom, S.ObjSet):
        from . import records as REC
        t = REC.EMPTY if dom.empty else z3.Const(name, REC._SETSORT)
        return REC.SSet(t), Decoder(lambda m: {'$objset': str(m.eval(t, model_completion=True))})
    if isinstance(dom, S.ObjRef):
        from . import records as REC
        t = z3.Const(name, REC.Obj)
        return REC.SObjRef(t), Decoder(lambda m: {'$obj': str(m.eval(t, model_completion=True))})
    if isinstance(dom, S.DictOf):
        vals, decs = {}, {}
        for k, fd in dom.fields.items():
            v, d = build_value(world, fd, f'{name}[{k}]')
            vals[k] = v
            decs[k] = d
        return vals, Decoder(lambda m: {'$dict': {k: d(m) for k, d in decs.items()}})
    if isinstance(dom, S.AbstractKey):
        from .arrays import SAbstractKey
        return SAbstractKey(name), Decoder(lambda m: {'$abstract_key': name})
    if isinstance(dom, S.AnyObj):
        from . import records as REC
        return REC.SAnyObj(name), Decoder(lambda m: {'$anyobj': name})
    if isinstance(dom, S.Abstract):
        fn = AbstractFn(world, dom, name)
        return fn, Decoder(lambda m: {'$abstract': dom.name})
    if isinstance(dom, S.HeapCompiler):
        from . import heapmodel as HM
        cls = resolve_ref(world, 'pycel.excelcompiler:ExcelCompiler')
        building = getattr(dom, 'building', False)
        obj = SObj(cls, {'cycles': dom.cycles, 'cell_map': HM.SCellMap(mutable=building or getattr(dom, 'trimming', False)), 'dep_graph': HM.SGraph(),
                         'log': HM.Dummy(), 'evaluate': Builtin('evaluate', HM.heap_evaluate)})
        obj.partial = True        # an attribute the heap model does not describe is unsupported, not an AttributeError
        if getattr(dom, 'evaluating', None) is not None:
            obj.fields['cell_map'] = HM.SCellMap(classes=True)
            obj.fields['dep_graph'] = HM.SGraph(classes=True)
            obj.fields['eval'] = Builtin('eval', HM.make_heap_eval(list(dom.evaluating), tuple(getattr(dom, 'eval_raises', ()))))
        if building:
            HM.declare_heap_set('graph_todos')
            obj.fields['graph_todos'] = HM.SNodeSet('graph_todos')
            obj.fields['range_todos'] = []
            obj.fields['_evaluate'] = Builtin('_evaluate', HM.heap_evaluate)
            obj.fields['_evaluate_range'] = Builtin('_evaluate_range', HM.heap_evaluate)
        return obj, Decoder(lambda m: {'$heap_compiler': True})
    if isinstance(dom, S.HeapCell):
        from . import heapmodel as HM
        n = z3.Const(name, HM.Node)
        return HM.heap_cell(world.interp, n), Decoder(lambda m: {'$node': str(m.eval(n, model_completion=True))})
    if isinstance(dom, S.HeapAddr):
        from . import heapmodel as HM
        n = z3.Const(name, HM.Node)
        return HM.SAddrObj(n), Decoder(lambda m: {'$node': str(m.eval(n, model_completion=True))})
    if isinstance(dom, S.HeapSet):
        from . import heapmodel as HM
        HM.declare_heap_set(dom.name)
        return HM.SNodeSet(dom.name), Decoder(lambda m: {'$heap_set': dom.name})
    if isinstance(dom, S.OpaqueV):
        from . import heapmodel as HM
        t = z3.Const(name, HM.V)
        if not dom.allow_none:
            ex.assume(t != HM.NONE_V)
        return HM.opaque(t), Decoder(lambda m: {'$value': str(m.eval(t, model_completion=True))})
    if isinstance(dom, S.Array):
        from .arrays import build_array
        return build_array(world, dom, name)
    if isinstance(dom, S.Nested):
        from .pipes import SNested
        vr = world.verifier
        return SNested(name, dom.alts), Decoder(lambda m: {'$nested_counter_element': getattr(vr, 'pipe_cex', None)})
    if isinstance(dom, S.Seq):
        from .combinators import build_seq
        return build_seq(world, dom, name)
    if isinstance(dom, S.Dyn):
        from .dyn import build_dyn
        return build_dyn(world, dom, name)
    raise Unsupported(f'domain {type(dom).__name__}')


def resolve_ref(world, target):
    modname, qual = target.split(':')
    if modname == 'builtins':
        return world.builtins[qual]
    key = f'{modname}.{qual}'
    if key in world.external:
        return world.external[key]
    mod = world.module(modname)
    obj = mod.lookup(qual.split('.')[0])
    for p in qual.split('.')[1:]:
        obj = world.interp.getattr(obj, p)
    return obj


class AbstractFn:
    """A callable parameter known only by its contract."""

    def __init__(self, world, dom, name):
        self.world = world
        self.dom = dom
        self.name = name
        self.calls = []

    def call(self, interp, args, kwargs, node):
        ex = interp.ex
        # an abstract function is still a function: same arguments, same result (per path)
        mkey = ('abstract', self.name, tuple(arg_key(a) for a in args))
        if os.environ.get('PYVC_DEBUG'):
            print('ABSTRACT-CALL', mkey, kwargs)
        if self.dom.pure and mkey in ex.modular_memo:
            return ex.modular_memo[mkey]
        if self.dom.effects is not None:
            self.dom.effects(self.world.verifier, interp, list(args))
        if self.dom.raises:
            k = ex.choose(len(self.dom.raises) + 1)
            if k:
                raise PyExc(self.dom.raises[k - 1], f'raised by the abstract callable {self.name}')
        res, _ = build_value(self.world, pick_alt(self.world, self.dom.returns),
                             ex.fresh_name(f'{self.name}.ret'))
        ex.modular_memo[mkey] = res
        self.calls.append((tuple(args), res))
        if self.dom.ensures is not None:
            fn = self.world.spec_closure(self.dom.ensures)
            r = interp.call_function(fn, list(args) + [res], {})
            assume_value(interp, r)
        return res


def pick_alt(world, dom):
    alts = expand_dom(dom)
    if len(alts) == 1:
        return alts[0]
    return alts[world.explorer.choose(len(alts))]


def assume_value(interp, r):
    if isinstance(r, SBool):
        interp.ex.assume(r.t)
    elif isinstance(r, SV):
        if not interp.truth(r):
            raise PathAbort()
    elif not r:
        raise PathAbort()


# ---------------------------------------------------------------------------
# symbolic twins of spec helpers
# ---------------------------------------------------------------------------

def sx_forall_range(interp, args, kwargs, node):
    """forall_range(lo, hi, pred): one fresh index constrained to the range.

    Used in a *goal* (ensures / lemma body): checking pred at a fresh,
    otherwise unconstrained index within range proves it for all indices
    (skolemisation of the negated universal).  Used under an assumption it
    would be unsound, so assumption contexts instantiate it explicitly (see
    Verifier.assume_spec)."""
    lo, hi, pred = args
    ex = interp.ex
    vr = interp.world.verifier
    if vr.spec_mode == 'assume':
        # in an assumed clause a universal must stay universal; the body may fork (cell types),
        # so it is summarised over all its paths into one formula
        i = z3.Int(ex.fresh_name('qi'))
        lo_t, hi_t = sym.as_int_term(lo), sym.as_int_term(hi)
        parts = []
        for extra, kind, val in vr.summarize_callable(pred, [SInt(i)], 'assume',
                                                      extra_pc=[i >= lo_t, i < hi_t]):
            if kind == 'exc':
                continue
            t = vr.as_bool_term(val)
            if t is False:
                continue
            conj = [c for c in extra] + ([] if t is True else [t])
            parts.append(z3.And(*conj) if conj else z3.BoolVal(True))
        body = z3.Or(*parts) if parts else z3.BoolVal(False)
        return mk_bool(z3.ForAll([i], z3.Implies(z3.And(i >= lo_t, i < hi_t), body)))
    i = z3.Int(ex.fresh_name('sk'))
    lo_t, hi_t = sym.as_int_term(lo), sym.as_int_term(hi)
    if not ex.branch(z3.And(i >= lo_t, i < hi_t)):
        return True
    vr.skolems.append(i)
    return interp.call(pred, [SInt(i)], {}, node)


def arg_key(v):
    """identity of an argument value for memoising modular calls (syntactic: same term)"""
    if isinstance(v, SV):
        return ('sv', type(v).__name__, v.t.sexpr() if v.t is not None else None)
    if isinstance(v, (tuple, list)):
        return (type(v).__name__,) + tuple(arg_key(x) for x in v)
    if isinstance(v, (int, float, str, bool, type(None))):
        return ('c', type(v).__name__, repr(v))
    return ('obj', id(v))


def values_equal(interp, a, b):
    """equality of two argument values as a bool / z3 Bool; arrays pointwise at a skolem index"""
    from .arrays import SArr
    if isinstance(a, SArr) or isinstance(b, SArr):
        if not (isinstance(a, SArr) and isinstance(b, SArr)) or len(a.dims) != 1 or len(b.dims) != 1:
            return False
        ex = interp.ex
        if ex.branch(a.dims[0] != b.dims[0]):
            return False
        k = z3.Int(ex.fresh_name('sk'))
        if not ex.branch(z3.And(k >= 0, k < a.dims[0])):
            return True
        x = a.at(interp, k)
        y = b.at(interp, k)
        if isinstance(x, (SBool, bool)) != isinstance(y, (SBool, bool)):
            return False
        return interp.eq_term(x, y)
    if isinstance(a, (SBool, bool)) != isinstance(b, (SBool, bool)):
        return False
    return interp.eq_term(a, b)


def sx_same_call(interp, args, kwargs, node):
    """same_call('module:function', *args): the result of the call the code made to that (modular)
    function on this path - after proving that the code called it with these very arguments.
    Natively the spec simply calls the real function."""
    vr = interp.world.verifier
    target = args[0]
    want = list(args[1:])
    hits = [(k, v, r) for (k, v, r) in vr.ghost_calls if k == target]
    if not hits:
        raise Unsupported(f'spec refers to a call of {target} that the code did not make on this path', node)
    key, vals, res = hits[-1]
    conds = []
    for w, v in zip(want, vals):
        conds.append(values_equal(interp, w, v))
    goal = interp._and(conds)
    owner = getattr(vr.active, 'name', '?')
    vr.oblige(f'{owner}/args@call:{target.split(":")[-1]}', 'pre@call',
              goal if isinstance(goal, bool) else mk_bool(goal))
    return res


def sx_implies(interp, args, kwargs, node):
    a, b = args
    if callable(b) or isinstance(b, Closure):
        raise Unsupported('implies with callable', node)
    if isinstance(a, SBool) and isinstance(b, (SBool, bool)):
        bt = b.t if isinstance(b, SBool) else z3.BoolVal(b)
        return mk_bool(z3.Implies(a.t, bt))
    if not interp.truth(a):
        return True
    return b if isinstance(b, (SBool, bool)) else interp.truth(b)


# ---------------------------------------------------------------------------
# the verifier
# ---------------------------------------------------------------------------

class PathDone(Exception):
    """the current path is complete (used by invariant loops after the inv-keep obligations)"""


class Record_:
    """One discharged / failed / unknown query."""

    def __init__(self, name, kind, verdict, path_id, scenario, witness=None, detail=''):
        self.name = name
        self.kind = kind
        self.verdict = verdict
        self.path_id = path_id
        self.scenario = scenario
        self.witness = witness
        self.detail = detail


class FunctionReport:
    def __init__(self, contract):
        self.contract = contract
        self.records = []
        self.unsupported = None
        self.paths = 0
        self.scenarios = 0
        self.source_hash = None
        self.file = None
        self.lines = None
        self.ms = 0.0
        self.infeasible_scenarios = []
        self.reach = {}      # clause name -> number of paths reaching it


class Verifier:
    def __init__(self, repo_root, verif_root):
        self.repo_root = repo_root
        self.verif_root = verif_root
        self.explorer = Explorer()
        self.world = World(os.path.join(repo_root, 'src'), self.explorer, extra_roots=[verif_root])
        self.world.verifier = self
        self.world.spec_closure = self.spec_closure
        self.interp = self.world.interp
        self.interp.call_hook = self.call_hook
        self.interp.cur = None
        self.explorer.fork_site = lambda: self.interp.cur
        self.world.external['pyvc.spec.forall_range'] = Builtin('forall_range', sx_forall_range)
        self.world.external['pyvc.spec.implies'] = Builtin('implies', sx_implies)
        self.world.external['pyvc.spec.same_call'] = Builtin('same_call', sx_same_call)
        from . import heapmodel as _HM
        for _n in ('cached', 'old_cached', 'same_value', 'value_is', 'succ', 'same_node', 'in_done', 'forall_nodes',
                   'reads', 'computed', 'holds_f', 'old_holds_f', 'in_map', 'cell_at', 'in_set', 'old_in_set',
                   'has_formula', 'old_has_formula', 'same_formula', 'is_range', 'is_unbounded', 'edge', 'old_edge', 'local', 'pre_in_set',
                   'pre_same_fields'):
            self.world.external['pyvc.heapspec.' + _n] = Builtin(_n, getattr(_HM, 'sx_' + _n))
        from . import records as _REC
        for _n, _f in _REC.SPEC_BUILTINS.items():
            self.world.external['pyvc.recspec.' + _n] = Builtin(_n, _f)
        self.ghost = {}
        self.old_ghost = {}
        self.old_map = {}
        self.ghost_calls = []
        self.modular_memo = {}
        self.old_heaps = []
        self.done_set = None
        self.contracts = {}       # target -> Contract
        self.active = None        # contract / lemma under verification
        self.modular = {}
        self.records = []
        self.skolems = []
        self.pending_quant = []
        self.spec_mode = 'goal'
        self.in_spec = 0
        self.decoders = {}
        self.scenario_label = ''
        self.path_id = 0
        self.loop_invariants = {}
        self.frame_breaches = []

    def register(self, contracts):
        for c in contracts:
            self.contracts[c.target] = c

    # -- spec functions ------------------------------------------------------
    def spec_closure(self, fn):
        if isinstance(fn, Closure):
            return fn
        mod = self.world.module(fn.__module__)
        return mod.lookup(fn.__name__)

    def eval_spec(self, fn, args, mode='goal'):
        prev = self.spec_mode
        self.spec_mode = mode
        self.in_spec += 1
        try:
            return self.interp.call_function(self.spec_closure(fn), list(args), {})
        finally:
            self.spec_mode = prev
            self.in_spec -= 1

    def summarize(self, fn, args, mode):
        """Run a (pure) spec function in a nested exploration that starts from
        the current path condition and return [(extra_pc, kind, value)] for all
        its internal paths: spec branching does not multiply code paths."""
        outer = self.world.explorer
        sub = Explorer(outer.branch_timeout_ms)
        sub.base_pc = list(outer.pc)
        sub.prefix = outer.fresh_name('s') + '.'
        sub.floor_cache_seed = dict(outer.floor_cache)   # same term -> same floor variable
        sub.pipe_registry_seed = list(outer.pipe_registry)
        sub.first_choice_seed = dict(outer.first_choice)
        sub.modular_memo_seed = dict(outer.modular_memo)
        sub.cell_reads_seed = list(outer.cell_reads)
        sub.str_cmp_terms_seed = list(outer.str_cmp_terms)
        sub.heap_seed = dict(outer.heap) if outer.heap is not None else None
        sub.fork_site = outer.fork_site
        sub.fork_counts = outer.fork_counts
        nbase = len(sub.base_pc)
        self.world.explorer = sub
        out = []
        try:
            def run():
                try:
                    return ('val', self.eval_spec(fn, args, mode))
                except PyExc as e:
                    return ('exc', e)
            for (kind, val), pc, notes in sub.paths(run):
                out.append((pc[nbase:], kind, val))
        finally:
            self.world.explorer = outer
            outer.solver_ms += sub.solver_ms
            outer.branch_queries += sub.branch_queries
        return out

    def summarize_callable(self, fn, args, mode, extra_pc=()):
        """like summarize, for a closure value (e.g. the lambda of forall_range)"""
        outer = self.world.explorer
        sub = Explorer(outer.branch_timeout_ms)
        sub.base_pc = list(outer.pc) + list(extra_pc)
        sub.prefix = outer.fresh_name('q') + '.'
        sub.floor_cache_seed = dict(outer.floor_cache)
        sub.pipe_registry_seed = list(outer.pipe_registry)
        sub.first_choice_seed = dict(outer.first_choice)
        sub.modular_memo_seed = dict(outer.modular_memo)
        sub.cell_reads_seed = list(outer.cell_reads)
        sub.str_cmp_terms_seed = list(outer.str_cmp_terms)
        sub.heap_seed = dict(outer.heap) if outer.heap is not None else None
        nbase = len(outer.pc)
        self.world.explorer = sub
        out = []
        prev = self.spec_mode
        self.spec_mode = mode
        try:
            def run():
                try:
                    return ('val', self.interp.call(fn, list(args), {}))
                except PyExc as e:
                    return ('exc', e)
            for (kind, val), pc, notes in sub.paths(run):
                out.append((pc[nbase + len(extra_pc):], kind, val))
        finally:
            self.world.explorer = outer
            self.spec_mode = prev
        return out

    def as_bool_term(self, v):
        if isinstance(v, SBool):
            return v.t
        tt = self.interp.truth_term(v)
        if tt is None:
            tt = True      # objects are truthy
        return tt

    def assume_spec(self, fn, args):
        """Assume a contract clause (requires on entry / callee ensures)."""
        parts = []
        for extra, kind, val in self.summarize(fn, args, 'assume'):
            if kind == 'exc':
                continue
            t = self.as_bool_term(val)
            if t is False:
                continue
            conj = list(extra) + ([] if t is True else [t])
            parts.append(z3.And(*conj) if conj else z3.BoolVal(True))
        if not parts:
            raise PathAbort()
        self.explorer_now().assume(z3.Or(*parts) if len(parts) > 1 else parts[0])

    def explorer_now(self):
        return self.world.explorer

    # -- obligations ------------------------------------------------------------
    def oblige(self, name, kind, goal, detail=''):
        """Check pc => goal now; record."""
        if isinstance(goal, SBool):
            g = goal.t
        elif isinstance(goal, SV):
            g = self.interp.truth(goal)
        else:
            g = bool(goal)
        v = check_valid(self.world.explorer.pc, g)
        witness = None
        if v.status == 'sat' and v.model is not None:
            witness = {k: d(v.model) for k, d in self.decoders.items()}
        self.records.append(Record_(name, kind, v, self.path_id, self.scenario_label, witness, detail))
        return v

    def oblige_spec(self, name, kind, fn, args):
        """Evaluate a spec function as a goal; an exception inside the spec
        (e.g. attribute of a result of the wrong type) is a failed clause."""
        worst = None
        t_ms = 0.0
        for extra, k, val in self.summarize(fn, args, 'goal'):
            if k == 'exc':
                g, detail = False, f'spec raised {val.typ} (result has the wrong shape)'
            else:
                g, detail = self.as_bool_term(val), ''
            v = check_valid(self.world.explorer.pc + list(extra), g)
            t_ms += v.ms
            if v.status == 'sat' and v.model is not None:
                small = [t for d in self.decoders.values() for t in getattr(d, 'small', [])]
                if small:
                    # prefer a counterexample with small arrays: it can be written out and replayed
                    for cap in (2, 3, 5):
                        v2 = check_valid(self.world.explorer.pc + list(extra) + [t <= cap for t in small], g)
                        if v2.status == 'sat' and v2.model is not None:
                            v.model = v2.model
                            break
                v.witness = {kk: d(v.model) for kk, d in self.decoders.items()}
            v.detail = detail
            rank = {'unsat': 0, 'unknown': 1, 'sat': 2}[v.status]
            if worst is None or rank > {'unsat': 0, 'unknown': 1, 'sat': 2}[worst.status]:
                worst = v
            if v.status == 'sat':
                break
        if worst is None:
            worst = Verdict('unsat', 'trivial', 0.0)
            worst.detail = 'spec has no feasible path'
        worst.ms = t_ms
        self.records.append(Record_(name, kind, worst, self.path_id, self.scenario_label,
                                    getattr(worst, 'witness', None), getattr(worst, 'detail', '')))
        return worst

    # -- modular calls ------------------------------------------------------------
    def call_hook(self, interp, func, args, kwargs, node):
        if not isinstance(func, Closure) or func.module is None:
            return False, None
        key = f'{func.module.name}:{func.name}'
        c = self.modular.get(key)
        if c is None:
            return False, None
        if self.active is not None and getattr(self.active, 'target', None) == key:
            if not self.in_body:
                return False, None
            if not self.entered:
                self.entered = True      # the outermost call is the body under verification
                return False, None
        env = Env({}, None, func.module)
        defenv = func.env if func.env is not None else Env({}, None, func.module)
        interp.bind_args(func.node, args, kwargs, env, defenv, node)
        names = list(c.params[0] if isinstance(c.params, (list, tuple)) else c.params)
        vals = []
        for p in names:
            if p in env.vars:
                vals.append(env.vars[p])
            elif p in getattr(c, 'free_vars', ()) and func.env is not None:
                vals.append(func.env.lookup(p))       # a free variable of the nested function
            else:
                raise Unsupported(f'parameter {p} of the contract of {c.name} is not bound at this call', node)
        if c.when is not None:
            applies = self.eval_spec(c.when, vals, 'goal')
            if not isinstance(applies, bool):
                raise Unsupported(f'contract applicability of {c.name} is not decidable by type', node)
            if not applies:
                return False, None
        prop = getattr(self.active, 'prop', '?')
        owner = getattr(self.active, 'name', '?')
        for i, r in enumerate(c.requires):
            self.oblige_spec(f'{owner}/pre@call:{c.name}#{i}', 'pre@call', r, vals)
        # exceptional exits the callee's contract allows
        if getattr(c, 'heap', False) and c.raises:
            # heap mode: the callee may have changed the heap before it raised; the clause of the exception type
            # is a postcondition of that exit (old heap = before the call)
            from . import heapmodel as HM
            k = interp.ex.choose(len(c.raises) + 1)
            if k:
                typ, cond = list(c.raises.items())[k - 1]
                pre = dict(HM.heap_of(interp.ex))
                interp.ex.heap = HM.fresh_heap(interp.ex, 'raise')
                if getattr(c, 'modifies', None) is not None:
                    for f_ in pre:
                        if f_ not in c.modifies:
                            interp.ex.heap[f_] = pre[f_]      # outside the callee's frame, also when it raises
                self.old_heaps.append(pre)
                try:
                    if cond is not None:
                        self.assume_spec(cond, vals)
                finally:
                    self.old_heaps.pop()
                raise PyExc(typ, 'raised by contract of ' + c.name)
        for typ, cond in ({} if getattr(c, 'heap', False) else c.raises).items():
            ok = self.eval_spec(cond, vals, 'assume') if cond is not None else True
            if isinstance(ok, SBool):
                if interp.ex.branch(ok.t) and interp.ex.choose(2) == 0:
                    raise PyExc(typ, 'raised by contract of ' + c.name)
            elif ok and interp.ex.choose(2) == 0:
                raise PyExc(typ, 'raised by contract of ' + c.name)
        if c.returns is None:
            raise Unsupported(f'modular call of {c.name} without returns domain', node)
        # a contracted function is a (pure) function of its arguments: the same arguments on the
        # same path give the same result
        mkey = (key, tuple(arg_key(v) for v in vals))
        memo = self.world.explorer.modular_memo      # per path: the result's ensures live in that path's pc
        if getattr(c, 'pure', True) and not getattr(c, 'heap', False) and getattr(c, 'effects', None) is None and mkey in memo:
            res = memo[mkey]
            self.ghost_calls.append((key, list(vals), res))
            return True, res
        res, _ = build_value(self.world, pick_alt(self.world, c.returns),
                             interp.ex.fresh_name(f'{c.name}.ret'))
        if getattr(c, 'heap', False):
            # the callee may change the heap: forget it, keep the snapshot as `old` for its ensures
            from . import heapmodel as HM
            pre = dict(HM.heap_of(interp.ex))
            interp.ex.heap = HM.fresh_heap(interp.ex, 'call')
            if getattr(c, 'modifies', None) is not None:
                for f_ in pre:
                    if f_ not in c.modifies:
                        interp.ex.heap[f_] = pre[f_]      # outside the callee's frame
            self.old_heaps.append(pre)
            try:
                for e in c.ensures:
                    self.assume_spec(e, vals + [res])
            finally:
                self.old_heaps.pop()
        else:
            if getattr(c, 'effects', None) is not None:
                c.effects(self, interp, vals)
            for e in c.ensures:
                self.assume_spec(e, vals + [res])
        self.world.trusted.add(f'modular: {key} used by its contract')
        self.ghost_calls.append((key, list(vals), res))
        memo[mkey] = res
        return True, res

    # -- verification of one contract ------------------------------------------------
    def verify_contract(self, c, only=None):
        rep = FunctionReport(c)
        t0 = time.time()
        try:
            closure = self.world.resolve_target(c.target)
        except KeyError:
            rep.unsupported = f'target {c.target} not found'
            return rep
        rep.source_hash = self.world.source_hash(closure)
        rep.file = os.path.relpath(closure.module.path, self.repo_root)
        rep.lines = (closure.node.lineno, closure.node.end_lineno)
        # decorators of the target: registration-only ones are dropped (listed),
        # functools.lru_cache is modelled, anything else puts the function out of reach
        self.cache_model = False
        for d in getattr(closure.node, 'decorator_list', []):
            ds = ast.unparse(d)
            head = ds.split('(')[0]
            if head in ('excel_helper', 'excel_math_func', 'excel_func', 'property', 'staticmethod',
                        'classmethod', 'functools.wraps') or head.endswith('.setter'):
                self.world.dropped.add(f'decorator @{head} of {c.name} (metadata / binding only; the '
                                       f'wrappers it selects have their own contracts)')
            elif head in ('functools.lru_cache', 'lru_cache', 'functools.cache', 'cache'):
                if 'typed=True' in ds:
                    raise_unsup = 'lru_cache(typed=True)'
                    rep.unsupported = f'unsupported:decorator {raise_unsup}'
                    return rep
                self.cache_model = True
                self.world.trusted.add('A-LRUCACHE: functools.lru_cache returns the result computed for an '
                                       'earlier call whose arguments compare and hash equal (True == 1 == 1.0); '
                                       'unhashable arguments raise TypeError')
            elif getattr(c, 'apply_decorators', False):
                pass         # behavioural decorator: applied by interpretation below
            else:
                rep.unsupported = f'unsupported:decorator @{ds} on {c.name}'
                return rep
        if getattr(c, 'apply_decorators', False) and getattr(closure.node, 'decorator_list', None):
            closure = self.interp.apply_decorators(closure.node, closure, Env({}, None, closure.module))
        self.active = c
        self.active_node = closure.node
        Explorer.SKIP_QUANTIFIED = bool(getattr(c, 'fast_branch', False))
        self.modular = {t: self.contracts[t] for t in c.modular if not isinstance(t, S.Contract) and t in self.contracts}
        for t in c.modular:
            if isinstance(t, S.Contract):
                self.modular[t.target] = t        # a contract local to this verification (e.g. only the shape of a result)
        if c.decreases is not None:
            self.modular[c.target] = c
        missing = [t for t in c.modular if not isinstance(t, S.Contract) and t not in self.contracts]
        if missing:
            rep.unsupported = f'modular callee without contract: {missing}'
            return rep
        scenarios = expand_scenarios(c.params)
        rep.scenarios = len(scenarios)
        for si, scen in enumerate(scenarios):
            if only is not None and si not in only:
                continue
            label = ','.join(f'{k}:{dom_label(v)}' for k, v in scen.items())
            n_before = len(rep.records)
            paths_before = rep.paths
            try:
                self._run_scenario(c, closure, scen, label, rep)
            except Unsupported as u:
                rep.unsupported = f'unsupported:{u}'
                break
            except RecursionError:
                rep.unsupported = 'unsupported:interpreter recursion limit'
                break
            if rep.paths == paths_before:
                rep.infeasible_scenarios.append(label)
        rep.ms = (time.time() - t0) * 1000
        self.active = None
        Explorer.SKIP_QUANTIFIED = False
        return rep

    def _run_scenario(self, c, closure, scen, label, rep):
        ex = self.explorer
        names = list(scen)

        def run():
            self.records = []
            self.skolems = []
            self.decoders = {}
            self.ghost_calls = []
            self.modular_memo = {}
            self.scenario_label = label
            self.in_body = False
            args = []
            for n in names:
                v, d = build_value(self.world, scen[n], n)
                args.append(v)
                self.decoders[n] = d
            for r in c.requires:
                self.assume_spec(r, args)
            old = self.snapshot(args)
            self.current_args = list(args)
            if getattr(c, 'record', False):
                from . import records as REC
                REC.take_snapshot(self, args)
                self.ghost = {g: mk_int(z3.IntVal(0)) for g in c.ghost}
                self.old_ghost = dict(self.ghost)
            if getattr(c, 'heap', False):
                from . import heapmodel as HM
                self.old_heaps = [dict(HM.heap_of(self.world.explorer))]
                self.done_set = None
            if self.cache_model:
                args = self.cache_alias(args, names)
            call_args, call_kwargs = self.bind_for_call(c, closure, names, args)
            self.in_body = True
            self.entered = False
            self.frame_breaches = []
            try:
                target = closure
                if c.closure_env is not None:
                    target = self.make_closure(c, closure, args, names)
                elif c.free_vars:
                    byname = dict(zip(names, args))
                    fenv = Env({k: byname[k] for k in c.free_vars}, None, closure.module)
                    target = Closure(closure.node, fenv, closure.module, closure.name)
                    fenv.vars.setdefault(closure.node.name, target)      # a nested function may call itself by name
                if getattr(c, 'prepare', None) is not None:
                    c.prepare(self, self.interp, target, dict(zip(names, args)))
                    if getattr(c, 'record', False):
                        from . import records as REC
                        REC.take_snapshot(self, args)
                result = self.interp.call_function(target, call_args, call_kwargs)
                outcome = ('return', result)
            except PyExc as e:
                outcome = ('raise', e)
            except PathDone:
                # the path ended inside a loop body after its invariant obligations were recorded
                return 'loop-iteration', list(self.records)
            finally:
                self.in_body = False
            if any(isinstance(d_, S.Record) and getattr(d_, 'closed', False) for d_ in scen.values()):
                self.oblige(f'{c.name}/frame:only-thread-local-state-written', 'frame', not self.frame_breaches,
                            detail='; '.join(self.frame_breaches))
            if getattr(c, 'heap', False) and getattr(c, 'modifies', None) is not None:
                from . import heapmodel as HM
                cur, old0 = HM.heap_of(self.world.explorer), self.old_heaps[0]
                same = [cur[f_] == old0[f_] for f_ in old0 if f_ not in c.modifies and f_ in cur]
                self.oblige(f'{c.name}/frame:modifies-only-' + '+'.join(x.replace('set:', '') for x in c.modifies), 'frame',
                            mk_bool(z3.And(*same)) if same else True)
            if outcome[0] == 'return':
                for i, e in enumerate(c.ensures):
                    nm = f'{c.name}/post#{i}:{e.__name__}'
                    rep.reach[nm] = rep.reach.get(nm, 0) + 1
                    self.oblige_spec(nm, 'post', e, (list(self.current_args) if getattr(c, 'record', False) else old) + [outcome[1]])
            else:
                exc = outcome[1]
                cond = None
                allowed = False
                for typ, cf in c.raises.items():
                    if sym.exc_isinstance(exc.typ, typ):
                        allowed = True
                        cond = cf
                nm = f'{c.name}/raises'
                if not allowed:
                    self.oblige(nm, 'raises', False,
                                detail=f'{exc.typ} raised at line {exc.line} is not allowed by the contract')
                elif cond is not None:
                    self.oblige_spec(f'{nm}:{exc.typ}', 'raises', cond, list(self.current_args) if getattr(c, 'record', False) else old)
                else:
                    self.oblige(f'{nm}:{exc.typ}', 'raises', True)
            return outcome[0], list(self.records)

        for (kind, recs), pc, notes in ex.paths(run):
            rep.paths += 1
            self.path_id += 1
            rep.records.extend(recs)

    def cache_alias(self, args, names):
        """lru_cache model: the body may have run on hash-equal arguments of another type."""
        ex = self.world.explorer
        out = []
        prior = {}
        for n, a in zip(names, args):
            alts = [a]
            if isinstance(a, (SBool, bool)):
                t = a.t if isinstance(a, SBool) else z3.BoolVal(a)
                alts.append(mk_int(z3.If(t, z3.IntVal(1), z3.IntVal(0))))
            elif isinstance(a, (SInt, int)):
                t = sym.as_int_term(a)
                alts.append(('bool', t))
                alts.append(mk_float(z3.ToReal(t)))
            elif isinstance(a, (SFloat, float)):
                t = sym.as_real_term(a)
                alts.append(('int', t))
            elif isinstance(a, list):
                raise PyExc('TypeError', 'unhashable type: list (lru_cache)')
            k = ex.choose(len(alts)) if len(alts) > 1 else 0
            pick = alts[k]
            if isinstance(pick, tuple) and pick[0] == 'bool':
                if not ex.branch(z3.Or(pick[1] == 0, pick[1] == 1)):
                    raise PathAbort()
                pick = mk_bool(pick[1] == 1)
            elif isinstance(pick, tuple) and pick[0] == 'int':
                if not ex.branch(z3.ToReal(sym.floor_int(ex, pick[1])) == pick[1]):
                    raise PathAbort()
                pick = mk_int(sym.floor_int(ex, pick[1]))
            if k:
                prior[n] = pick
            out.append(pick)
        self.prior_alias = prior
        if prior:
            def dec(m, prior=dict(prior)):
                o = {}
                for n, v in prior.items():
                    if isinstance(v, SInt):
                        o[n] = model_int(m, v.t)
                    elif isinstance(v, SBool):
                        o[n] = bool(z3.is_true(m.eval(v.t, model_completion=True)))
                    elif isinstance(v, SFloat):
                        o[n] = dict(model_real(m, v.t), **{'$float': True})
                    else:
                        o[n] = v
                return o
            self.decoders['$prior_call'] = Decoder(dec)
        return out

    def snapshot(self, args):
        """Values of the parameters on entry (immutable values are shared)."""
        return list(args)

    def bind_for_call(self, c, closure, names, args):
        if c.bound_args is not None:
            return c.bound_args(names, args)
        fa = closure.node.args
        pos = [p.arg for p in fa.posonlyargs + fa.args]
        call_args, call_kwargs = [], {}
        byname = dict(zip(names, args))
        for p in pos:
            if p in byname:
                call_args.append(byname[p])
            else:
                break
        if fa.vararg and fa.vararg.arg in byname:
            from .pipes import SNested
            v = byname[fa.vararg.arg]
            if isinstance(v, SNested):
                call_args.append(v)        # one abstract argument standing for the whole list
            else:
                call_args.extend(v)
        for p in fa.kwonlyargs:
            if p.arg in byname:
                call_kwargs[p.arg] = byname[p.arg]
        for p in pos[len(call_args):]:
            if p in byname:
                call_kwargs[p] = byname[p]
        return call_args, call_kwargs

    def make_closure(self, c, closure, args, names):
        """For nested functions: run the enclosing factory (real code) with the
        factory arguments given by c.closure_env and pick the nested def."""
        factory_target, factory_params = c.closure_env
        factory = self.world.resolve_target(factory_target)
        byname = dict(zip(names, args))
        fargs = [byname[p] for p in factory_params]
        env = Env({}, None, factory.module)
        self.interp.bind_args(factory.node, fargs, {}, env,
                              Env({}, None, factory.module), None)
        inner = closure.node.name
        try:
            self.interp.exec_block(factory.node.body, env)
        except ReturnSig:
            pass
        # find the nested closure object in the factory env (or nested envs)
        found = find_closure(env, inner)
        if found is None:
            raise Unsupported(f'closure {inner} not created by factory {factory_target}')
        return found

    # -- lemmas ------------------------------------------------------------------------
    def verify_lemma(self, lem, only=None):
        c = S.Contract(target=f'{lem.body.__module__}:{lem.body.__name__}', prop=lem.prop,
                       params=lem.params, requires=lem.requires, name=f'lemma/{lem.name}',
                       modular=lem.modular)
        rep = FunctionReport(c)
        rep.is_lemma = True
        t0 = time.time()
        self.active = c
        self.modular = {}
        for t in lem.modular:
            if isinstance(t, S.Contract):
                self.modular[t.target] = t        # lemma-local (weaker) contract
            elif t in self.contracts:
                self.modular[t] = self.contracts[t]
        missing = [t for t in lem.modular if not isinstance(t, S.Contract) and t not in self.contracts]
        if missing:
            rep.unsupported = f'modular callee without contract: {missing}'
            return rep
        closure = self.spec_closure(lem.body)
        rep.source_hash = self.world.source_hash(closure)
        rep.file = os.path.relpath(closure.module.path, self.verif_root)
        rep.lines = (closure.node.lineno, closure.node.end_lineno)
        scenarios = expand_scenarios(lem.params)
        rep.scenarios = len(scenarios)
        ex = self.explorer
        for si, scen in enumerate(scenarios):
            if only is not None and si not in only:
                continue
            label = ','.join(f'{k}:{dom_label(v)}' for k, v in scen.items())
            names = list(scen)

            def run():
                self.records = []
                self.skolems = []
                self.decoders = {}
                self.ghost_calls = []
                self.modular_memo = {}
                self.scenario_label = label
                self.in_body = True
                self.entered = True
                args = []
                for n in names:
                    v, d = build_value(self.world, scen[n], n)
                    args.append(v)
                    self.decoders[n] = d
                for r in lem.requires:
                    self.assume_spec(r, args)
                nm = f'lemma/{lem.name}'
                rep.reach[nm] = rep.reach.get(nm, 0) + 1
                self.oblige_spec(nm, 'lemma', lem.body, args)
                return 'lemma', list(self.records)

            paths_before = rep.paths
            try:
                for (kind, recs), pc, notes in ex.paths(run):
                    rep.paths += 1
                    self.path_id += 1
                    rep.records.extend(recs)
            except Unsupported as u:
                rep.unsupported = f'unsupported:{u}'
                break
            if rep.paths == paths_before:
                rep.infeasible_scenarios.append(label)
        rep.ms = (time.time() - t0) * 1000
        self.active = None
        return rep


def find_closure(env, name):
    v = env.vars.get(name)
    if isinstance(v, Closure):
        return v
    for x in env.vars.values():
        if isinstance(x, Closure) and x.env is not None and x.env is not env:
            r = find_closure(x.env, name)
            if r is not None:
                return r
    return None


def loop_hook(interp, node, env, it, force=False):
    """Loops cut at a sidecar invariant.  Returns True when handled."""
    vr = interp.world.verifier
    if vr is None or vr.active is None:
        return False
    inv = getattr(vr.active, 'invariants', None)
    if not inv:
        return False
    from .loops import loop_ordinal, run_invariant_loop
    vr.loop_env = env
    e = env
    while e is not None and getattr(e, 'func', None) is None:
        e = e.parent
    if e is not None:
        k = loop_ordinal(e.func.node, node)
        spec = inv.get(k)
        if isinstance(spec, dict):
            if vr.in_spec or e.func.node is not getattr(vr, 'active_node', None):
                return False
            if 'locals' in spec or spec.get('index'):
                from . import localloops as LL
                if isinstance(node, ast.For):
                    return LL.run_local_for(interp, vr, node, env, spec, k, it)
                return LL.run_local_while(interp, vr, node, env, spec, k)
            from .records import run_scalar_invariant_loop
            return run_scalar_invariant_loop(interp, vr, node, env, spec, k)
    return run_invariant_loop(interp, vr, node, env, it, inv, force)
