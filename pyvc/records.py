"""Record mode: mutable objects with a handful of fields (tracker namespaces, cells), sets of
object identities, `old(...)` snapshots, ghost counters and loops cut at scalar invariants.

Used where a function's effect is on one or two small records rather than on the cell graph
(_IterativeEvalTracker, _CycleCell, _evaluate_iterative, the error-message stack of eval_func).
"""
import ast

import z3

from .sym import SBool, SInt, PathAbort, Unsupported, mk_bool, mk_int

Obj = z3.DeclareSort('Obj')          # object identities
_SETSORT = z3.ArraySort(Obj, z3.BoolSort())
EMPTY = z3.K(Obj, False)

_NS_CLASS = None


def namespace_class(world):
    """a class without members: instances are plain attribute bags (threading.local(), SimpleNamespace)"""
    global _NS_CLASS
    if _NS_CLASS is None:
        from .interp import ClassModel
        node = ast.parse('class Namespace:\n    pass\n').body[0]
        _NS_CLASS = ClassModel(node, world.module('pyvc.spec'))
    return _NS_CLASS


def ident(interp, v):
    """the identity term of an object value"""
    from .interp import SObj
    if isinstance(v, SObjRef):
        return v.t
    if isinstance(v, SObj):
        t = getattr(v, '_ident', None)
        if t is None:
            t = z3.Const(interp.ex.fresh_name('obj'), Obj)
            v._ident = t
        return t
    raise Unsupported(f'identity of {type(v).__name__}')


class SObjRef:
    """an object known only by its identity (a cell handed to the tracker)"""

    def __init__(self, t):
        self.t = t

    def __repr__(self):
        return f'<obj {self.t}>'


class SSet:
    """a mutable set of object identities: Array(Obj -> Bool)"""

    def __init__(self, t):
        self.t = t

    def copy(self):
        return SSet(self.t)

    def contains(self, interp, item):
        return mk_bool(z3.Select(self.t, ident(interp, item)))

    def hm_truth(self, interp):
        return interp.ex.branch(self.t != EMPTY)

    def hm_len(self, interp, node):
        raise Unsupported('len of an identity set', node)

    def hm_getattr(self, interp, name, node):
        from .interp import Builtin
        if name == 'add':
            def add(i, args, kwargs, n):
                self.t = z3.Store(self.t, ident(i, args[0]), True)
            return Builtin('set.add', add)
        if name in ('discard', 'remove'):
            def discard(i, args, kwargs, n):
                it = ident(i, args[0])
                if name == 'remove' and not i.ex.branch(z3.Select(self.t, it)):
                    i.raise_exc('KeyError', 'not in set', n)
                self.t = z3.Store(self.t, it, False)
            return Builtin('set.' + name, discard)
        if name == 'clear':
            def clear(i, args, kwargs, n):
                self.t = EMPTY
            return Builtin('set.clear', clear)
        raise Unsupported(f'set method {name}', node)

    def __repr__(self):
        return f'<set {self.t}>'


class SAnyObj:
    """an object used only through calls of its methods, which have no effect we track (a logger)"""

    def __init__(self, name):
        self.name = name

    def hm_truth(self, interp):
        return True

    def hm_getattr(self, interp, name, node):
        from .interp import Builtin
        from .builtins_model import ListIter
        return Builtin(f'{self.name}.{name}', lambda i, args, kwargs, n: ListIter([]))

    def hm_index(self, interp, idx, node):
        # used as a mapping: every key is present, what it maps to is again known by nothing but its uses
        return SAnyObj(f'{self.name}[...]')

    def __repr__(self):
        return f'<anyobj {self.name}>'


# -- snapshots ---------------------------------------------------------------------------------------

def deep_copy(v, memo):
    from .interp import SObj
    if id(v) in memo:
        return memo[id(v)]
    if isinstance(v, SSet):
        c = v.copy()
    elif isinstance(v, SObj) and v.cls.ntfields is None:
        c = SObj(v.cls, {})
        memo[id(v)] = c
        if getattr(v, '_ident', None) is not None:
            c._ident = v._ident
        for k, x in v.fields.items():
            c.fields[k] = deep_copy(x, memo)
        c._live = v
        if getattr(v, 'partial', False):
            c.partial = True
        return c
    elif isinstance(v, dict):
        c = {k: deep_copy(x, memo) for k, x in v.items()}
    elif isinstance(v, list):
        c = [deep_copy(x, memo) for x in v]
    else:
        return v
    memo[id(v)] = c
    return c


def take_snapshot(vr, args):
    """old-state copies of the mutable arguments; vr.old_map: id(live object) -> copy"""
    memo = {}
    for a in args:
        deep_copy(a, memo)
    vr.old_map = memo
    vr._old_keepalive = list(args)


def sx_old(interp, args, kwargs, node):
    vr = interp.world.verifier
    v = args[0]
    m = getattr(vr, 'old_map', None) or {}
    return m.get(id(v), v)


def sx_ghost(interp, args, kwargs, node):
    vr = interp.world.verifier
    return vr.ghost[args[0]]


def sx_ghost_obj(interp, args, kwargs, node):
    """an object the contract's prepare hook registered under a name (a closure variable of the function)"""
    return interp.world.verifier.ghost_objs[args[0]]


def sx_old_ghost(interp, args, kwargs, node):
    vr = interp.world.verifier
    return vr.old_ghost[args[0]]


def _st(interp, x):
    if isinstance(x, SSet):
        return x.t
    if isinstance(x, (set, frozenset)):
        t = EMPTY
        for e in x:
            t = z3.Store(t, ident(interp, e), True)
        return t
    raise Unsupported(f'not a set of objects: {type(x).__name__}')


def sx_is_member(interp, args, kwargs, node):
    s, x = args
    return mk_bool(z3.Select(_st(interp, s), ident(interp, x)))


def sx_set_empty(interp, args, kwargs, node):
    return mk_bool(_st(interp, args[0]) == EMPTY)


def sx_set_subset(interp, args, kwargs, node):
    a, b = SSet(_st(interp, args[0])), SSet(_st(interp, args[1]))
    vr = interp.world.verifier
    ex = interp.ex
    if vr.spec_mode == 'assume':
        o = z3.Const(ex.fresh_name('o'), Obj)
        return mk_bool(z3.ForAll([o], z3.Implies(z3.Select(a.t, o), z3.Select(b.t, o))))
    o = z3.Const(ex.fresh_name('sk'), Obj)
    return mk_bool(z3.Implies(z3.Select(a.t, o), z3.Select(b.t, o)))


def sx_same_set(interp, args, kwargs, node):
    a, b = args
    return mk_bool(_st(interp, a) == _st(interp, b))


def sx_set_is_added(interp, args, kwargs, node):
    """set_is_added(new, old, x): new == old | {x}"""
    new, old, x = args
    return mk_bool(_st(interp, new) == z3.Store(_st(interp, old), ident(interp, x), True))


def sx_same_obj(interp, args, kwargs, node):
    a, b = args
    return mk_bool(ident(interp, a) == ident(interp, b))


def sx_has_field(interp, args, kwargs, node):
    from .interp import SObj
    o, name = args
    return isinstance(o, SObj) and name in o.fields


SPEC_BUILTINS = {'ghost_obj': sx_ghost_obj, 'old': sx_old, 'ghost': sx_ghost, 'old_ghost': sx_old_ghost, 'is_member': sx_is_member,
                 'set_empty': sx_set_empty, 'set_subset': sx_set_subset, 'same_set': sx_same_set,
                 'set_is_added': sx_set_is_added, 'same_obj': sx_same_obj, 'has_field': sx_has_field}


# -- loops cut at a scalar invariant --------------------------------------------------------------------

def run_scalar_invariant_loop(interp, vr, node, env, spec, k):
    """while <test>: body   with spec = dict(inv=[...], havoc=callable(vr, interp), variant=fn or None).

    inv-init: the invariant holds on arrival.  Then the state the loop may change is replaced by fresh
    values satisfying the invariant and ONE iteration is executed: leaving the loop (test false, break,
    return) continues with the code after it / the postconditions; reaching the back edge obliges
    inv-keep (and that the variant went down and stays >= 0) and ends the path."""
    from .interp import BreakSig, ContinueSig
    from .vc import PathDone
    c = vr.active
    owner = c.name
    args = vr.current_args
    invs = spec['inv']
    for i, inv in enumerate(invs):
        vr.oblige_spec(f'{owner}/inv-init@loop{k}#{i}:{inv.__name__}', 'inv-init', inv, args)
    spec['havoc'](vr, interp)
    for inv in invs:
        vr.assume_spec(inv, args)
    variant = spec.get('variant')
    v0 = vr.eval_spec(variant, args, 'goal') if variant else None
    if node.orelse:
        raise Unsupported('while/else with an invariant', node)
    if not interp.truth(interp.eval(node.test, env)):
        return True
    try:
        interp.exec_block(node.body, env)
    except ContinueSig:
        pass
    except BreakSig:
        return True
    for i, inv in enumerate(invs):
        vr.oblige_spec(f'{owner}/inv-keep@loop{k}#{i}:{inv.__name__}', 'inv-keep', inv, args)
    if variant:
        v1 = vr.eval_spec(variant, args, 'goal')
        from .sym import as_int_term
        vr.oblige(f'{owner}/variant@loop{k}:{variant.__name__}', 'variant',
                  mk_bool(z3.And(as_int_term(v1) < as_int_term(v0), as_int_term(v1) >= 0)))
    raise PathDone()
