"""C03 - persisted models are observationally equivalent to the model that was saved."""
from pyvc.spec import Bool, Const, Contract, DictOf, Float, Int, Lemma, NoneT, Record, Str, Union, implies

SYMBOLIC_TWINS = {}

# -- what a cell is written as, and what is read back: one spec function, two contracts -----------------------

TO_TEXT = 'pycel.excelcompiler:ExcelCompiler._to_text'
IMPORTER = 'pycel.excelcompiler:_CompiledImporter'
VAL = Union(NoneT(), Bool(), Int(), Float(), Str(maxlen=6))
CODE = Str(maxlen=6)


def looks_like_code(text):
    """text that the reader would take for saved code: an '=' after any number of leading apostrophes"""
    return isinstance(text, str) and text.lstrip("'").startswith('=')


def enc(formula_code, value):
    """the entry written for a cell: its code behind '=', or its value; text that would be read back as code is
    marked with a leading apostrophe"""
    if formula_code is not None and formula_code != '':
        return '=' + formula_code
    if looks_like_code(value):
        return "'" + value
    return value


def code_of(a_cell):
    return None if a_cell.formula is None else a_cell.formula.python_code


def cell_value_is_enc(a_cell, result):
    want = enc(code_of(a_cell), a_cell.value)
    return result == want and type(result) is type(want)


def pre_holds_entry(self, address, code, value):
    """the importer's cell_map holds, under this address, the entry written for a cell with this code / value"""
    return self.cell_map[address] == enc(code, value) and type(self.cell_map[address]) is type(enc(code, value))


def reads_back_the_cell(self, address, code, value, result):
    """a formula cell comes back as the same code (and no value: it is evaluated again), a constant as exactly the
    same value - same type, same text - and as a constant"""
    if code is not None and code != '':
        return result.formula == '=' + code and result.values is None
    return (result.formula == '' and result.values == value and type(result.values) is type(value))


def reads_back_address(self, address, code, value, result):
    return result.address == address


def lem_enc_keeps_kinds_apart(code, value, code2, value2):
    """two cells are written alike only if they are alike: same code, or (no code and) the same constant"""
    same_entry = enc(code, value) == enc(code2, value2) and type(enc(code, value)) is type(enc(code2, value2))
    both_const = (code is None or code == '') and (code2 is None or code2 == '')
    both_code = not (code is None or code == '') and not (code2 is None or code2 == '')
    return implies(same_entry, (both_code and code == code2) or (both_const and value == value2 and type(value) is type(value2)))


FORMULA_REC = Record('pycel.excelformula:ExcelFormula', {'python_code': Union(CODE, Const(''), NoneT())})

CONTRACTS = [
    Contract(TO_TEXT + '.cell_value', 'C03',
             params=dict(a_cell=Record('pycel.excelcompiler:_Cell', {'formula': Union(NoneT(), FORMULA_REC), 'value': VAL})),
             ensures=[cell_value_is_enc],
             notes='closure of _to_text (no free variable but numpy)'),
    Contract(IMPORTER + '._get_cell', 'C03',
             params=dict(self=Record(IMPORTER, {'cell_map': DictOf(K=Union(NoneT(), Bool(), Int(), Float(), Str(maxlen=8)))}),
                         address=Const('K'), code=Union(NoneT(), Const(''), CODE), value=VAL),
             bound_args=lambda names, args: ([args[0], args[1]], {}),
             requires=[pre_holds_entry], ensures=[reads_back_the_cell, reads_back_address]),
]
LEMMAS = [
    Lemma('written_alike_only_if_alike', 'C03',
          dict(code=Union(NoneT(), Const(''), CODE), value=VAL, code2=Union(NoneT(), Const(''), CODE), value2=VAL),
          lem_enc_keeps_kinds_apart),
]

CONTENT_POOL = [0, 1, -3, 2.5, 1e-7, 1e22, -0.0, 1 / 3, 0.1 + 0.2, 123456789012345678, 1e-300, 1.7976931348623157e308,
                True, False,
                'a', '', ' ', 'x y', 'yes', 'no', 'null', '~', 'true', 'False', '1e3', '007', '1.0', '-', '- x', 'a: b', '{', '[1]',
                '"q"', "it's", '#VALUE!', '  padded  ', 'ü 漢 字', 'multi\nline', 'tab\there', '=A1', '=1+1', '@x', '%y', '!z', '&a',
                "'=x", "''=y", "'quoted", '*b', '| c', '> d', 'key: [1, 2]', '# not a comment', 'a #b', '\\', '\\n', "'", '"', 'C:\\dir', '2021-01-01',
                '12:30', '0x1F', '.5', '+1', 'NaN', '.inf', 'on', 'off', 'Y', 'N']


def exact(a, b):
    """the same value: same type, same payload, same sign of zero"""
    def kind(x):
        return ('none' if x is None else 'bool' if isinstance(x, bool) else 'int' if isinstance(x, int) else
                'float' if isinstance(x, float) else 'str' if isinstance(x, str) else type(x).__name__)
    if kind(a) != kind(b):
        return False
    if isinstance(a, (tuple, list)):
        return len(a) == len(b) and all(exact(x, y) for x, y in zip(a, b))
    if isinstance(a, float):
        import math
        return (a == b and math.copysign(1, a) == math.copysign(1, b)) or (a != a and b != b)
    return a == b


def _workbooks(rnd, n, W):
    wbs = []
    pool = list(CONTENT_POOL)
    rnd.shuffle(pool)
    k = 0
    while (pool or len(wbs) < n - 6) and len(wbs) < n:
        vals, pool = pool[:3], pool[3:]
        while len(vals) < 3:
            vals.append(rnd.choice(CONTENT_POOL))
        inputs = {'A1': vals[0], 'A2': vals[1], 'A3': vals[2]}
        late = {c: v for c, v in inputs.items() if isinstance(v, str) and v.startswith('=')}
        for c in late:
            inputs[c] = 'placeholder'
        formulas = {'B1': '=IF(ISNUMBER(A1),A1*2,A1&"z")', 'B2': '=IF(ISTEXT(A2),LEN(A2),A2)', 'B3': '=A3',
                    'C1': '=IF(ISNUMBER(B2),B2+1,0)', 'C2': '=COUNT(A1:A3)'}
        wb = W.WB(inputs, formulas, f'contents-{k}')
        wb.late = late            # text that starts with '=': assigned with set_value after compiling
        wbs.append(wb)
        k += 1
    wbs += W.grammar(rnd, 6) + W.random_dags(rnd, 4)
    return wbs


FRESH_PROCESS = r'''
import json, sys, logging
logging.disable(logging.CRITICAL)
sys.path.insert(0, sys.argv[1])
from pycel import ExcelCompiler
comp = ExcelCompiler.from_file(sys.argv[2])
out = {}
for a in json.loads(sys.argv[3]):
    try:
        v = comp.evaluate(a)
        kind = ('none' if v is None else 'bool' if isinstance(v, bool) else 'int' if isinstance(v, int) else
                'float' if isinstance(v, float) else 'str' if isinstance(v, str) else type(v).__name__)
        out[a] = [kind, repr(float(v)) if kind == 'float' else repr(int(v)) if kind == 'int' else repr(str(v)) if kind == 'str' else repr(v)]
    except Exception as e:
        out[a] = ['raised', type(e).__name__ + ': ' + str(e)[:200]]
print(json.dumps(out))
'''


def bounded(tier, seed, R):
    import json
    import logging
    import os
    import random
    import subprocess
    import sys
    import threading
    from contracts import wbgen as W
    from pycel import ExcelCompiler
    logging.disable(logging.CRITICAL)
    rnd = random.Random(seed)
    thorough = tier == 'thorough'
    R.rule = ('workbooks whose constants come from a pool of awkward contents (1e-7, 1e22, -0.0, 1/3, 17-digit floats, big ints, '
              'text that looks like yaml / json syntax, numbers, booleans, formulas, unicode, multi-line) plus grammar workbooks '
              'x {yml, json, pkl} x {cycles off, on}: (a) every saved cell has exactly the original value after load (same '
              'process, fresh thread, fresh process); (b) original and loaded model agree on a post-load set_value / evaluate '
              'history; (c) saving again leaves the text byte-identical, saving the loaded model reproduces the same cell map; '
              '(d) cycles settings, workbook file name, source hash and extra_data survive; (f) a save in one format between two saves '
              'in pickle + text does not leave a stale pickle; (e) the stored hash is that of the '
              'workbook the model was compiled from even when the file on disk has changed since')
    wbs = _workbooks(rnd, (len(CONTENT_POOL) + 2) // 3 + 6 if not thorough else 60, W)
    R.bound = f'{len(wbs)} workbooks x 3 formats x 2 modes; fresh process for a third of them'
    repo_src = os.path.dirname(os.path.dirname(os.path.abspath(sys.modules['pycel'].__file__)))
    with W.TmpDir() as tmp:
        for wi, wb in enumerate(wbs):
            cells = wb.cells()
            for cycles in (False, True):
                for fmt in ('yml', 'json', 'pkl'):
                    w = {'workbook': repr(wb), 'format': fmt, 'iterative': cycles}
                    st = {}
                    kw = dict(iterations=5, tolerance=0.01) if cycles else {}

                    def save_load():
                        comp = W.compile_mem(wb, cycles=True if cycles else None)
                        for c, v in getattr(wb, 'late', {}).items():
                            comp.evaluate(W.addr(c), **kw)
                            comp.set_value(W.addr(c), v)
                        st['orig_vals'] = {c: comp.evaluate(W.addr(c), **kw) for c in cells}
                        comp.extra_data = {'note': 'user data', 'n': 3}
                        base = os.path.join(tmp, f'm{wi}_{fmt}_{int(cycles)}_model')
                        comp.to_file(base, file_types=(fmt,))
                        st['base'] = base
                        st['comp'] = comp
                        st['loaded'] = ExcelCompiler.from_file(base + '.' + fmt)
                        return True
                    if not R.guard('bounded/save_and_load_run', save_load, w):
                        continue
                    comp, loaded, base = st['comp'], st['loaded'], st['base']
                    # (a) every saved cell has the original's value
                    for c in cells:
                        try:
                            got = loaded.evaluate(W.addr(c), **kw)
                        except Exception as e:      # noqa
                            got = f'raised {type(e).__name__}: {e}'[:160]
                        R.check('bounded/loaded_value_is_original', exact(got, st['orig_vals'][c]),
                                dict(w, cell=c, content=wb.inputs.get(c, wb.formulas.get(c)), got=repr(got),
                                     want=repr(st['orig_vals'][c])))
                    # (d) settings survive
                    R.check('bounded/settings_survive',
                            bool(loaded.cycles) == bool(comp.cycles) and loaded.filename == comp.filename
                            and loaded._excel_file_md5_digest == comp._excel_file_md5_digest
                            and (loaded.extra_data or {}).get('note') == 'user data' and (loaded.extra_data or {}).get('n') == 3,
                            dict(w, loaded_cycles=repr(loaded.cycles), cycles=repr(comp.cycles), loaded_filename=loaded.filename,
                                 filename=comp.filename, extra=repr(loaded.extra_data)))
                    # (c) idempotent / deterministic
                    if fmt != 'pkl':
                        path = base + '.' + fmt
                        first = open(path, 'rb').read()
                        def again():
                            comp.to_file(base, file_types=(fmt,))
                            return open(path, 'rb').read() == first
                        R.guard('bounded/resave_byte_identical', again, w)
                        def resave_loaded():
                            loaded2 = ExcelCompiler.from_file(path)
                            base2 = base + '_re'
                            loaded2.to_file(base2, file_types=(fmt,))
                            from ruamel.yaml import YAML
                            a = YAML(typ='safe').load(open(path).read())
                            b = YAML(typ='safe').load(open(base2 + '.' + fmt).read())
                            return a == b
                        R.guard('bounded/resave_of_loaded_same_content', resave_loaded, w)
                    # (b) post-load history: original and loaded react alike
                    for h in W.histories(rnd, wb, 2, 4):
                        def hist():
                            l2 = ExcelCompiler.from_file(base + '.' + fmt)
                            o2 = W.compile_mem(wb, cycles=True if cycles else None)
                            for c, v in getattr(wb, 'late', {}).items():
                                o2.evaluate(W.addr(c), **kw)
                                o2.set_value(W.addr(c), v)
                            for op in h:
                                if op[0] == 'set':
                                    for m in (o2, l2):
                                        if W.addr(op[1]) not in m.cell_map:
                                            m.evaluate(W.addr(op[1]), **kw)
                                        m.set_value(W.addr(op[1]), op[2])
                                else:
                                    a, b = o2.evaluate(W.addr(op[1]), **kw), l2.evaluate(W.addr(op[1]), **kw)
                                    if not exact(a, b):
                                        w['disagreement'] = repr((op, a, b))
                                        return False
                            return True
                        R.guard('bounded/history_after_load_agrees', hist, dict(w, history=h))
                    # fresh thread
                    res = {}

                    def in_thread():
                        try:
                            l3 = ExcelCompiler.from_file(base + '.' + fmt)
                            res['vals'] = {c: l3.evaluate(W.addr(c), **kw) for c in cells}
                        except Exception as e:      # noqa
                            res['err'] = f'{type(e).__name__}: {e}'[:200]
                    t = threading.Thread(target=in_thread)
                    t.start()
                    t.join()
                    R.check('bounded/fresh_thread_values', 'vals' in res and all(exact(res['vals'][c], st['orig_vals'][c]) for c in cells),
                            dict(w, error=res.get('err'), got=repr(res.get('vals'))[:300]))
                    # fresh process
                    if wi % 3 == 0 or thorough:
                        addrs = [W.addr(c) for c in cells]
                        def fresh():
                            out = subprocess.run([sys.executable, '-c', FRESH_PROCESS, repo_src, base + '.' + fmt,
                                                  json.dumps(addrs)], capture_output=True, text=True, timeout=120)
                            if out.returncode != 0:
                                w['stderr'] = out.stderr[-400:]
                                return False
                            got = json.loads(out.stdout.strip().split('\n')[-1])
                            def sig(v):
                                kind = ('none' if v is None else 'bool' if isinstance(v, bool) else 'int' if isinstance(v, int)
                                        else 'float' if isinstance(v, float) else 'str' if isinstance(v, str) else type(v).__name__)
                                return [kind, repr(float(v)) if kind == 'float' else repr(int(v)) if kind == 'int'
                                        else repr(str(v)) if kind == 'str' else repr(v)]
                            bad = {a: (got[a], sig(st['orig_vals'][c])) for a, c in zip(addrs, cells)
                                   if got[a] != sig(st['orig_vals'][c])}
                            if bad:
                                w['differs'] = repr(bad)[:400]
                            return not bad
                        R.guard('bounded/fresh_process_values', fresh, w)
        # (f) saving in one format does not leave another format stale
        for first, second in ((('pkl', 'yml'), ('yml',)), (('pkl', 'json'), ('json',)), (('pkl', 'yml'), ('pkl', 'yml'))):
            wb = W.WB({'A1': 3, 'A2': 10}, {'B1': '=A1*2', 'C1': '=B1+A2'}, 'partial-save')
            w = {'workbook': repr(wb), 'first_save': first, 'second_save': second}

            def stale_case():
                comp = W.compile_mem(wb)
                for c in wb.cells():
                    comp.evaluate(W.addr(c))
                base = os.path.join(tmp, 'stale_' + '_'.join(first + second) + '_model')
                comp.to_file(base, file_types=first)
                c0 = [c for c in wb.inputs if isinstance(wb.inputs[c], (int, float))][0]
                comp.set_value(W.addr(c0), 4242)
                want = {c: comp.evaluate(W.addr(c)) for c in wb.cells()}
                comp.to_file(base, file_types=second)
                comp.to_file(base, file_types=first)
                ok = True
                for ext in first:
                    loaded = ExcelCompiler.from_file(base + '.' + ext)
                    ok = ok and all(exact(loaded.evaluate(W.addr(c)), want[c]) for c in wb.cells())
                return ok
            R.guard('bounded/no_stale_format_after_partial_save', stale_case, w)
        # (e) the hash stored is the hash of the compiled source
        for fmt in ('yml', 'json', 'pkl'):
            wb = wbs[-1]
            w = {'workbook': repr(wb), 'format': fmt}

            def hash_case():
                path = os.path.join(tmp, f'h_{fmt}.xlsx')
                W.save_xlsx_with_results(wb, path)
                comp = ExcelCompiler(filename=path)
                for c in wb.cells():
                    comp.evaluate(W.addr(c))
                h0 = comp._excel_file_md5_digest
                W.save_xlsx_with_results(wb.with_inputs({list(wb.inputs)[0]: 4242}), path)     # the workbook changes on disk
                comp.to_file(file_types=(fmt,))
                loaded = ExcelCompiler.from_file(path)
                ok = loaded._excel_file_md5_digest == h0 and h0 is not None and not loaded.hash_matches
                for ext in ('yml', 'json', 'pkl', 'pickle'):
                    if os.path.exists(path + '.' + ext):
                        os.remove(path + '.' + ext)
                return ok
            R.guard('bounded/stored_hash_is_compile_time_hash', hash_case, w)


LEVEL = 'other'
EXPLANATION = ('Mixed. PROVED by SMT (strings, all value types): the writer _to_text.cell_value and the reader '
               '_CompiledImporter._get_cell against ONE spec function enc: cell_value returns enc(code, value); _get_cell, given the '
               'entry enc(code, value) under an address, returns a formula record with the same code and no value, or a constant '
               'record with exactly the same value (type and text) - so a text constant is never read back as code; lemma: two '
               'cells are written alike only if they have the same code or are the same constant. BOUNDED (native): whole save / '
               'load behaviour on workbooks drawn from a pool of 70 awkward contents (17-digit floats, -0.0, 1e22, big ints, '
               'yaml / json look-alikes, text starting with = or apostrophes, unicode, multi-line) x {yml, json, pkl} x {plain, '
               'iterative}: loaded values identical (same process, fresh thread, fresh process), post-load histories agree with '
               'the original, re-save byte-identical, re-save of the loaded model same content, settings / file name / hash / '
               'extra_data survive, stored hash is the compile-time hash when the workbook changed on disk.')
ASSUMPTIONS = ['A-STRFIND / A-LSTRIP (string primitives as z3 sequence theory)', 'A-NUMPY: cell values are python scalars (np.float64 '
               'is converted by float())', 'ruamel.yaml / json / pickle round-trip python scalars faithfully: TRUSTED, exercised by '
               'the stand-in only', 'A-EVAL']
BOUNDED_FUNCTIONS = [
    Contract('pycel.excelcompiler:ExcelCompiler._to_text', 'C03', params={}, klass='BOUNDED', notes='file i/o, yaml / json dump, key order'),
    Contract('pycel.excelcompiler:ExcelCompiler._from_text', 'C03', params={}, klass='BOUNDED', notes='yaml load, cell / graph rebuild'),
    Contract('pycel.excelcompiler:ExcelCompiler.to_file', 'C03', params={}, klass='BOUNDED', notes='file types, pickle only when text changed'),
    Contract('pycel.excelcompiler:ExcelCompiler.from_file', 'C03', params={}, klass='BOUNDED', notes='pickle / text loader'),
]
