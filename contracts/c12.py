"""C12 - validate_calcs reports exactly the stored results that disagree."""
from pyvc.spec import Bool, Const, Contract, Float, Int, Lemma, NoneT, Record, Str, Union, implies

SYMBOLIC_TWINS = {}

# -- close_enough: when do a stored and a recomputed result disagree -------------------------------------------

CLOSE = 'pycel.excelcompiler:_CellBase.close_enough'
VAL = Union(NoneT(), Bool(), Int(), Float(), Str(maxlen=3))
REL = 0.00001


def is_number(x):
    return isinstance(x, (bool, int, float))


def differs(a, b, rel, tol):
    """the disagreement the property speaks of.  With a tolerance: off by (1+rel) x tolerance or more.  Without: a
    relative error above rel when both are non-zero, an absolute error above 1e-8 when one of them is zero.
    Values that are not both numbers disagree when they are not equal."""
    if is_number(a) and is_number(b):
        d = abs(b - a)
        if tol is not None:
            return d >= (1 + rel) * tol
        if a and b:
            return d > rel * max(abs(a), abs(b))
        return d > 1e-8
    return not (a == b)


def close_iff_not_differs(self, value, rel, tol, result):
    return result == (not differs(self.value, value, rel, tol))


def lem_reflexive(v, rel, tol):
    return not differs(v, v, rel, tol)


def lem_symmetric(a, b, rel, tol):
    return differs(a, b, rel, tol) == differs(b, a, rel, tol)


def lem_beyond_tolerance_differs(a, b, tol):
    """numbers further apart than (1+1e-5) x tolerance are never close"""
    return implies(is_number(a) and is_number(b) and abs(a - b) > (1 + REL) * tol, differs(a, b, REL, tol))


def lem_small_magnitudes_not_absorbed(a, b):
    """without a tolerance two non-zero numbers that differ by more than 1e-5 relative disagree, however small they
    are (stored 6e-9 against recomputed 3e-9)"""
    return implies(a != 0 and b != 0 and abs(a - b) > REL * max(abs(a), abs(b)), differs(a, b, REL, None))


def build_cellbase(value):
    from pycel.excelcompiler import _CellBase
    c = _CellBase.__new__(_CellBase)
    c.value = value
    return c


def pre_tol4(self, value, rel, tol):
    return tol is None or tol > 0


def pre_tol3(v, rel, tol):
    return tol is None or tol > 0


def pre_tol_pos(a, b, tol):
    return tol > 0


CONTRACTS = [
    Contract(CLOSE, 'C12', params=dict(self=Record('pycel.excelcompiler:_CellBase', {'value': VAL}, build=build_cellbase), value=VAL,
                                       rel=Float(lo=0, hi=1), tol=Union(NoneT(), Float(lo=0))),
             requires=[pre_tol4],
             ensures=[close_iff_not_differs]),
]
LEMMAS = [
    Lemma('close_enough_reflexive', 'C12', dict(v=VAL, rel=Float(lo=0, hi=1), tol=Union(NoneT(), Float(lo=0))), lem_reflexive,
          requires=[pre_tol3]),
    Lemma('close_enough_symmetric', 'C12', dict(a=VAL, b=VAL, rel=Float(lo=0, hi=1), tol=Union(NoneT(), Float(lo=0))),
          lem_symmetric),
    Lemma('beyond_tolerance_differs', 'C12', dict(a=Union(Int(), Float()), b=Union(Int(), Float()), tol=Float(lo=0)),
          lem_beyond_tolerance_differs, requires=[pre_tol_pos]),
    Lemma('small_magnitudes_not_absorbed', 'C12', dict(a=Float(), b=Float()), lem_small_magnitudes_not_absorbed),
]


def _c12_workbooks(rnd, n, W):
    wbs = [w for w in W.grammar(rnd, n, with_unbounded=True) if w.name != 'text' or True] + W.random_dags(rnd, max(2, n // 2))
    wbs += [
        # small magnitudes (farads, seconds, probabilities)
        W.WB({'A1': 1e-3, 'A2': 3e-6}, {'B1': '=A1*A2', 'C1': '=B1+1', 'D1': '=B1*2'}, 'small'),
        W.WB({'A1': 2e-5, 'A2': 4e-5}, {'B1': '=A1*A2', 'B2': '=B1*3', 'B3': '=SUM(B1:B2)'}, 'small-range'),
        # large magnitudes
        W.WB({'A1': 1e6, 'A2': 3.5}, {'B1': '=A1*A2', 'C1': '=B1+1', 'D1': '=C1/7'}, 'large'),
        # a report sheet fed by formula cells of another sheet
        W.WB({'A1': 1, 'A2': 2}, {'B1': '=A1+A2', 'B2': '=B1*A2', 'T!A1': '=S!B1*2', 'T!B1': '=T!A1+S!B2',
                                  'T!C1': '=S!A1+1'}, 'two-sheets'),
        # text / logical results
        W.WB({'A1': 'ab', 'A2': 3}, {'B1': '=A1&"x"', 'B2': '=A2>2', 'B3': '=IF(B2,LEN(B1),0)'}, 'text-logical'),
    ]
    return wbs


def bounded(tier, seed, R):
    import logging
    import random
    import io
    import contextlib
    from contracts import wbgen as W
    logging.disable(logging.CRITICAL)
    rnd = random.Random(seed)
    thorough = tier == 'thorough'
    R.rule = ('generated .xlsx files whose stored formula results are written into the sheet XML: (a) consistent file -> empty '
              'report; (b) each formula cell in turn given a stored result that is off by more than the tolerance (number beyond, '
              'text, logical, error value) -> that cell is in report[mismatch] with (stored, recomputed) and every other reported '
              'cell depends on it; (c) off by less than the tolerance -> not reported; (d) a cell that cannot be evaluated is '
              'listed under exceptions / not-implemented; x tolerance in {None, 1e-6, 0.5} x outputs in {all, one sheet, one sink}')
    wbs = _c12_workbooks(rnd, 8 if not thorough else 32, W)
    R.bound = f'{len(wbs)} workbooks x formula cells x 5 perturbations x 3 tolerances x output choices'

    def run(comp, **kw):
        with contextlib.redirect_stdout(io.StringIO()):
            return comp.validate_calcs(**kw)

    def numeric(v):
        return isinstance(v, (int, float)) and not isinstance(v, bool)

    with W.TmpDir() as tmp:
        for wi, wb in enumerate(wbs):
            truth = W.oracle_values(wb)
            fcells = list(wb.formulas)
            sheets = W.sheets_of(wb)
            out_choices = [('all', {})]
            if len(sheets) > 1:
                out_choices.append((f'sheet {sheets[-1]}', {'sheet': sheets[-1]}))
            sink = fcells[-1]
            out_choices.append((f'sink {sink}', {'output_addrs': W.addr(sink)}))
            for tol in (None, 1e-6, 0.5):
                for oname, okw in out_choices:
                    w0 = {'workbook': repr(wb), 'tolerance': tol, 'outputs': oname}

                    def consistent():
                        comp = W.compile_xlsx(wb, tmp, f'c{wi}')
                        rep = run(comp, tolerance=tol, **okw)
                        return rep == {}
                    R.guard('bounded/consistent_file_empty_report', consistent, w0)
                    for x in fcells:
                        v = truth[x]
                        # which cells the chosen outputs reach
                        if 'output_addrs' in okw:
                            reach = _precedents(W, wb, sink)
                        elif 'sheet' in okw:
                            reach = set()
                            for c in fcells:
                                if c.startswith(okw['sheet'] + '!'):
                                    reach |= _precedents(W, wb, c)
                        else:
                            reach = set(wb.cells())
                        if x not in reach:
                            continue
                        perts = []
                        if numeric(v):
                            if tol is None:
                                perts.append(('beyond', v * (1 + 1e-3) if v else 1e-3, True))
                                perts.append(('beyond-x2', v * 2 if v else 1e-6, True))
                                perts.append(('inside', v * (1 + 1e-8), False))
                            else:
                                perts.append(('beyond', v + 3 * tol, True))
                                perts.append(('inside', v + tol / 4, False))
                            perts.append(('text', 'zz', True))
                            perts.append(('error', '#N/A', True))
                        elif isinstance(v, str):
                            perts.append(('text', v + 'q', True))
                            perts.append(('number', 17, True))
                        elif isinstance(v, bool):
                            perts.append(('logical', not v, True))
                        dep = W.depends_on(wb, x)
                        for pname, stored, must in perts:
                            w = dict(w0, altered=x, kind=pname, stored=stored, recomputed=v)
                            st = {}

                            def go():
                                comp = W.compile_xlsx(wb, tmp, f'c{wi}', tamper={x: stored})
                                st['rep'] = run(comp, tolerance=tol, **okw)
                                return True
                            R.guard('bounded/validate_runs', go, w)
                            if 'rep' not in st:
                                continue
                            mm = st['rep'].get('mismatch', {})
                            key = W.addr(x)
                            w2 = dict(w, report=repr(st['rep'])[:400])
                            if must:
                                ok = key in mm and W.same(mm[key].original, stored) and (
                                    W.same(mm[key].calced, v) or (numeric(v) and abs(mm[key].calced - v) <= 1e-9 * max(1, abs(v))))
                                R.check('bounded/altered_cell_is_named', ok, w2)
                                others = [a for a in mm if a != key]
                                R.check('bounded/other_reported_cells_depend_on_it',
                                        all((a[2:] if a.startswith('S!') else a) in dep for a in others)
                                        and set(st['rep']) <= {'mismatch'}, w2)
                            else:
                                R.check('bounded/within_tolerance_not_reported', key not in mm, w2)
            # (d) cells that cannot be evaluated
            for x in fcells[:2]:
                for bad, section in (('=nosuchfunction(1)', 'not-implemented'), ('=INDEX(1,2,3,4,5,6)', 'exceptions')):
                    broken = W.WB(wb.inputs, dict(wb.formulas, **{x: bad}), wb.name, wb.arrays)
                    w = {'workbook': repr(broken), 'unevaluable': x}

                    def chk():
                        book = W.to_openpyxl(broken)
                        import os
                        path = os.path.join(tmp, f'd{wi}.xlsx')
                        book.save(path)
                        from pycel import ExcelCompiler
                        rep = run(ExcelCompiler(filename=path))
                        listed = [t[0] for sec in ('not-implemented', 'exceptions') for lst in rep.get(sec, {}).values()
                                  for t in lst]
                        return W.addr(x) in listed
                    R.guard('bounded/unevaluable_cell_is_listed', chk, w)


def _precedents(W, wb, cell):
    reads = W.direct_reads(wb)
    seen, todo = set(), [cell]
    while todo:
        c = todo.pop()
        if c in seen:
            continue
        seen.add(c)
        todo.extend(reads.get(c, ()))
    return seen


LEVEL = 'other'
EXPLANATION = ('Mixed. PROVED by SMT (real arithmetic): _CellBase.close_enough returns False exactly when stored and recomputed '
               'result disagree in the sense of the property (with a tolerance: off by (1+rel) x tolerance or more; without: '
               'relative error above rel for two non-zero numbers, absolute error above 1e-8 when one is zero; non-numbers: '
               'unequal), for all values incl. blank / logical / text; lemmas: reflexive, symmetric, beyond-tolerance always '
               'differs, small magnitudes are not absorbed by the absolute floor. BOUNDED (native): validate_calcs on generated '
               '.xlsx files with stored results injected into the sheet XML - consistent file => {}, each formula cell in turn '
               'altered (number beyond / inside tolerance, text, logical, error) x tolerance {None, 1e-6, 0.5} x outputs {all, one '
               'sheet, one sink}: the altered cell is named with (stored, recomputed), other reported cells depend on it; '
               'unevaluable cells are listed under exceptions / not-implemented.')
ASSUMPTIONS = ['A-FLOAT', 'A-ISCLOSE', 'A-EVAL', 'stored results are read by openpyxl (data_only workbook): trusted',
               'tolerance > 0 (tolerance = 0 makes every number a mismatch: outside the property)']
BOUNDED_FUNCTIONS = [
    Contract('pycel.excelcompiler:ExcelCompiler.validate_calcs', 'C12', params={}, klass='BOUNDED',
             notes='work-list loop over symbolic lists / nested dicts keyed by address text, try/except around graph '
                   'construction and evaluation: bounded stand-in only'),
    Contract('pycel.excelcompiler:ExcelCompiler.formula_cells', 'C12', params={}, klass='BOUNDED', notes='openpyxl iteration'),
]
