"""Native harness shared by the bounded stand-ins of the model-lifecycle properties
(C01, C03, C04, C05, C06, C08, C09, C12): a small workbook grammar, ways to obtain a model
(in-memory workbook, .xlsx file with stored results, serialised model), histories of
set_value / evaluate, and the from-scratch oracle.  Runs under /venv/bin/python only.
"""
import io
import os
import random
import re
import shutil
import tempfile
import zipfile

VALUE_POOL = [None, 0, False, 1, True, '', 'a', 2.5, -3, 10, 'x y', 7.0]
NUM_POOL = [0, 1, 2.5, -3, 10, 7, 100]


class WB:
    """sheet 'S': inputs (constants) and formulas; every formula refers to earlier cells only"""

    def __init__(self, inputs, formulas, name='', arrays=None):
        self.inputs = dict(inputs)          # 'A1' -> value
        self.formulas = dict(formulas)      # 'B1' -> '=A1+1'  (insertion order = dependency order)
        self.arrays = dict(arrays or {})    # 'C1' -> ('C1:C3', '=A1:A3*2')   CSE array formulas (origin cell -> ref, text)
        self.name = name

    def array_cells(self):
        out = []
        for ref, _ in self.arrays.values():
            a, b = ref.split(':')
            for r in range(int(a[1:]), int(b[1:]) + 1):
                for c in range(ord(a[0]), ord(b[0]) + 1):
                    out.append(f'{chr(c)}{r}')
        return out

    def cells(self):
        return list(self.inputs) + list(self.formulas) + self.array_cells()

    def with_inputs(self, values):
        w = WB(self.inputs, self.formulas, self.name, self.arrays)
        w.inputs.update(values)
        return w

    def __repr__(self):
        return f'WB({self.name}: {self.inputs} {self.formulas}' + (f' arrays={self.arrays}' if self.arrays else '') + ')'


def addr(c):
    return c if '!' in c else f'S!{c}'


# -- the shape grammar ------------------------------------------------------------------------------

def grammar(rnd, n, numeric=False, with_unbounded=True, with_text=True):
    """n workbooks: chains, diamonds, ranges, nested ranges, unbounded ranges, text / logical formulas"""
    out = []
    pool = NUM_POOL if numeric else VALUE_POOL
    for k in range(n):
        kind = k % 9
        iv = [rnd.choice(NUM_POOL) for _ in range(4)]
        if kind == 0:      # chain
            out.append(WB({'A1': iv[0]}, {'B1': '=A1+1', 'C1': '=B1*2', 'D1': '=C1-A1'}, 'chain'))
        elif kind == 1:    # diamond
            out.append(WB({'A1': iv[0], 'A2': iv[1]},
                          {'B1': '=A1+A2', 'B2': '=A1*2', 'C1': '=B1+B2', 'D1': '=IF(C1>5,B1,B2)'}, 'diamond'))
        elif kind == 2:    # range of inputs
            out.append(WB({'A1': iv[0], 'A2': iv[1], 'A3': iv[2]},
                          {'B1': '=SUM(A1:A3)', 'B2': '=MAX(A1:A2)+B1', 'B3': '=AVERAGE(A1:A3)'}, 'range'))
        elif kind == 3:    # range of formulas (nested)
            out.append(WB({'A1': iv[0], 'A2': iv[1]},
                          {'B1': '=A1+1', 'B2': '=A2*2', 'C1': '=SUM(B1:B2)', 'C2': '=SUM(A1:B2)+C1'}, 'nested-range'))
        elif kind == 4 and with_unbounded:   # unbounded column reference
            out.append(WB({'A1': iv[0], 'A2': iv[1], 'A3': iv[2]},
                          {'C1': '=SUM(A:A)', 'C2': '=C1+1'}, 'unbounded'))
        elif kind == 5 and with_text:    # text and logicals
            # (an empty text constant cannot be stored in an .xlsx file - it is read back as a blank cell - so it is
            #  only ever assigned later, through set_value)
            init = [x for x in pool if x != '']
            v = rnd.choice(init)
            out.append(WB({'A1': v, 'A2': rnd.choice(init)},
                          {'B1': '=A1&"x"', 'B2': '=IF(A1=A2,"same","diff")', 'B3': '=LEN(B1)+1'}, 'text'))
        elif kind == 8:    # formula results that are blank-like: 0, FALSE, ""  (a stored "" is read back as no value)
            out.append(WB({'A1': iv[0], 'A2': 0},
                          {'H1': '=A2*5', 'H2': '=A2>1', 'H3': '=IF(A2=0,"","x")', 'B1': '=A1+H1',
                           'B2': '=IF(H2,A1,A1+1)', 'B3': '=H3&A1'}, 'falsy-results'))
        elif kind == 6:    # two independent parts (one must not disturb the other)
            out.append(WB({'A1': iv[0], 'D1': iv[1]},
                          {'B1': '=A1+1', 'E1': '=D1*3', 'F1': '=E1+D1'}, 'independent'))
        else:              # wider fan-in
            out.append(WB({'A1': iv[0], 'A2': iv[1], 'B1': iv[2], 'B2': iv[3]},
                          {'C1': '=SUM(A1:B2)', 'C2': '=A1+B2', 'D1': '=C1-C2', 'D2': '=MIN(A1:B1)'}, 'fan-in'))
    return out


def random_dags(rnd, n, max_formulas=7):
    """random acyclic workbooks: every formula refers to cells defined before it - single cells, ranges over the
    input block or over earlier formulas, whole columns of the input block, mixed with numeric functions"""
    out = []
    for k in range(n):
        rows = rnd.randint(2, 4)
        inputs = {f'A{r}': rnd.choice(NUM_POOL) for r in range(1, rows + 1)}
        inputs.update({f'B{r}': rnd.choice(NUM_POOL) for r in range(1, rows + 1) if rnd.random() < 0.7})
        formulas = {}
        avail = list(inputs)
        for i in range(rnd.randint(3, max_formulas)):
            cell = f'{chr(ord("D") + i % 4)}{i // 4 + 1}'
            kind = rnd.random()
            a, b = rnd.choice(avail), rnd.choice(avail)
            if kind < 0.3:
                f = f'={a}{rnd.choice("+-*")}{b}'
            elif kind < 0.5:
                f = f'={rnd.choice(["SUM", "MAX", "MIN", "COUNT"])}(A1:A{rows})+{a}'
            elif kind < 0.6:
                f = f'=SUM(A1:B{rows})-{a}'
            elif kind < 0.7:
                f = f'=IF({a}>{b},{a},{b}+1)'
            elif kind < 0.8 and formulas:
                fs = sorted(formulas)
                col = fs[0][0]
                same_col = [c for c in fs if c[0] == col]
                f = f'=SUM({same_col[0]}:{same_col[-1]})+{a}' if len(same_col) > 1 else f'={same_col[0]}*2'
            elif kind < 0.9:
                f = f'=SUM(A:A)+{b}'
            else:
                f = f'=ROUND({a}/3,2)&"-"&{b}'
            # a text result must not feed arithmetic later: keep text formulas out of the pool of operands
            formulas[cell] = f
            if '&' not in f:
                avail.append(cell)
        out.append(WB(inputs, formulas, f'random-dag-{k}'))
    return out


def cse_grammar(rnd, n):
    """workbooks with CSE array formulas next to ordinary cells that take ranges"""
    out = []
    for k in range(n):
        iv = [rnd.choice([1, 2, 3, 5, 10, -3, 2.5]) for _ in range(4)]
        kind = k % 7
        if kind == 6:     # adjacent array formulas whose texts start alike (or are equal), a range spanning them
            out.append(WB({'C1': iv[0], 'C2': iv[1]},
                          {'E1': '=SUM(A1:A4)', 'E2': '=COUNT(A1:A6)', 'G1': '=E1*0+A4', 'G2': '=A4+E1*0'}, 'cse-adjacent',
                          {'A1': ('A1:A2', '=C1:C2*2'), 'A3': ('A3:A4', '=C1:C2*25'), 'A5': ('A5:A6', '=C1:C2*2')}))
        elif kind == 4:     # two un-calculated formula cells chained below an array formula that must be fitted to its range
            out.append(WB({'A1': iv[0], 'A2': iv[1], 'A3': iv[2]},
                          {'B1': '=A1*2', 'C1': '=B1+1', 'C2': '=IFERROR(B1/(A2-A2),7)', 'G1': '=SUM(E1:E3)'}, 'cse-deep',
                          {'E1': ('E1:E3', '=SUM(A1:A3)+C1'), 'F1': ('F1:F3', '=IFERROR(C2/(A1:A3-A1),-1)')}))
        elif kind == 5:   # an intersection that lands on a single formula cell, read before and after the cell itself
            out.append(WB({'A1': iv[0], 'A3': iv[2], 'B2': iv[1], 'C9': iv[3]},
                          {'A2': '=C9+1', 'D1': '=SUM(A1:A3 A2:B2)', 'D2': '=IFERROR(A2,9)', 'D3': '=A2*2'}, 'intersection'))
        elif kind == 0:     # an ordinary cell with a range argument, used by an array formula
            out.append(WB({'A1': iv[0], 'A2': iv[1], 'A3': iv[2]},
                          {'B1': '=IFERROR(A1:A3,9)', 'D1': '=SUM(C1:C3)'}, 'cse-col',
                          {'C1': ('C1:C3', '=A1:A3+B1')}))
        elif kind == 1:   # the same array formula text entered twice, ordinary cells in between
            out.append(WB({'A1': iv[0], 'B1': iv[1]},
                          {'C2': '=A1+100', 'D2': '=B1+200', 'F1': '=SUM(C1:D3)'}, 'cse-copied',
                          {'C1': ('C1:D1', '=$A$1:$B$1*2'), 'C3': ('C3:D3', '=$A$1:$B$1*2')}))
        elif kind == 2:   # 2-D array
            out.append(WB({'A1': iv[0], 'B1': iv[1], 'A2': iv[2], 'B2': iv[3]},
                          {'G1': '=D1+E2', 'G2': '=IF(A1:B2>2,1,0)'}, 'cse-2d',
                          {'D1': ('D1:E2', '=A1:B2*2')}))
        else:             # array over formula cells
            out.append(WB({'A1': iv[0], 'A2': iv[1]},
                          {'B1': '=A1+1', 'B2': '=IFNA(A1:A2,0)+A2', 'E1': '=MAX(D1:D2)'}, 'cse-over-formulas',
                          {'D1': ('D1:D2', '=B1:B2*A1')}))
    return out


# -- obtaining a model ---------------------------------------------------------------------------------

def sheets_of(wb):
    """sheet names in workbook order: 'S' first, then others as they appear in cell keys ('T!A1')"""
    names = ['S']
    for c in list(wb.inputs) + list(wb.formulas):
        if '!' in c and c.split('!')[0] not in names:
            names.append(c.split('!')[0])
    return names


def to_openpyxl(wb):
    import openpyxl
    book = openpyxl.Workbook()
    ws = book.active
    ws.title = 'S'
    sheets = {'S': ws}
    for name in sheets_of(wb)[1:]:
        sheets[name] = book.create_sheet(name)

    def put(c, v):
        sh, cell = c.split('!') if '!' in c else ('S', c)
        sheets[sh][cell] = v
    for c, v in wb.inputs.items():
        put(c, v)
    for c, f in wb.formulas.items():
        put(c, f)
    if wb.arrays:
        from openpyxl.worksheet.formula import ArrayFormula
        for c, (ref, text) in wb.arrays.items():
            ws[c] = ArrayFormula(ref, text)
    return book


def compile_mem(wb, cycles=None, plugins=None):
    from pycel import ExcelCompiler
    kw = {}
    if cycles is not None:
        kw['cycles'] = cycles
    if plugins is not None:
        kw['plugins'] = plugins
    return ExcelCompiler(excel=to_openpyxl(wb), **kw)


def oracle_values(wb, cells=None):
    """what a from-scratch compile of the workbook with the current inputs evaluates to"""
    comp = compile_mem(wb)
    cells = cells or wb.cells()
    return {c: comp.evaluate(addr(c)) for c in cells}


def save_xlsx_with_results(wb, path, results=None, tamper=None):
    """an .xlsx whose formula cells carry stored (cached) results; tamper: {cell: stored value}"""
    book = to_openpyxl(wb)
    book.save(path)
    results = dict(results if results is not None else oracle_values(wb, list(wb.formulas)))
    if tamper:
        results.update(tamper)
    names = sheets_of(wb)
    zin = zipfile.ZipFile(path)
    buf = io.BytesIO()
    zout = zipfile.ZipFile(buf, 'w', zipfile.ZIP_DEFLATED)
    for item in zin.infolist():
        data = zin.read(item.filename)
        m_sheet = re.match(r'xl/worksheets/sheet(\d+)\.xml$', item.filename)
        if m_sheet:
            this_sheet = names[int(m_sheet.group(1)) - 1]
            text = data.decode('utf-8')
            for c, val in results.items():
                sh, c = c.split('!') if '!' in c else ('S', c)
                if val is None or sh != this_sheet:
                    continue
                if isinstance(val, bool):
                    attr, body = ' t="b"', '1' if val else '0'
                elif isinstance(val, (int, float)):
                    attr, body = '', repr(val)
                elif isinstance(val, str) and val.startswith('#'):
                    attr, body = ' t="e"', val
                else:
                    attr, body = ' t="str"', (str(val).replace('&', '&amp;').replace('<', '&lt;'))
                pat = re.compile(r'<c r="%s"([^>]*)>(<f>.*?</f>)(<v\s*/>|<v></v>)?</c>' % c, re.S)
                text, n = pat.subn(lambda m: '<c r="%s"%s%s>%s<v>%s</v></c>' % (
                    c, re.sub(r'\s*t="[^"]*"', '', m.group(1)), attr, m.group(2), body), text)
            data = text.encode('utf-8')
        zout.writestr(item, data)
    zout.close()
    zin.close()
    with open(path, 'wb') as f:
        f.write(buf.getvalue())


class TmpDir:
    def __enter__(self):
        self.path = tempfile.mkdtemp(prefix='pycel-verif-', dir=os.environ.get('TMPDIR'))
        return self.path

    def __exit__(self, *a):
        shutil.rmtree(self.path, ignore_errors=True)


def compile_xlsx(wb, tmpdir, name='book', tamper=None, **kw):
    from pycel import ExcelCompiler
    path = os.path.join(tmpdir, f'{name}.xlsx')
    save_xlsx_with_results(wb, path, tamper=tamper)
    return ExcelCompiler(filename=path, **kw)


def compile_serialized(wb, tmpdir, fmt, name='ser', warm=True):
    """save a (fully evaluated) model and load it back"""
    from pycel import ExcelCompiler
    comp = compile_mem(wb)
    if warm:
        for c in wb.cells():
            comp.evaluate(addr(c))
    base = os.path.join(tmpdir, name + '_model')      # (must not end in an extension-like suffix)
    comp.to_file(base, file_types=(fmt,))
    return ExcelCompiler.from_file(base + '.' + fmt)


ORIGINS = ('mem', 'xlsx', 'yml', 'json', 'pkl')


def obtain(wb, origin, tmpdir, name='m'):
    if origin == 'mem':
        return compile_mem(wb)
    if origin == 'xlsx':
        return compile_xlsx(wb, tmpdir, name)
    return compile_serialized(wb, tmpdir, origin, name)


# -- histories ---------------------------------------------------------------------------------------------

def histories(rnd, wb, n, length, pool=None):
    """n random interleavings of ('set', cell, value) / ('eval', cell)"""
    pool = pool or VALUE_POOL
    out = []
    ins = list(wb.inputs)
    cells = wb.cells()
    for _ in range(n):
        h = []
        for _ in range(length):
            if rnd.random() < 0.5:
                h.append(('set', rnd.choice(ins), rnd.choice(pool)))
            else:
                h.append(('eval', rnd.choice(cells)))
        out.append(h)
    return out


def directed_histories(rnd, wb, pool=None, limit=12):
    """load-then-set-then-read: evaluate a formula cell (so that it and its precedents are in the model, with stored
    results where the origin has them), change one input it depends on, read it again"""
    pool = pool or VALUE_POOL
    out = []
    for f in wb.formulas:
        for c in wb.inputs:
            if c in depends_on_inverse(wb, f):
                cands = [v for v in pool if v and not (isinstance(v, type(wb.inputs[c])) and v == wb.inputs[c])]
                out.append([('eval', f), ('set', c, rnd.choice(cands)), ('eval', f)])
    if len(out) > limit:
        rnd.shuffle(out)
    return out[:limit]


def depends_on_inverse(wb, cell):
    """the cells `cell` reads, transitively (itself included)"""
    reads = direct_reads(wb)
    seen, todo = set(), [cell]
    while todo:
        c = todo.pop()
        if c in seen:
            continue
        seen.add(c)
        todo.extend(reads.get(c, ()))
    return seen


def same(a, b):
    """equality that tells 0 from FALSE and 1 from TRUE, and tolerates float noise"""
    if isinstance(a, bool) != isinstance(b, bool):
        return False
    if isinstance(a, float) or isinstance(b, float):
        try:
            return abs(a - b) <= 1e-9 * max(1.0, abs(a), abs(b))
        except TypeError:
            return False
    return type(a) is type(b) and a == b if isinstance(a, (str, type(None))) or isinstance(b, (str, type(None))) \
        else a == b


def run_history(comp, wb, history, check_each=True):
    """replays a history on the model and compares every evaluate with the from-scratch oracle.
    Returns None when coherent, else a dict describing the first disagreement."""
    cur = wb
    for step, op in enumerate(history):
        if op[0] == 'set':
            _, c, v = op
            if addr(c) not in comp.cell_map:
                comp.evaluate(addr(c))      # documented precondition of set_value: the cell is loaded
            comp.set_value(addr(c), v)
            cur = cur.with_inputs({c: v})
        else:
            _, c = op
            got = comp.evaluate(addr(c))
            want = oracle_values(cur, [c])[c]
            if not same(got, want):
                return {'step': step, 'op': list(op), 'got': got, 'want': want}
    # finally every cell
    want = oracle_values(cur)
    for c in cur.cells():
        got = comp.evaluate(addr(c))
        if not same(got, want[c]):
            return {'step': 'final', 'cell': c, 'got': got, 'want': want[c]}
    return None


# -- static dependencies of a grammar workbook -----------------------------------------------------------

_REF = re.compile(r"(?:(\w+)!)?(?:\$?([A-Z])\$?(\d+)(?::\$?([A-Z])\$?(\d+))?|\b([A-Z]):([A-Z])\b)")


def _key(sheet, cell):
    return cell if sheet == 'S' else f'{sheet}!{cell}'


def direct_reads(wb):
    """cell -> set of cells (of this workbook) its formula mentions, ranges expanded, A:A clipped to the cells;
    unqualified references are on the formula's own sheet"""
    cells = set(wb.cells())
    out = {}
    texts = dict(wb.formulas)
    for origin, (ref, text) in wb.arrays.items():
        a, b = ref.split(':')
        for r in range(int(a[1:]), int(b[1:]) + 1):
            for c in range(ord(a[0]), ord(b[0]) + 1):
                texts[f'{chr(c)}{r}'] = text
    for cell, f in texts.items():
        own = cell.split('!')[0] if '!' in cell else 'S'
        reads = set()
        body = re.sub(r'"[^"]*"', '', f)
        for m in _REF.finditer(body):
            sh = m.group(1) or own
            if m.group(6):
                for c in cells:
                    csh, cc = c.split('!') if '!' in c else ('S', c)
                    if csh == sh and m.group(6) <= cc[0] <= m.group(7):
                        reads.add(c)
            elif m.group(4):
                for r in range(int(m.group(3)), int(m.group(5)) + 1):
                    for c in range(ord(m.group(2)), ord(m.group(4)) + 1):
                        reads.add(_key(sh, f'{chr(c)}{r}'))
            else:
                reads.add(_key(sh, f'{m.group(2)}{m.group(3)}'))
        out[cell] = reads
    return out


def depends_on(wb, target):
    """cells whose value depends (transitively) on target, target included"""
    reads = direct_reads(wb)
    dep = {target}
    changed = True
    while changed:
        changed = False
        for c, rs in reads.items():
            if c not in dep and rs & dep:
                dep.add(c)
                changed = True
    return dep
