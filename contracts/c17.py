"""C17 - Excel's 1900 date system (pycel.lib.date_time)."""
from pyvc.spec import (Bool, Const, Contract, Float, Int, Lemma, NoneT, Str,
                       Tuple, Union, implies)

NUM_ERROR = '#NUM!'
VALUE_ERROR = '#VALUE!'
MAX_SERIAL = 2958465          # 9999-12-31
ORD0 = 693594                 # ordinal of 1899-12-30
K1900 = 1900 * 12

SYMBOLIC_TWINS = {
    'xm': 'pyvc.calendar_model:sx_xm',
    'gregorian': 'pyvc.calendar_model:sx_gregorian',
    'xdim': 'pyvc.calendar_model:sx_xdim',
    'triple_fn': 'pyvc.calendar_model:sx_triple_fn',
}


# -- calendar primitives (native meaning; symbolic twins are the trusted A-CAL model) --------

def gregorian(o):
    import datetime
    d = datetime.date.fromordinal(o)
    return (d.year, d.month, d.day)


def xdim(y, m):
    """Excel's month length: Gregorian, except that February 1900 has 29 days."""
    import calendar
    if y == 1900 and m == 2:
        return 29
    return calendar.monthrange(y, m)[1]


def xm(k):
    """Excel serial number of the first day of month index k = 12*year + month - 1
    (January 1900 is k = 22800 with serial 1; the fictitious 1900-02-29 is counted)."""
    import datetime
    y, m = divmod(k, 12)
    o = datetime.date(y, m + 1, 1).toordinal() - ORD0
    return o - 1 if k <= K1900 + 1 else o


def xserial(y, m, d):
    return xm(12 * y + m - 1) + d - 1


def valid_xdate(y, m, d):
    return 1900 <= y <= 9999 and 1 <= m <= 12 and 1 <= d <= xdim(y, m)


# -- date_from_int -----------------------------------------------------------------------------

def pre_serial(datestamp):
    return 0 <= datestamp <= MAX_SERIAL


def post_date_from_int(datestamp, result):
    n = datestamp
    if n == 60:
        return result == (1900, 2, 29)
    if n == 0:
        return result == (1900, 1, 0)
    if n > 60:
        return result == gregorian(ORD0 + n)
    return result == gregorian(ORD0 + 1 + n)


def post_date_from_int_valid(datestamp, result):
    """every serial day >= 1 denotes a valid Excel date with that serial number"""
    y = result[0]
    m = result[1]
    d = result[2]
    if datestamp == 0:
        return True
    return valid_xdate(y, m, d) and xserial(y, m, d) == datestamp


# -- is_leap_year / max_days_in_month ----------------------------------------------------------------

def pre_year(year):
    return 1 <= year


def post_is_leap(year, result):
    greg = (year % 4 == 0 and year % 100 != 0) or year % 400 == 0
    return bool(result) == (greg or year == 1900)


def pre_mdim(month, year):
    return 1 <= month <= 12 and 1 <= year


def post_mdim(month, year, result):
    return result == xdim(year, month)


# -- normalize_year -------------------------------------------------------------------------------------

def pre_normalize(y, m, d):
    # d <= 0 is a recorded known finding (wrong month length is added, pinned by the
    # repository's own test_normalize_year); the contract covers d >= 1
    return d >= 1 and 1 <= y and -12000 <= m <= 12000 and 12 * y + m >= 13


def post_normalize(y, m, d, result):
    """month overflow carries into years, day overflow carries into months,
    preserving the day count from the first of the (carried) month"""
    y2 = result[0]
    m2 = result[1]
    d2 = result[2]
    if not (1 <= m2 <= 12 and 1 <= d2):
        return False
    k = 12 * y + m - 1
    k2 = 12 * y2 + m2 - 1
    if d <= 28 and not (k2 == k and d2 == d):
        return False          # no month is shorter than 28 days: only the month carries
    if k < K1900 or k2 < K1900 or y2 > 9999:
        return k2 >= k        # outside Excel's calendar: only the direction is stated
    return d2 <= xdim(y2, m2) and xm(k2) + d2 == xm(k) + d


def post_normalize_identity(y, m, d, result):
    return implies(1 <= m <= 12 and d <= xdim(y, m), result == (y, m, d))


# -- date --------------------------------------------------------------------------------------------------

def pre_date(year, month_, day):
    return day >= 1 and -12000 <= month_ <= 12000


def post_date(year, month_, day, result):
    if not (0 <= year <= 9999):
        return result == NUM_ERROR
    y = year + 1900 if year < 1900 else year
    k = 12 * y + month_ - 1
    if k < K1900:
        # a month before 1900: #NUM! unless enough days carry into 1900
        return result == NUM_ERROR or (day > 28 and result >= 0)
    if 1 <= month_ <= 12 and day <= xdim(y, month_):
        return result == xserial(y, month_, day)
    # carried dates: a serial number or #NUM! (past 9999-12-31), never an exception
    return result == NUM_ERROR or result >= 1


# -- year / month / day / weekday (through serial_number_wrapper) ---------------------------------------

def pre_sn(serial_number):
    return 0 <= serial_number <= MAX_SERIAL


def post_weekday(serial_number, result):
    return 1 <= result <= 7 and (result - serial_number) % 7 == 0


DFI = 'pycel.lib.date_time:date_from_int'
NY = 'pycel.lib.date_time:normalize_year'
DATE = 'pycel.lib.date_time:date'
MDIM = 'pycel.lib.date_time:max_days_in_month'
LEAP = 'pycel.lib.date_time:is_leap_year'

triple = Tuple(Int(), Int(), Int())

CONTRACTS = [
    Contract(DFI, 'C17', params=dict(datestamp=Int()), requires=[pre_serial],
             ensures=[post_date_from_int, post_date_from_int_valid], returns=triple),
    Contract(LEAP, 'C17', params=dict(year=Int()), requires=[pre_year], ensures=[post_is_leap],
             returns=Bool()),
    Contract(MDIM, 'C17', params=dict(month=Int(), year=Int()), requires=[pre_mdim], ensures=[post_mdim],
             returns=Int()),
    Contract(NY, 'C17', params=dict(y=Int(), m=Int(), d=Int()), requires=[pre_normalize],
             ensures=[post_normalize, post_normalize_identity], returns=triple, decreases='recursive',
             modular=[MDIM]),
    Contract(DATE, 'C17', params=dict(year=Int(), month_=Int(), day=Int()), requires=[pre_date],
             ensures=[post_date], returns=Union(Int(), Float(), Const(NUM_ERROR)), modular=[NY]),
]



# -- YEAR / MONTH / DAY / WEEKDAY (raw function + serial_number_wrapper applied) -----------------------

def pre_sn_any(date_serial_number):
    return True


def floor_(x):
    import math
    return math.floor(x)


def parts_post(date_serial_number, result, idx):
    if date_serial_number < 0 or date_serial_number >= MAX_SERIAL + 1:
        return result == NUM_ERROR
    n = floor_(date_serial_number)
    if n == 60:
        return result == (1900, 2, 29)[idx]
    if n == 0:
        return result == (1900, 1, 0)[idx]
    if n > 60:
        return result == gregorian(ORD0 + n)[idx]
    return result == gregorian(ORD0 + 1 + n)[idx]


def post_year(date_serial_number, result):
    return parts_post(date_serial_number, result, 0)


def post_month(date_serial_number, result):
    return parts_post(date_serial_number, result, 1)


def post_day(date_serial_number, result):
    return parts_post(date_serial_number, result, 2)


def post_weekday(date_serial_number, result):
    if date_serial_number < 0 or date_serial_number >= MAX_SERIAL + 1:
        return result == NUM_ERROR
    n = floor_(date_serial_number)
    return 1 <= result <= 7 and (result - n) % 7 == 0


# -- EDATE / EOMONTH ----------------------------------------------------------------------------------------

def pre_months_inc(start_date, months, eomonth):
    return 1 <= start_date <= MAX_SERIAL and -120000 <= months <= 120000


def post_months_inc(start_date, months, eomonth, result):
    t = triple_of(start_date)
    k2 = 12 * t[0] + t[1] - 1 + months
    y2 = k2 // 12
    m2 = k2 % 12 + 1
    if not (1900 <= y2 <= 9999):
        return result == NUM_ERROR
    last = xdim(y2, m2)
    if eomonth:
        return result == xm(k2) + last - 1                 # the month's last day
    d = t[2] if t[2] <= last else last                      # whole months, day kept but clamped
    return result == xm(k2) + d - 1


def pre_edate(start_date, months):
    return pre_months_inc(start_date, months, False)


def post_edate(start_date, months, result):
    return post_months_inc(start_date, months, False, result)


def post_eomonth(start_date, months, result):
    return post_months_inc(start_date, months, True, result)


def triple_of(n):
    if n == 60:
        return (1900, 2, 29)
    if n > 60:
        return gregorian(ORD0 + n)
    return gregorian(ORD0 + 1 + n)


def post_months_inc_types(start_date, months, eomonth, result):
    return True


def pre_months_inc_any(start_date, months, eomonth):
    # serial 0 / blank is the 0th of January: DATE(..., day=0) is the recorded
    # known finding of normalize_year, so it is outside this contract
    if start_date is None or isinstance(start_date, bool):
        return isinstance(start_date, bool)
    if months is not None and not isinstance(months, bool) and not (-120000 <= months <= 120000):
        return False
    return start_date < 0 or start_date >= 1


def post_months_inc_total(start_date, months, eomonth, result):
    """logicals and text are #VALUE!, negatives #NUM! (never an exception: the raises clause is empty)"""
    if isinstance(start_date, bool) or isinstance(months, bool):
        return result == VALUE_ERROR
    if start_date < 0 or start_date >= MAX_SERIAL + 1:
        return result == NUM_ERROR
    return True


MI = 'pycel.lib.date_time:months_inc'

CONTRACTS += [
    Contract('pycel.lib.date_time:year', 'C17', params=dict(date_serial_number=Union(Int(), Float())),
             requires=[pre_sn_any], ensures=[post_year], apply_decorators=True, modular=[]),
    Contract('pycel.lib.date_time:month', 'C17', params=dict(date_serial_number=Union(Int(), Float())),
             requires=[pre_sn_any], ensures=[post_month], apply_decorators=True),
    Contract('pycel.lib.date_time:day', 'C17', params=dict(date_serial_number=Union(Int(), Float())),
             requires=[pre_sn_any], ensures=[post_day], apply_decorators=True),
    Contract('pycel.lib.date_time:weekday', 'C17', params=dict(date_serial_number=Union(Int(), Float())),
             requires=[pre_sn_any], ensures=[post_weekday], apply_decorators=True),
    Contract(MI, 'C17', params=dict(start_date=Int(), months=Int(), eomonth=Union(Const(True), Const(False))),
             requires=[pre_months_inc], ensures=[post_months_inc], modular=[DATE, MDIM]),
    # the public functions: thin wrappers, but what a formula calls
    Contract('pycel.lib.date_time:edate', 'C17', params=dict(start_date=Int(), months=Int()),
             requires=[pre_edate], ensures=[post_edate], modular=[DATE, MDIM]),
    Contract('pycel.lib.date_time:eomonth', 'C17', params=dict(start_date=Int(), months=Int()),
             requires=[pre_edate], ensures=[post_eomonth], modular=[DATE, MDIM]),
    Contract(MI, 'C17', name='months_inc[types]',
             params=dict(start_date=Union(Int(), Float(), Bool(), NoneT()),
                         months=Union(Int(), Float(), Bool(), NoneT()),
                         eomonth=Union(Const(True), Const(False))),
             requires=[pre_months_inc_any], ensures=[post_months_inc_total], modular=[DATE, MDIM]),
]


# -- lemmas ----------------------------------------------------------------------------------------------------

def serial_ok(n):
    return 0 <= n <= MAX_SERIAL


def lem_roundtrip(n):
    """DATE(YEAR(n), MONTH(n), DAY(n)) = n for every serial day (0 is the 0th of January 1900,
    which DATE cannot take back: day 0 is a known finding of normalize_year)"""
    from pycel.lib.date_time import date, day, month, year
    if n == 0:
        return (year(n), month(n), day(n)) == (1900, 1, 0)
    return date(year(n), month(n), day(n)) == n


def lem_day60(n):
    from pycel.lib.date_time import date, day, month, year
    return (year(60), month(60), day(60)) == (1900, 2, 29) and date(1900, 2, 29) == 60 and \
        date(1900, 3, 1) == 61 and date(1900, 2, 28) == 59 and date(1900, 1, 1) == 1


def lem_weekday_period(n):
    from pycel.lib.date_time import weekday
    return weekday(n + 7) == weekday(n)


def lem_time_decompose(n, k):
    """HOUR/MINUTE/SECOND of n + k/86400 (under A-FLOAT: real arithmetic)"""
    from pycel.lib.date_time import time_from_serialnumber
    t = time_from_serialnumber(n + k / 86400)
    return t[0] == k // 3600 and t[1] == (k // 60) % 60 and t[2] == k % 60


def lem_time_in_range_and_nearest(n, s):
    """for any time of day s (seconds, real): hour < 24, minute < 60, second < 60 - no second 60 - and the time shown
    is the nearest whole second (ties down, within the 1.1 microsecond guard), wrapping at midnight"""
    from pycel.lib.date_time import time_from_serialnumber
    t = time_from_serialnumber(n + s / 86400)
    total = t[0] * 3600 + t[1] * 60 + t[2]
    in_range = 0 <= t[0] < 24 and 0 <= t[1] < 60 and 0 <= t[2] < 60
    near = abs(total - s) <= 0.5 + 2e-6 or abs(total + 86400 - s) <= 0.5 + 2e-6
    return in_range and near


def lem_hour_minute_second_agree(n, s):
    """the public HOUR, MINUTE and SECOND describe ONE time of day: together they are the nearest whole second of the
    fraction of the serial number (wrapping at midnight), each in its range"""
    from pycel.lib.date_time import hour, minute, second
    x = n + s / 86400
    h, m, sec = hour(x), minute(x), second(x)
    total = h * 3600 + m * 60 + sec
    in_range = 0 <= h < 24 and 0 <= m < 60 and 0 <= sec < 60
    near = abs(total - s) <= 0.5 + 2e-6 or abs(total + 86400 - s) <= 0.5 + 2e-6
    return in_range and near


def time_pre_real(n, s):
    return 0 <= n <= MAX_SERIAL and 0 <= s < 86400


def time_pre(n, k):
    return 0 <= n <= MAX_SERIAL and 0 <= k < 86400


def lem_yearfrac_symmetric(a, b, basis):
    from pycel.lib.date_time import yearfrac
    return yearfrac(a, b, basis) == yearfrac(b, a, basis)


def yf_pre(a, b, basis):
    return True


def triple_fn(n):
    from pycel.lib.date_time import date_from_int
    return date_from_int(n)


def post_dfi_functional(datestamp, result):
    """all the symmetry argument needs: date_from_int is a function of its argument"""
    return result == triple_fn(datestamp)


DFI_FUNCTIONAL = Contract(DFI, 'C17', params=dict(datestamp=Int()), ensures=[post_dfi_functional],
                          returns=triple, name='date_from_int[functional]')


LEMMAS = [
    Lemma('date_of_year_month_day_is_identity', 'C17', dict(n=Int()), lem_roundtrip, requires=[serial_ok],
          modular=[DATE, DFI]),
    Lemma('day_60_is_1900_02_29', 'C17', dict(n=Const(0)), lem_day60, modular=[NY]),
    Lemma('weekday_has_period_7', 'C17', dict(n=Int(0, MAX_SERIAL - 7)), lem_weekday_period),
    Lemma('time_is_nearest_second_and_carries', 'C17', dict(n=Int(), s=Float()), lem_time_in_range_and_nearest,
          requires=[time_pre_real], notes='no second 60: the seconds carry into minutes and hours (A-FLOAT: reals)'),
    Lemma('hour_minute_second_agree', 'C17', dict(n=Int(), s=Float()), lem_hour_minute_second_agree,
          requires=[time_pre_real], notes='the three public functions, through their wrapper, on a numeric serial number'),
    Lemma('hour_minute_second_decompose_exact_seconds', 'C17', dict(n=Int(), k=Int()), lem_time_decompose,
          requires=[time_pre]),
    Lemma('yearfrac_symmetric', 'C17',
          dict(a=Int(), b=Int(), basis=Union(Const(0), Const(2), Const(3), Const(4), NoneT())),
          lem_yearfrac_symmetric, requires=[yf_pre], modular=[DFI_FUNCTIONAL]),
]

LEVEL = 'other'
EXPLANATION = ('Mixed, reported separately. PROVED (SMT, all inputs): contracts on date_from_int, is_leap_year, '
               'max_days_in_month, normalize_year (day >= 1; recursion discharged against its own contract), date, '
               'year/month/day/weekday with serial_number_wrapper applied, months_inc (EDATE/EOMONTH) and the lemmas '
               'DATE(YEAR,MONTH,DAY)=n for every serial day, day 60 = 1900-02-29, WEEKDAY period 7, '
               'HOUR/MINUTE/SECOND of exact seconds (A-FLOAT), YEARFRAC symmetry for bases 0,2,3,4 - all over the '
               'trusted calendar model A-CAL (datetime/timedelta/calendar.monthrange). BOUNDED (native, never counted '
               'as proved): YEARFRAC basis 1 (loop over years), time decomposition in binary floating point over all '
               '86400 seconds, DATE carry / EDATE / EOMONTH against an ordinal oracle, and the A-CAL facts themselves '
               'against CPython.')
ASSUMPTIONS = ['A-SUBSET', 'A-FLOAT: float arithmetic is real arithmetic in the proved part']
BOUNDED_FUNCTIONS = [
    Contract('pycel.lib.date_time:yearfrac_basis_1', 'C17', params={}, klass='BOUNDED',
             notes='loop over a symbolic range of years (no invariant supplied); symmetry checked natively'),
    Contract('pycel.lib.date_time:time_from_serialnumber', 'C17', params={}, klass='BOUNDED',
             notes='proved over the reals (A-FLOAT); the binary floating point behaviour is bounded: all 86400 '
                   'seconds x date parts'),
]


# -- bounded stand-in (native, binary floating point; never counted as proved) ------------------------

def oracle_serial(y, m, d):
    """Excel serial of day d (any integer) of month m (any integer) of year y, by ordinals."""
    import datetime
    k = 12 * y + m - 1
    yy, mm = divmod(k, 12)
    if not (1 <= yy <= 9999):
        return None
    o = datetime.date(yy, mm + 1, 1).toordinal() + d - 1
    if k <= K1900 + 1:
        # January/February 1900 (and earlier): Excel counts one day less up to its 1900-02-29
        s = o - ORD0 - 1
        if k == K1900 + 1 and d >= 29 or k < K1900 + 1 and s >= 60:
            s = o - ORD0 - 1 + (0 if s < 60 else 0)
        return s
    return o - ORD0


def bounded(tier, seed, R):
    import datetime
    import random
    from pycel.lib import date_time as D
    rnd = random.Random(seed)
    thorough = tier == 'thorough'
    R.rule = ('serial days: all 0..2958465 (thorough) or boundaries + every 211th + 3000 random (quick): '
              'DATE(YEAR,MONTH,DAY)=n, Gregorian parts for n>60, WEEKDAY period; all 86400 seconds of a day '
              'x date parts in binary floating point; DATE carry, EDATE, EOMONTH against an ordinal oracle; '
              'YEARFRAC symmetry all bases; A-CAL facts (month serial recurrence, anchors) against CPython')
    if thorough:
        days = range(0, MAX_SERIAL + 1)
    else:
        days = sorted(set(list(range(0, 800)) + list(range(0, MAX_SERIAL + 1, 211)) +
                          [MAX_SERIAL - i for i in range(0, 400)] +
                          [rnd.randint(0, MAX_SERIAL) for _ in range(3000)]))
    R.bound = f'{len(days)} serial days; 86400 seconds x {4 if thorough else 2} date parts'
    zero = datetime.date(1899, 12, 30)
    for n in days:
        y, m, d = D.year(n), D.month(n), D.day(n)
        if n == 0:
            ok = (y, m, d) == (1900, 1, 0)
        else:
            ok = D.date(y, m, d) == n
            if n > 60:
                g = zero + datetime.timedelta(days=n)
                ok = ok and (y, m, d) == (g.year, g.month, g.day)
        ok = ok and D.weekday(n) == D.weekday(n + 7) if n + 7 <= MAX_SERIAL else ok
        R.check('lemma/date_of_year_month_day_is_identity', ok, {'n': n})
    for n in (60,):
        R.check('lemma/day_60_is_1900_02_29', (D.year(n), D.month(n), D.day(n)) == (1900, 2, 29), {'n': n})
    for bad in (-1, -0.5, MAX_SERIAL + 1, MAX_SERIAL + 1.5, 1e9):
        for f in (D.year, D.month, D.day, D.weekday):
            R.guard('year/post#0:post_year', lambda: f(bad) == NUM_ERROR, {'fn': f.__name__, 'serial': bad})
    # seconds of a day, in floats
    for part in ((0, 45000, 1000, 2958465) if thorough else (0, 45000)):
        for k in range(86400):
            t = D.time_from_serialnumber(part + k / 86400)
            R.check('lemma/hour_minute_second_decompose_exact_seconds',
                    t == (k // 3600, (k // 60) % 60, k % 60), {'date_part': part, 'second': k})
    # nearest second for times between seconds
    for k in range(0, 86399, 997 if not thorough else 13):
        for frac in (0.2, 0.4, 0.6, 0.8):
            t = D.time_from_serialnumber((k + frac) / 86400)
            kk = k + (1 if frac >= 0.5 else 0)
            R.check('bounded/nearest_second', t == (kk // 3600, (kk // 60) % 60, kk % 60),
                    {'second': k, 'frac': frac, 'got': list(t)})
    # DATE carry against the oracle
    ys = [1900, 1901, 1904, 1999, 2000, 2009, 2100, 9998, 9999, 0, 5, 1899]
    ms = [-25, -12, -1, 0, 1, 2, 3, 12, 13, 14, 25, 37]
    ds = [-400, -31, -1, 0, 1, 28, 29, 30, 31, 32, 59, 60, 61, 365, 366, 367, 800] + \
        ([40000] if True else [])
    for y in ys:
        for m in ms:
            for d in ds:
                w = {'year': y, 'month': m, 'day': d}

                def chk():
                    got = D.date(y, m, d)
                    yy = y + 1900 if y < 1900 else y
                    exp = oracle_date(yy, m, d)
                    return got == exp
                R.guard('bounded/date_carry', chk, w)
    # EDATE / EOMONTH against the oracle
    starts = [1, 31, 32, 59, 60, 61, 366, 39844, 39872, 39113, 73050, MAX_SERIAL - 31, MAX_SERIAL]
    for n in starts + [rnd.randint(1, MAX_SERIAL) for _ in range(300 if not thorough else 5000)]:
        for k in (-1200, -13, -12, -1, 0, 1, 11, 12, 13, 1200):
            for eo in (False, True):
                w = {'start': n, 'months': k, 'eomonth': eo}
                R.guard('months_inc/post#0:post_months_inc',
                        lambda: post_months_inc(n, k, eo, D.months_inc(n, k, eomonth=eo)), w)
    for a in (0, None, True, '5', 'x', -1, 1.5, MAX_SERIAL + 1):
        for k in (0, 1, 1.9, None, True, 'x', '2'):
            R.guard('months_inc[types]/raises', lambda: D.edate(a, k) is not None and D.eomonth(a, k) is not None,
                    {'start': a, 'months': k})
    # YEARFRAC symmetry, all bases incl. the one that is out of reach of the prover (basis 1: loop)
    pts = [0, 1, 59, 60, 61, 366, 39844, 40000, 40365, 40366, 73050, MAX_SERIAL]
    for a in pts:
        for b in pts:
            for basis in (0, 1, 2, 3, 4):
                R.guard('lemma/yearfrac_symmetric', lambda: D.yearfrac(a, b, basis) == D.yearfrac(b, a, basis),
                        {'a': a, 'b': b, 'basis': basis})
    # A-CAL facts against CPython
    months = range(K1900, 9999 * 12 + 11) if thorough else \
        list(range(K1900, K1900 + 60)) + list(range(K1900, 9999 * 12 + 11, 37)) + [9999 * 12 + 10]
    for k in months:
        R.check('A-CAL/xm_recurrence', xm(k + 1) == xm(k) + xdim(k // 12, k % 12 + 1), {'k': k})
    R.check('A-CAL/anchors', xm(K1900) == 1 and xm(K1900 + 2) == 61 and
            datetime.date(1900, 1, 1).toordinal() == 693596 and datetime.date(1900, 3, 1).toordinal() == 693655 and
            datetime.date(9999, 12, 31).toordinal() - ORD0 == MAX_SERIAL, {})


def oracle_date(y, m, d):
    """What DATE(y, m, d) must return (y already >= 1900 adjusted): serial or #NUM!."""
    import datetime
    k = 12 * y + m - 1
    yy, mm = divmod(k, 12)
    if not (1 <= yy <= 9999):
        return NUM_ERROR
    try:
        first = datetime.date(yy, mm + 1, 1).toordinal()
    except ValueError:
        return NUM_ERROR
    # Excel serial of the first of the month, then count days in Excel's calendar
    s = first - ORD0 - (1 if k <= K1900 + 1 else 0)
    t = s + d - 1
    # crossing the fictitious 1900-02-29 (serial 60)
    if k <= K1900 + 1 and t >= 60:
        pass          # Excel's count already includes day 60
    if k > K1900 + 1 and t <= 60:
        t -= 1
    if t < 0 or t > MAX_SERIAL:
        return NUM_ERROR
    return t


# -- witness classes of known findings -----------------------------------------------------------------------

def kf_nonpositive_day(w):
    return w.get('day', 1) <= 0 and 'RecursionError' not in str(w.get('_raised', ''))


def kf_deep_recursion(w):
    return 'RecursionError' in str(w.get('_raised', ''))


def kf_second_rounds_to_60(w):
    return w.get('frac', 0) >= 0.5 and (w.get('second', 0) + 1) % 60 == 0


def kf_full_minute_at_large_date(w):
    """a whole minute late in the calendar: date_part + k/86400 is not representable, the double lies a few 1e-5 s
    below the minute, which is the situation of C17-second-60 (second 60 instead of carrying)"""
    return w.get('date_part', 0) >= 1000000 and w.get('second', 1) % 60 == 0 and w.get('second', 0) > 0


def kf_blank_start(w):
    return w.get('start') in (0, None)
