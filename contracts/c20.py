"""C20 - text functions (pycel.lib.text)."""
from pyvc.spec import (Bool, Const, Contract, Float, Int, Lemma, NoneT, Str,
                       Tuple, Union, implies)

VALUE_ERROR = '#VALUE!'
ERROR_CODES = ('#NULL!', '#DIV/0!', '#VALUE!', '#REF!', '#NAME?', '#NUM!', '#N/A')
T = 'pycel.lib.text:'


# -- slicing: stated with lengths, prefixes and suffixes (not with python slices) -----------------------------

def pre_any2(text, num_chars):
    return True


def post_left(text, num_chars, result):
    if num_chars < 0:
        return result == VALUE_ERROR
    k = int(num_chars)
    n = len(text)
    return text.startswith(result) and len(result) == (k if k < n else n)


def post_right(text, num_chars, result):
    if num_chars < 0:
        return result == VALUE_ERROR
    k = int(num_chars)
    n = len(text)
    return text.endswith(result) and len(result) == (k if k < n else n)


def pre_mid(text, start_num, num_chars):
    return True


def post_mid(text, start_num, num_chars, result):
    """text = before + result + after with len(before) = min(start-1, len) and
    len(result) = min(count, len - len(before))"""
    if start_num < 1 or num_chars < 0:
        return result == VALUE_ERROR
    p = int(start_num) - 1
    k = int(num_chars)
    n = len(text)
    a = p if p < n else n
    m = k if k < n - a else n - a
    return len(result) == m and text[a:a + m] == result


def pre_replace(old_text, start_num, num_chars, new_text):
    return True


def post_replace(old_text, start_num, num_chars, new_text, result):
    if start_num < 1 or num_chars < 0:
        return result == VALUE_ERROR        # a negative count is negative before its fraction is dropped (-0.5)
    p = int(start_num) - 1
    k = int(num_chars)
    n = len(old_text)
    a = p if p < n else n
    b = a + k if a + k < n else n
    return result == old_text[0:a] + new_text + old_text[b:n]


def pre_find(find_text, within_text, start_num):
    return True


def post_find(find_text, within_text, start_num, result):
    """#VALUE! iff there is no occurrence at or after start; else a position p >= start where
    the text at p is find_text"""
    if start_num < 1:
        return result == VALUE_ERROR
    s = int(start_num)
    if result == VALUE_ERROR:
        return True       # absence is a property of str.find (A-STRFIND), checked by the stand-in
    return (isinstance(result, int) and result >= s and
            within_text[result - 1:result - 1 + len(find_text)] == find_text)


def pre_exact(text1, text2):
    return True


def post_exact(text1, text2, result):
    return result == (text1 == text2)


def pre_trim(text):
    return True


def post_trim(text, result):
    """no space at either end, no two adjacent spaces; text that already is like that is unchanged"""
    ok = not result.startswith(' ') and not result.endswith(' ') and '  ' not in result
    clean = not text.startswith(' ') and not text.endswith(' ') and '  ' not in text
    return ok and implies(clean, result == text) and len(result) <= len(text)


num = Union(Int(), Float())

CONTRACTS = [
    Contract(T + 'left', 'C20', params=dict(text=Str(), num_chars=num), requires=[pre_any2],
             ensures=[post_left], returns=Str()),
    Contract(T + 'right', 'C20', params=dict(text=Str(), num_chars=num), requires=[pre_any2],
             ensures=[post_right], returns=Str()),
    Contract(T + 'mid', 'C20', params=dict(text=Str(), start_num=num, num_chars=num), requires=[pre_mid],
             ensures=[post_mid], returns=Str()),
    Contract(T + 'replace', 'C20', params=dict(old_text=Str(), start_num=num, num_chars=num, new_text=Str()),
             requires=[pre_replace], ensures=[post_replace], returns=Str()),
    Contract(T + 'find', 'C20', params=dict(find_text=Str(), within_text=Str(), start_num=num),
             requires=[pre_find], ensures=[post_find], returns=Union(Int(), Const(VALUE_ERROR))),
    Contract(T + 'exact', 'C20', params=dict(text1=Str(), text2=Str()), requires=[pre_exact],
             ensures=[post_exact]),
    Contract(T + 'trim', 'C20', params=dict(text=Str()), requires=[pre_trim], ensures=[post_trim],
             returns=Str()),
]



# -- CONCATENATE / CONCAT / SUBSTITUTE (all occurrences) / LEN / UPPER / LOWER -----------------------------------

EMPTY = '#EMPTY!'


def is_err(v):
    return isinstance(v, str) and v in ERROR_CODES


def render(v):
    """Excel rendering, the same definition C10 proves for the & operator"""
    if v is None:
        return ''
    if isinstance(v, bool):
        return 'TRUE' if v else 'FALSE'
    if isinstance(v, str):
        return v
    if isinstance(v, float) and v == int(v):
        return str(int(v))
    return str(v)


def pre_concatenate(args):
    return True


def post_concatenate(args, result):
    """first error wins; otherwise the concatenation of the renderings: exactly what & yields (C10)"""
    if is_err(args[0]):
        return result == args[0]
    if is_err(args[1]):
        return result == args[1]
    return result == render(args[0]) + render(args[1])


def call_concatenate(args):
    from pycel.lib.text import concatenate
    return concatenate(*args)


def pre_subst(text, old_text, new_text, instance_num):
    return True


def post_substitute_all(text, old_text, new_text, instance_num, result):
    if len(old_text) == 0:
        return result == text           # an empty search text occurs nowhere (python's replace would insert everywhere)
    return result == text.replace(old_text, new_text)


scalar = Union(NoneT(), Bool(), Int(), Float(), Str(not_in=(EMPTY,)))

CONTRACTS += [
    Contract(T + 'concatenate', 'C20', params=dict(args=Tuple(scalar, scalar)), requires=[pre_concatenate],
             ensures=[post_concatenate], native_call='call_concatenate'),
    Contract(T + 'substitute', 'C20',
             params=dict(text=Str(), old_text=Str(), new_text=Str(), instance_num=NoneT()),
             requires=[pre_subst], ensures=[post_substitute_all]),
]


# -- lemmas over the contracts -------------------------------------------------------------------------------------

def lem_left_mid(s, n):
    """LEFT(s,n) & MID(s,n+1,LEN(s)) = s"""
    from pycel.lib.text import left, mid
    return left(s, n) + mid(s, n + 1, len(s)) == s


def nonneg(s, n):
    return n >= 0


def lem_left_right(s, k):
    """LEFT(s, LEN(s)-k) & RIGHT(s,k) = s: RIGHT(s,k) is the last k characters"""
    from pycel.lib.text import left, right
    return left(s, len(s) - k) + right(s, k) == s


def k_in_range(s, k):
    return 0 <= k <= len(s)


def lem_replace(s, n, k, t):
    """REPLACE(s,n,k,t) = LEFT(s,n-1) & t & MID(s,n+k,LEN(s))"""
    from pycel.lib.text import left, mid, replace
    return replace(s, n, k, t) == left(s, n - 1) + t + mid(s, n + k, len(s))


def replace_pre(s, n, k, t):
    return n >= 1 and k >= 0


def lem_find_mid(f, s, st):
    """the position FIND returns satisfies MID(s,p,LEN(f)) = f"""
    from pycel.lib.text import find, mid
    p = find(f, s, st)
    if isinstance(p, str):
        return True
    return mid(s, p, len(f)) == f


def find_pre(f, s, st):
    return st >= 1


def lem_trim_idempotent(s):
    from pycel.lib.text import trim
    return trim(trim(s)) == trim(s)


def anytext(s):
    return True


LEFT, MID, RIGHT, REPLACE, FIND, TRIM = (T + 'left', T + 'mid', T + 'right', T + 'replace', T + 'find', T + 'trim')

LEMMAS = [
    Lemma('left_and_mid_partition_the_text', 'C20', dict(s=Str(), n=Int()), lem_left_mid, requires=[nonneg],
          modular=[LEFT, MID]),
    Lemma('right_is_the_last_k_characters', 'C20', dict(s=Str(), k=Int()), lem_left_right, requires=[k_in_range],
          modular=[LEFT, RIGHT]),
    Lemma('replace_is_left_new_mid', 'C20', dict(s=Str(), n=Int(), k=Int(), t=Str()), lem_replace,
          requires=[replace_pre], modular=[LEFT, MID, REPLACE]),
    Lemma('find_position_holds_the_text', 'C20', dict(f=Str(), s=Str(), st=Int()), lem_find_mid,
          requires=[find_pre], modular=[FIND, MID]),
    Lemma('trim_is_idempotent', 'C20', dict(s=Str()), lem_trim_idempotent, requires=[anytext], modular=[TRIM]),
]

LEVEL = 'other'
EXPLANATION = 'C20'
ASSUMPTIONS = ['A-SUBSET']


# -- bounded stand-in ----------------------------------------------------------------------------------------------

def text_oracle(x, fmt):
    """TEXT(x, fmt) for formats made of 0 # , . % : half-away-from-zero decimal rounding of x with the
    requested digits, grouping and percent scaling (rational arithmetic)."""
    import decimal
    import fractions
    v = fractions.Fraction(decimal.Decimal(str(x))) * 100 ** fmt.count('%')
    body = fmt.replace('%', '')
    grouping = ',' in body
    body = body.replace(',', '')
    if '.' in body:
        ipart, fpart = body.split('.')
    else:
        ipart, fpart = body, ''
    d = len(fpart)
    scaled = abs(v) * 10 ** d
    n = scaled.numerator // scaled.denominator
    if (scaled - n) * 2 >= 1:
        n += 1
    digits = str(n).rjust(d + 1, '0')
    int_digits = digits[:len(digits) - d] if d else digits
    frac_digits = digits[len(digits) - d:] if d else ''
    # integer part: at least as many digits as there are 0 placeholders
    min_int = ipart.count('0')
    int_digits = int_digits.lstrip('0')
    int_digits = int_digits.rjust(min_int, '0')
    if grouping and int_digits:
        out = ''
        for i, ch in enumerate(reversed(int_digits)):
            if i and i % 3 == 0:
                out = ',' + out
            out = ch + out
        int_digits = out
    # fraction: trailing zeros beyond the 0 placeholders are dropped for # placeholders
    keep = 0
    for i, ch in enumerate(fpart):
        if ch == '0':
            keep = i + 1
    fr = frac_digits.rstrip('0')
    if len(fr) < keep:
        fr = frac_digits[:keep]
    sign = '-' if v < 0 and n != 0 else ''
    res = sign + int_digits + ('.' + fr if '.' in body else '')
    return res + '%' * fmt.count('%')


def bounded(tier, seed, R):
    import itertools
    import random
    from pycel.lib import text as TX
    rnd = random.Random(seed)
    thorough = tier == 'thorough'
    alphabet = 'ab A.'
    maxlen = 5 if not thorough else 7
    R.rule = (f'all texts up to length {3 if not thorough else 4} over {alphabet!r} (plus sampled longer ones) x all '
              'positions/counts -1..len+2 for LEFT/MID/RIGHT/REPLACE/FIND/SUBSTITUTE(i-th) against direct definitions; '
              'TRIM/UPPER/LOWER idempotent, EXACT, CONCATENATE = &; TEXT on decimal grids around ties x a format grammar '
              'of 0 # , . % against a rational oracle')
    texts = [''.join(t) for n in range(0, 4 if not thorough else 5) for t in itertools.product(alphabet, repeat=n)]
    texts += [''.join(rnd.choice(alphabet) for _ in range(rnd.randint(4, maxlen))) for _ in range(200)]
    texts += ['aaaa', 'abababa', '  a  b  ', 'a\nb', 'é', '3']
    R.bound = f'{len(texts)} texts'
    for s in texts:
        n = len(s)
        for k in list(range(-1, n + 3)) + [0.5, 1.5]:
            R.guard('left/post#0:post_left', lambda: post_left(s, k, TX.left(s, k)), {'s': s, 'k': k})
            R.guard('right/post#0:post_right', lambda: post_right(s, k, TX.right(s, k)), {'s': s, 'k': k})
            if k == int(k) and k >= 0:
                R.guard('lemma/left_and_mid_partition_the_text',
                        lambda: TX.left(s, k) + TX.mid(s, k + 1, len(s)) == s, {'s': s, 'n': k})
            for m in range(-1, n + 2):
                R.guard('mid/post#0:post_mid', lambda: post_mid(s, k, m, TX.mid(s, k, m)) if k == int(k)
                        else True, {'s': s, 'p': k, 'k': m})
                if k == int(k):
                    R.guard('replace/post#0:post_replace', lambda: post_replace(s, k, m, 'XY', TX.replace(s, k, m, 'XY')),
                            {'s': s, 'p': k, 'k': m})
        for f in ('a', 'ab', 'A', '', ' ', 'aa', 'aba'):
            for st in range(-1, n + 3):
                def chk_find():
                    r = TX.find(f, s, st)
                    if st < 1:
                        return r == VALUE_ERROR
                    idx = s.find(f, st - 1)        # first occurrence at or after st
                    return r == (VALUE_ERROR if idx < 0 else idx + 1)
                R.guard('find/first_match', chk_find, {'f': f, 's': s, 'start': st})
            for inst in (None, 1, 2, 3, 0, -1, True, 'x', '2'):
                def chk_sub():
                    r = TX.substitute(s, f, 'Z', inst)
                    if not f and (inst is None or (not isinstance(inst, bool) and inst != 'x' and int(inst) > 0)):
                        return r == s           # an empty search text occurs nowhere
                    if inst is None:
                        return r == s.replace(f, 'Z')
                    if isinstance(inst, bool) or inst == 'x':
                        return r == VALUE_ERROR
                    i = int(inst)
                    if i <= 0:
                        return r == VALUE_ERROR
                    # i-th non-overlapping occurrence, scanning left to right
                    pos, start = -1, 0
                    for _ in range(i):
                        pos = s.find(f, start)
                        if pos < 0:
                            return r == s
                        start = pos + len(f)
                    return r == s[:pos] + 'Z' + s[pos + len(f):]
                R.guard('substitute/ith_occurrence', chk_sub, {'s': s, 'old': f, 'instance': inst})
        R.guard('trim/post#0:post_trim', lambda: post_trim(s, TX.trim(s)) and TX.trim(TX.trim(s)) == TX.trim(s) and
                TX.trim(s) == ' '.join(w for w in s.split(' ') if w), {'s': s})
        R.guard('bounded/upper_lower_idempotent', lambda: TX.upper(TX.upper(s)) == TX.upper(s) and
                TX.lower(TX.lower(s)) == TX.lower(s), {'s': s})
        for t in texts[:40]:
            R.guard('exact/post#0:post_exact', lambda: TX.exact(s, t) == (s == t), {'a': s, 'b': t})
    vals = [None, True, False, 3, 3.0, 2.5, -1, 'a', '', '#N/A', '#DIV/0!']
    from pycel.excelutil import build_operator_operand_fixup
    amp = build_operator_operand_fixup(lambda *a: None)
    for a in vals:
        for b in vals:
            R.guard('concatenate/post#0:post_concatenate',
                    lambda: post_concatenate((a, b), TX.concatenate(a, b)) and TX.concatenate(a, b) == amp(a, 'BitAnd', b),
                    {'a': a, 'b': b})
    R.guard('concatenate/post#0:post_concatenate', lambda: TX.concatenate('a', ((1, 2),)) == VALUE_ERROR, {'nested': True})
    # TEXT against the rational oracle
    fmts = ['0', '0.0', '0.00', '#', '#.#', '#.##', '0.0#', '#,##0', '#,##0.00', '0%', '0.0%', '0.00%', '00.0', '000',
            # zeros that are grouped like digits (0,000 shows 12 as 0,012)
            '0,000', '00,000', '0,000.00', '#,#00', '000,000,000']
    ks = set()
    for base in (0, 1, 5, 15, 25, 125, 285, 995, 1005, 12345, 99995, 1234565, 250000, 999999):
        for dlt in (-1, 0, 1):
            ks.add(base + dlt)
    ks |= {rnd.randint(0, 10 ** 7) for _ in range(100 if not thorough else 5000)}
    # whole numbers beyond the float-exact range and the largest double below one half
    specials = [2 ** 52 + 1, -(2 ** 52 + 3), 2 ** 53 + 1, 0.49999999999999994, -0.49999999999999994,
                1.4999999999999998, 2 ** 53 - 1] + [rnd.randrange(2 ** 52, 2 ** 53) | 1 for _ in range(200)]
    for x in specials:
        for f in ('0', '#,##0', '#', '0.0'):
            R.guard('bounded/text_format', lambda: TX.text(x, f).replace('-', '') == text_oracle(x, f).replace('-', '')
                    if abs(x) < 1 else TX.text(x, f) == text_oracle(x, f), {'x': x, 'format': f})
    for k in sorted(ks):
        for j in range(0, 5):
            for sgn in (1, -1):
                x = sgn * k / 10 ** j
                for f in fmts:
                    # (the sign of a value that rounds to zero is left open: Excel itself shows "-0")
                    R.guard('bounded/text_format', lambda: TX.text(x, f).replace('-', '') == text_oracle(x, f).replace('-', '')
                            if abs(x) < 1 else TX.text(x, f) == text_oracle(x, f), {'x': x, 'format': f})


LEVEL = 'other'
EXPLANATION = ('Mixed. PROVED (SMT strings, z3 + cvc5 portfolio) for every text and every position/count: LEFT, RIGHT, MID, '
               'REPLACE (length/prefix/suffix characterisations incl. #VALUE! for negatives and fractional counts), FIND '
               '(a returned position is >= start and the text there is the searched text; #VALUE! below 1), EXACT, TRIM (no '
               'space at the ends, no double space, clean text unchanged - over the trusted model of the regular expression), '
               'CONCATENATE (first error wins; concatenation of the Excel renderings = what C10 proves for &), SUBSTITUTE for '
               'all occurrences; and the lemmas LEFT&MID partition, RIGHT = last k characters, REPLACE = LEFT&new&MID, FIND '
               'position holds the text, TRIM idempotent - each from the contracts alone. BOUNDED (native): FIND returns the '
               'FIRST match (definition of str.find), i-th occurrence SUBSTITUTE (loop), UPPER/LOWER idempotence (built-in), '
               'TEXT number formats (iterator-based tokenizer, out of reach) against a rational oracle on decimal grids.')
ASSUMPTIONS = ['A-SUBSET', 'A-STRFIND (str.find = str.indexof)', 'A-STRREPLACE', "A-RE (' +' collapse, strip model)",
               'A-NUMSTR (rendering of numbers)', 'A-FLOAT']
BOUNDED_FUNCTIONS = [
    Contract(T + 'TextFormat._number_converter', 'C20', params={}, klass='BOUNDED',
             notes='format mini-language, iterator protocol, itertools.takewhile: outside the subset'),
    Contract(T + 'substitute', 'C20', params={}, klass='BOUNDED', name='substitute[i-th occurrence]',
             notes='while loop over occurrences (no invariant supplied); all-occurrence branch is proved'),
]
