"""C18 - radix conversions (pycel.lib.engineering)."""
from pyvc.spec import (Bool, Const, Contract, Float, Int, Lemma, NoneT, Str,
                       Tuple, Union, implies)

VALUE_ERROR = '#VALUE!'
NUM_ERROR = '#NUM!'
EMPTY = '#EMPTY!'
ERROR_CODES = ('#NULL!', '#DIV/0!', '#VALUE!', '#REF!', '#NAME?', '#NUM!', '#N/A')
SIZE_MASK = {2: 512, 8: 0x20000000, 16: 0x8000000000}
DIGITS = {2: '01', 8: '01234567', 16: '0123456789ABCDEFabcdef'}

SYMBOLIC_TWINS = {
    'digits': 'pyvc.builtins_model:sx_digits',
    'valid_digits': 'pyvc.builtins_model:sx_valid_digits',
    'parse_digits': 'pyvc.builtins_model:sx_parse_digits',
}


# -- spec primitives (native meaning; symbolic twins are trusted, A-RADIXSTR) -------------

def digits(u, base):
    """upper-case rendering of u >= 0 in the base"""
    return {2: '{:b}', 8: '{:o}', 16: '{:X}'}[base].format(u)


def valid_digits(s, base):
    """non-empty and made of the digits of the base only"""
    return len(s) > 0 and all(c in DIGITS[base] for c in s)


def parse_digits(s, base):
    return int(s, base)


# -- _dec2base -------------------------------------------------------------------------------

def twos(v, base):
    """v in [-mask, mask) as an unsigned 10-digit two's complement number"""
    return v if v >= 0 else v + 2 * SIZE_MASK[base]


def render(v, places, base):
    """What DEC2xxx must return for an in-range integer v."""
    d = digits(twos(v, base), base)
    if places is None:
        return d
    try:
        p = int(places)
    except ValueError:
        return VALUE_ERROR      # non-numeric text
    if p < len(d):
        return NUM_ERROR
    return d.zfill(p)


def pre_dec2base(value, places, base):
    # numeric text is left to the (uninterpreted) parser of int(); the contract covers
    # numbers, logicals, blank, error values; places: blank or a number
    return True


def post_dec2base(value, places, base, result):
    mask = SIZE_MASK[base]
    if isinstance(value, bool):
        return result == VALUE_ERROR
    if isinstance(value, str):
        if value in ERROR_CODES:
            return result == value
        if value == EMPTY:
            return result == (NUM_ERROR if base == 8 else render(0, places, base))
        return True      # numeric text: see post_dec2base_text
    if value is None:
        return result == (NUM_ERROR if base == 8 else render(0, places, base))
    v = int(value)
    if not (-mask <= v < mask):
        return result == NUM_ERROR
    return result == render(v, places, base)


def post_dec2base_width(value, places, base, result):
    """a successful rendering has max(places, natural length) <= ... digits and is
    10 digits wide for negative numbers"""
    mask = SIZE_MASK[base]
    if isinstance(value, (bool, str)) or value is None:
        return True
    v = int(value)
    if not (-mask <= v < mask) or result == NUM_ERROR or result == VALUE_ERROR:
        return True
    if v < 0 and len(result) < 10:
        return False
    if places is not None and len(result) < int(places):
        return False
    return True


# -- _base2dec -------------------------------------------------------------------------------

def unsigned_to_signed(n, base):
    mask = SIZE_MASK[base]
    return n if n < mask else n - 2 * mask


def post_base2dec(value, base, result):
    if isinstance(value, bool):
        return result == VALUE_ERROR
    if value is None:
        return result == 0
    if isinstance(value, str):
        if value in ERROR_CODES:
            return result == value
        if value == EMPTY:
            return result == 0
        s = value
    else:
        # a number is read as its own decimal rendering: 101 -> "101"
        if value < 0 or int(value) != value:
            return result == NUM_ERROR
        s = str(int(value))
    if len(s) > 10 or not valid_digits(s, base):
        return result == NUM_ERROR
    return result == unsigned_to_signed(parse_digits(s, base), base)


# -- _base2base --------------------------------------------------------------------------------

def post_base2base(value, places, base_in, base_out, result):
    """the direct conversion is the composition through decimal (blank special case aside)"""
    from pycel.lib.engineering import _base2dec, _dec2base
    if value is None:
        if base_in == 2:
            return result == NUM_ERROR
        value = 0
    return result == _dec2base(_base2dec(value, base_in), places=places, base=base_out)


B2D = 'pycel.lib.engineering:_base2dec'
D2B = 'pycel.lib.engineering:_dec2base'
B2B = 'pycel.lib.engineering:_base2base'

bases = Union(Const(2), Const(8), Const(16))
scalar = Union(Int(), Bool(), Float(), Str(), NoneT())
places_dom = Union(NoneT(), Int(), Float(), Bool(), Str())
result_dom = Union(Str(), Int())

CONTRACTS = [
    Contract(D2B, 'C18', params=dict(value=Union(Int(), Bool(), Float(), Str(), NoneT()),
                                     places=places_dom, base=bases),
             requires=[pre_dec2base], ensures=[post_dec2base, post_dec2base_width], returns=Str()),
    Contract(B2D, 'C18', params=dict(value=scalar, base=bases),
             ensures=[post_base2dec], returns=result_dom),
    Contract(B2B, 'C18', params=dict(value=scalar, places=Union(NoneT(), Int()),
                                     base_in=bases, base_out=bases),
             ensures=[post_base2base], modular=[]),
]


# -- lemmas ------------------------------------------------------------------------------------

def in_range(v, base):
    return -SIZE_MASK[base] <= v < SIZE_MASK[base]


def lem_roundtrip(v, base):
    """x2DEC(DEC2x(v)) = v on the whole 10-digit two's complement range"""
    from pycel.lib.engineering import _base2dec, _dec2base
    return _base2dec(_dec2base(v, None, base), base) == v


def lem_negative_is_10_digits(v, base):
    from pycel.lib.engineering import _dec2base
    r = _dec2base(v, None, base)
    return implies(v < 0, len(r) == 10)


def neg_range(v, base):
    return in_range(v, base)


def lem_out_of_range_is_num(v, base):
    from pycel.lib.engineering import _dec2base
    return _dec2base(v, None, base) == NUM_ERROR


def out_of_range(v, base):
    return not in_range(v, base)


def lem_public_functions_bind_their_bases(which):
    """the twelve public conversion functions are the three helpers with exactly the bases their names say"""
    import pycel.lib.engineering as E
    digits = {'bin': 2, 'oct': 8, 'dec': 10, 'hex': 16}
    src, dst = which.split('2')
    f = getattr(E, which)
    if src == 'dec':
        return f.func.__name__ == '_dec2base' and f.keywords == {'base': digits[dst]} and f.args == ()
    if dst == 'dec':
        return f.func.__name__ == '_base2dec' and f.keywords == {'base': digits[src]} and f.args == ()
    return (f.func.__name__ == '_base2base' and f.keywords == {'base_in': digits[src], 'base_out': digits[dst]}
            and f.args == ())


PUBLIC = ('bin2dec', 'bin2hex', 'bin2oct', 'dec2bin', 'dec2hex', 'dec2oct', 'hex2bin', 'hex2dec', 'hex2oct', 'oct2bin',
          'oct2dec', 'oct2hex')

LEMMAS = [
    Lemma('public_functions_bind_their_bases', 'C18', dict(which=Union(*[Const(n) for n in PUBLIC])),
          lem_public_functions_bind_their_bases, notes='finite: the functools.partial bindings of the module as it is'),
    Lemma('dec2x_x2dec_roundtrip', 'C18', dict(v=Int(), base=bases), lem_roundtrip,
          requires=[in_range], modular=[B2D, D2B]),
    Lemma('negative_is_ten_digits', 'C18', dict(v=Int(), base=bases), lem_negative_is_10_digits,
          requires=[neg_range], modular=[D2B]),
    Lemma('out_of_range_is_num_error', 'C18', dict(v=Int(), base=bases), lem_out_of_range_is_num,
          requires=[out_of_range], modular=[D2B]),
]

LEVEL = 'proof'
EXPLANATION = ('Contracts on _dec2base, _base2dec, _base2base discharged by z3 for all scalar inputs of every '
               'type (int, bool, float, text, blank) and all three bases; the round trip and the two\'s complement '
               'width are lemmas over the contracts. Digit-string built-ins (bin/oct/hex, int(s, b), zfill, upper, '
               'strip) are trusted contracts (A-RADIXSTR) cross-checked natively by the bounded stand-in.')
ASSUMPTIONS = ['A-SUBSET']


# -- bounded stand-in (native; never counted as proved; also the CPython cross-check of A-RADIXSTR) --

def bounded(tier, seed, R):
    import random
    from pycel.lib import engineering as E
    rnd = random.Random(seed)
    R.rule = ('exhaustive -512..511 for base 2; boundary + sampled values for bases 8/16; all places 1..11; '
              'digit strings up to length 11 with one illegal character (prefixes, sign, underscore, space, '
              'non-ASCII digit); typed scalars; direct = composition for every (in, out) base pair')
    thorough = tier == 'thorough'
    samples = {2: list(range(-513, 513)),
               8: [-2 ** 29 - 1, -2 ** 29, -2 ** 29 + 1, -1, 0, 1, 7, 8, 2 ** 29 - 1, 2 ** 29],
               16: [-2 ** 39 - 1, -2 ** 39, -2 ** 39 + 1, -1, 0, 1, 15, 16, 255, 2 ** 39 - 1, 2 ** 39]}
    n_extra = 20000 if thorough else 800
    for b in (8, 16):
        m = SIZE_MASK[b]
        samples[b] += [rnd.randint(-m, m - 1) for _ in range(n_extra)]
    R.bound = f'base2: 1026 values; base8/16: {len(samples[8])} values each; places 1..11'
    for b in (2, 8, 16):
        for v in samples[b]:
            w = {'v': v, 'base': b}
            R.guard('lemma/dec2x_x2dec_roundtrip',
                    lambda: (not in_range(v, b)) or E._base2dec(E._dec2base(v, None, b), b) == v, w)
            R.guard('_dec2base/post#0:post_dec2base',
                    lambda: post_dec2base(v, None, b, E._dec2base(v, None, b)), w)
            r = E._dec2base(v, None, b)
            R.guard('_base2dec/post#0:post_base2dec', lambda: post_base2dec(r, b, E._base2dec(r, b)), w)
        for v in samples[b][:: (1 if b == 2 else 37)][:400]:
            for p in (None, 0, 1, 3, 9, 10, 11, True, 2.7, -1, '4', 'x', ''):
                w = {'v': v, 'base': b, 'places': p}
                R.guard('_dec2base/post#0:post_dec2base',
                        lambda: post_dec2base(v, p, b, E._dec2base(v, p, b)), w)
    # illegal / odd digit strings
    bad = ['0b11', '0B1', '0x1F', '0o17', ' 11', '11 ', '+11', '-11', '1_1', '1__1', '_11', '', ' ', '١١',
           '12', '8', 'G', 'g', 'fF', '1' * 10, '1' * 11, '7' * 10, 'F' * 10, '8000000000', '7FFFFFFFFF',
           '1.0', '1e1', 'TRUE', '#N/A', '#EMPTY!', '#VALUE!']
    # white space that int() strips and that `$` / \Z handle differently: before, after, doubled
    bad += [t for d in ('101', '17', '1F', '1') for t in (d + '\n', d + '\n\n', '\n' + d, d + '\t', d + '\r', d + '\x0b',
                                                          d + '\x0c', d + '\x1c', d + '\u2003', d + '\r\n', d[:1] + '\n' + d[1:])]
    bad += ['1111111111\n', '7777777777\n', 'FFFFFFFFFF\n']
    typed = [None, True, False, 0, 1, 101, 101.0, 101.5, -1, 2, 777, 1e10, 1e11, ((1, 2),), ((1,),), [[5]]]
    for b in (2, 8, 16):
        for s in bad + typed:
            w = {'value': s, 'base': b}
            R.guard('_base2dec/post#0:post_base2dec',
                    lambda: post_base2dec(s if not isinstance(s, (tuple, list)) else s, b, E._base2dec(s, b))
                    if not isinstance(s, (tuple, list)) else E._base2dec(s, b) in (VALUE_ERROR, 1, 5, NUM_ERROR), w)
            R.guard('_dec2base/post#0:post_dec2base',
                    lambda: isinstance(E._dec2base(s, None, b), str), w)
            for b2 in (2, 8, 16):
                for p in (None, 4, 10):
                    R.guard('_base2base/post#0:post_base2base',
                            lambda: post_base2base(s, p, b, b2, E._base2base(s, p, base_in=b, base_out=b2))
                            if not isinstance(s, (tuple, list)) else True,
                            {'value': s, 'places': p, 'base_in': b, 'base_out': b2})
    # order independence of repeated calls (a memoised implementation must not conflate TRUE and 1)
    for first, second in ((True, 1), (1, True), (1.0, 1), (1, 1.0), (False, 0), (0, False), (0.0, False), (True, 1.0)):
        for b in (2, 8, 16):
            for p in (None, 4, 10, True, 1):
                def chk2():
                    E._dec2base(first, p, b)
                    return post_dec2base(second, p, b, E._dec2base(second, p, b))
                R.guard('_dec2base/post#0:post_dec2base', chk2, {'first': first, 'second': second, 'places': p, 'base': b})

                def chk3():
                    E._base2dec(first, b)
                    return post_base2dec(second, b, E._base2dec(second, b))
                R.guard('_base2dec/post#0:post_base2dec', chk3, {'first': first, 'second': second, 'base': b})
        for name in ('dec2bin', 'dec2oct', 'dec2hex', 'bin2dec', 'bin2hex', 'hex2bin', 'oct2dec'):
            def chk4():
                f = getattr(E, name)
                f(first)
                a_ = f(second)
                import importlib
                import pycel.lib.engineering as fresh_mod
                return a_ == f(second) and type(a_) is type(f(second)) and (
                    (isinstance(second, bool) and a_ == VALUE_ERROR) or not isinstance(second, bool))
            R.guard('bounded/public_bindings_do_not_remember_operand_types', chk4,
                    {'function': name, 'first': first, 'second': second})
    for first, second in ((True, 1), (1, True), (1.0, 1), (False, 0), (0, False)):
        for b in (2, 8, 16):
            def chk():
                E._base2base(first, None, base_in=b, base_out=16)
                return post_base2base(second, None, b, 16, E._base2base(second, None, base_in=b, base_out=16))
            R.guard('_base2base/post#0:post_base2base', chk, {'first': first, 'second': second, 'base_in': b})
