"""C16 - lookup functions agree with a linear-scan definition (pycel.lib.lookup)."""
from pyvc.spec import (AbstractKey, Array, Bool, Const, Contract, Float, Int, Lemma, NoneT, Record,
                       Str, Tuple, Union, forall_range, implies, same_call)

ERROR_CODES = ('#NULL!', '#DIV/0!', '#VALUE!', '#REF!', '#NAME?', '#NUM!', '#N/A')
NA_ERROR = '#N/A'
VALUE_ERROR = '#VALUE!'
REF_ERROR = '#REF!'

MATCH = 'pycel.lib.lookup:_match'


# -- Excel's ordering key (the same one C10 proves to be a total order) ----------------------------------------

def is_err(v):
    return isinstance(v, str) and v in ERROR_CODES


def rank(v):
    if isinstance(v, bool):
        return 2
    if isinstance(v, str):
        return 1
    return 0


def same_type(a, b):
    return rank(a) == rank(b)


def key_eq(a, b):
    if isinstance(a, str):
        return a.lower() == b.lower()
    return a == b


def key_le(a, b):
    if isinstance(a, str):
        return a.lower() <= b.lower()
    return a <= b


def lookup_key(v):
    """a blank lookup value is searched for as the number 0"""
    return 0 if v is None else v


def cell_key(x):
    """a blank cell compares as the number 0 (as in C10's comparisons)"""
    return 0 if x is None else x


def candidate(x, v):
    """x can be compared with the lookup value at all: not an error value, same type"""
    return not is_err(x) and same_type(cell_key(x), lookup_key(v))


# -- _match: contract (linear-scan definition) ----------------------------------------------------------------------

def pre_match(lookup_value, lookup_array, match_type):
    # text lookups with wildcards are matched by a compiled regular expression: bounded only
    if isinstance(lookup_value, str):
        low = lookup_value.lower()      # what the code tests for wildcards is the lower-cased search text
        return '*' not in low and '?' not in low and not is_err(lookup_value)
    return True


def post_match_exact(lookup_value, lookup_array, match_type, result):
    """match_type 0: the first position whose value equals v (type-strict, case-insensitive), else #N/A"""
    if match_type != 0 or match_type is True or match_type is False:
        return True
    v = lookup_key(lookup_value)
    n = len(lookup_array)
    if isinstance(result, str):
        return result == NA_ERROR and forall_range(
            0, n, lambda j: not (candidate(lookup_array[j], v) and key_eq(cell_key(lookup_array[j]), v)))
    return (1 <= result <= n and candidate(lookup_array[result - 1], v) and
            key_eq(cell_key(lookup_array[result - 1]), v) and
            forall_range(0, result - 1, lambda j: not (candidate(lookup_array[j], v) and
                                                       key_eq(cell_key(lookup_array[j]), v))))


def post_match_range(lookup_value, lookup_array, match_type, result):
    """a position is always inside the array (never an out-of-range or wrapped index) and holds a
    comparable value of the lookup value's type"""
    v = lookup_key(lookup_value)
    n = len(lookup_array)
    if isinstance(result, str):
        return result == NA_ERROR
    if not (1 <= result <= n):
        return False
    if match_type == 1 or match_type is True:
        return lookup_array[result - 1] is not None and candidate(lookup_array[result - 1], v)
    return candidate(lookup_array[result - 1], v)


def excel_lt(a, b):
    """strictly before in Excel's order: numbers < text < logicals, text case-insensitive"""
    if rank(a) != rank(b):
        return rank(a) < rank(b)
    return not key_le(b, a)


def is_sorted(arr, descending=False):
    # match type 1 skips blank cells; type -1 (and 0) read a blank cell as the number 0
    if descending:
        vals = [cell_key(x) for x in arr]
    else:
        # Excel sorts blanks to the end: they may only pad the data, not sit inside it
        vals = list(arr)
        while vals and vals[0] is None:
            vals.pop(0)
        while vals and vals[-1] is None:
            vals.pop()
        if any(x is None for x in vals):
            return False
    for p, q in zip(vals, vals[1:]):
        if (excel_lt(p, q) if descending else excel_lt(q, p)):
            return False
    return True


def match_sorted_ok(lookup_value, arr, match_type, result):
    """on data sorted in Excel order: type 1 -> a position holding the largest value <= v of v's type,
    type -1 -> one holding the smallest value >= v"""
    v = lookup_key(lookup_value)
    cells = [cell_key(x) for x in arr if candidate(x, v) and (x is not None or match_type != 1)]
    cands = [x for x in cells if (key_le(x, v) if match_type == 1 else key_le(v, x))]
    if isinstance(result, str):
        return not cands
    x = cell_key(arr[result - 1])
    if not (candidate(arr[result - 1], v) and (key_le(x, v) if match_type == 1 else key_le(v, x))):
        return False
    return all((key_le(c, x) if match_type == 1 else key_le(x, c)) for c in cands)


# -- the functions built on _match ------------------------------------------------------------------------------------

def pre_vlookup(lookup_value, table_array, col_index_num, range_lookup):
    return pre_match(lookup_value, None, 0)


def post_vlookup(lookup_value, table_array, col_index_num, range_lookup, result):
    """the cell INDEX would return at the position MATCH finds in the first column"""
    if col_index_num <= 0:
        return result == VALUE_ERROR
    if col_index_num > len(table_array[0]):
        return result == REF_ERROR
    pos = same_call(MATCH, lookup_value, [row[0] for row in table_array], bool(range_lookup))
    if isinstance(pos, str):
        return result == pos
    return result == table_array[pos - 1][col_index_num - 1]


def post_hlookup(lookup_value, table_array, row_index_num, range_lookup, result):
    if row_index_num <= 0:
        return result == VALUE_ERROR
    if row_index_num > len(table_array):
        return result == REF_ERROR
    pos = same_call(MATCH, lookup_value, table_array[0], bool(range_lookup))
    if isinstance(pos, str):
        return result == pos
    return result == table_array[row_index_num - 1][pos - 1]


def pre_hlookup(lookup_value, table_array, row_index_num, range_lookup):
    return pre_match(lookup_value, None, 0)


def pre_match_fn(lookup_value, lookup_array, match_type):
    return pre_match(lookup_value, None, 0)


def post_match_fn(lookup_value, lookup_array, match_type, result):
    """MATCH over a one-row or one-column range is _match over that vector"""
    if len(lookup_array) == 1:
        vec = lookup_array[0]
    else:
        vec = [row[0] for row in lookup_array]
    return result == same_call(MATCH, lookup_value, vec, match_type)


def pre_lookup(lookup_value, lookup_array, result_range):
    return pre_match(lookup_value, None, 0)


def post_lookup_array_form(lookup_value, lookup_array, result_range, result):
    """array form: search the first column (tall or square) / first row (wide), answer from the last"""
    h = len(lookup_array)
    w = len(lookup_array[0])
    if w <= h:
        pos = same_call(MATCH, lookup_value, [row[0] for row in lookup_array], 1)
        if isinstance(pos, str):
            return result == pos
        return result == lookup_array[pos - 1][w - 1]
    pos = same_call(MATCH, lookup_value, lookup_array[0], 1)
    if isinstance(pos, str):
        return result == pos
    return result == lookup_array[h - 1][pos - 1]


def post_lookup_vector_form(lookup_value, lookup_array, result_range, result):
    """vector form: the position MATCH finds in the lookup vector (first column of a tall / square array, first row of a
    wide one) selects the cell INDEX would return from the result vector: #REF! beyond its end, never an exception; a
    result range that is not a vector is #N/A"""
    h = len(lookup_array)
    w = len(lookup_array[0])
    rh = len(result_range)
    rw = len(result_range[0])
    if rw < rh:
        if rw != 1:
            return result == NA_ERROR
        res = [row[0] for row in result_range]
    else:
        if rh != 1:
            return result == NA_ERROR
        res = result_range[0]
    if w <= h:
        pos = same_call(MATCH, lookup_value, [row[0] for row in lookup_array], 1)
    else:
        pos = same_call(MATCH, lookup_value, lookup_array[0], 1)
    if isinstance(pos, str):
        return result == pos
    if pos > len(res):
        return result == REF_ERROR
    return result == res[pos - 1]


L = 'pycel.lib.lookup:'
scalar = Union(NoneT(), Bool(), Int(), Float(), Str())
match_result = Union(Int(), Const(NA_ERROR))
mtypes = Union(Const(0), Const(1), Const(-1), Const(True), Const(False))

# -- _match itself: loops cut at invariants over its locals; bisect_right by its own (proved) contract --------------

BISECT = 'bisect:bisect_right'
EXCELCMP = 'pycel.excelutil:ExcelCmp'


def wf_cmp(x):
    """x is the ordering key of a number, a text or a logical (what ExcelCmp(v) builds for a non-error v)"""
    if x.cmp_type == 0:
        return isinstance(x.value, (int, float)) and not isinstance(x.value, bool)
    if x.cmp_type == 1:
        return isinstance(x.value, str) and x.empty == ''
    if x.cmp_type == 2:
        return isinstance(x.value, bool) and x.empty is False
    return False


def pre_bisect(a, x, lo, hi):
    return 0 <= lo and hi <= len(a)


def inv_bisect(a, x, lo, hi, lo_, hi_):
    """the window only shrinks; left of it x is not below its neighbour, right of it x is below the first cell"""
    if not (lo <= lo_ and hi_ <= hi and (lo_ <= hi_ or (lo_ == lo and hi_ == hi))):
        return False
    if lo_ > lo and x < a[lo_ - 1]:
        return False
    if hi_ < hi and not (x < a[hi_]):
        return False
    return True


def var_bisect(a, x, lo, hi, lo_, hi_):
    return hi_ - lo_ if hi_ > lo_ else 0


def post_bisect(a, x, lo, hi, result):
    """facts that hold on ANY data (sorted or not): the answer lies in the window, x is not below the cell to its left
    (when the search moved right at all) and is below the cell at it (when the search moved left at all)"""
    if lo >= hi:
        return result == lo
    if not (lo <= result <= hi):
        return False
    if result > lo and x < a[result - 1]:
        return False
    if result < hi and not (x < a[result]):
        return False
    return True


def key_dom():
    return Union(Record(EXCELCMP, dict(cmp_type=Const(0), value=Union(Int(), Float()), empty=Const(0.0))),
                 Record(EXCELCMP, dict(cmp_type=Const(1), value=Str(), empty=Const(''))),
                 Record(EXCELCMP, dict(cmp_type=Const(2), value=Bool(), empty=Const(False))))


BISECT_CONTRACT = Contract(
    BISECT, 'C16', name='bisect.bisect_right',
    params=dict(a=Array(1, kind='list', min_len=0), x=AbstractKey(), lo=Int(), hi=Int()),
    requires=[pre_bisect], ensures=[post_bisect], returns=Int(),
    invariants={0: dict(inv=[inv_bisect], locals=('lo', 'hi'), vars=dict(lo=Int(), hi=Int()), temps=('mid',),
                        variant=var_bisect)},
    notes='Lib/bisect.py of the interpreter that runs pycel, read as source on every run (A-CBISECT: the C accelerator '
          'computes the same function); proved for EVERY key whose `<` against a cell is a pure function of that cell '
          '(uninterpreted), so in particular for ExcelCmp, whose real __lt__ gives the clauses their meaning at the call')


def inv_lo(lookup_value, lookup_array, match_type, lo):
    return 0 <= lo <= len(lookup_array) and forall_range(0, lo, lambda j: lookup_array[j] is None)


def var_lo(lookup_value, lookup_array, match_type, lo):
    return len(lookup_array) - lo


def inv_hi(lookup_value, lookup_array, match_type, hi):
    return 0 <= hi <= len(lookup_array) and forall_range(hi, len(lookup_array), lambda j: lookup_array[j] is None)


def var_hi(lookup_value, lookup_array, match_type, hi):
    return hi


def inv_backoff(lookup_value, lookup_array, match_type, result):
    return 0 <= result <= len(lookup_array)


def var_backoff(lookup_value, lookup_array, match_type, result):
    return result


def inv_scan(lookup_value, lookup_array, match_type, result, k):
    """k cells scanned.  Exact match: nothing found yet means none of them equals v.  Descending match: what is
    noted is a scanned position holding a comparable value."""
    v = lookup_key(lookup_value)
    r = result[0]
    if match_type == 0:
        return r == NA_ERROR and forall_range(
            0, k, lambda j: not (candidate(lookup_array[j], v) and key_eq(cell_key(lookup_array[j]), v)))
    if isinstance(r, str):
        return r == NA_ERROR
    return 1 <= r <= k and candidate(lookup_array[r - 1], v)


def havoc_noted(vr, interp, env):
    """the position noted so far (result[0], written by the closure `compare`): any position or #N/A"""
    from pyvc.vc import build_value, pick_alt
    v, _ = build_value(vr.world, pick_alt(vr.world, match_result), interp.ex.fresh_name('noted'))
    env.lookup('result')[0] = v


MATCH_CONTRACT = Contract(
    MATCH, 'C16',
    params=dict(lookup_value=scalar, lookup_array=Array(1, kind='list', min_len=0), match_type=mtypes),
    requires=[pre_match], ensures=[post_match_exact, post_match_range],
    returns=match_result, modular=[BISECT], abstract_str_order=True, fast_branch=True,
    invariants={0: dict(inv=[inv_scan], locals=('result',), index=True, havoc=havoc_noted),
                1: dict(inv=[inv_lo], locals=('lo',), vars=dict(lo=Int()), variant=var_lo),
                2: dict(inv=[inv_hi], locals=('hi',), vars=dict(hi=Int()), variant=var_hi),
                3: dict(inv=[inv_backoff], locals=('result',), vars=dict(result=Int()), variant=var_backoff)},
    notes='the binary-search branch uses bisect_right by its contract; the three while-loops and the scan are cut at '
          'invariants over the function\'s locals (vectors of any length)')

# -- _match on sorted data: the position holds the largest value <= v (type 1) / the smallest value >= v (type -1) ----
#
# "Sorted in Excel order" without an existential: the contract has two ghost parameters first / last (not passed to
# the code) that delimit the data; blanks only pad it (Excel sorts blanks to the end).  Pairwise formulation, so
# that no induction is needed.  Error values are not data (their place in the order is not what the property is about).

def nonblank_lt(a, b):
    return excel_lt(a, b)


def pre_sorted_asc(lookup_value, lookup_array, match_type, first, last):
    n = len(lookup_array)
    return (pre_match(lookup_value, lookup_array, match_type) and 0 <= first <= last <= n
            and forall_range(0, first, lambda j: lookup_array[j] is None)
            and forall_range(last, n, lambda j: lookup_array[j] is None)
            and forall_range(first, last, lambda j: lookup_array[j] is not None and not is_err(lookup_array[j]))
            and forall_range(first, last, lambda i: forall_range(
                i + 1, last, lambda j: not nonblank_lt(lookup_array[j], lookup_array[i]))))


def post_sorted_asc(lookup_value, lookup_array, match_type, first, last, result):
    """the answer holds a value of v's type that is <= v, and no cell of v's type that is <= v holds a larger one;
    #N/A exactly when there is no such cell"""
    v = lookup_key(lookup_value)
    if isinstance(result, str):
        return result == NA_ERROR and forall_range(
            first, last, lambda j: not (same_type(lookup_array[j], v) and key_le(lookup_array[j], v)))
    if not (first < result <= last):
        return False
    x = lookup_array[result - 1]
    if not (same_type(x, v) and key_le(x, v)):
        return False
    return forall_range(first, last, lambda j: not (same_type(lookup_array[j], v) and key_le(lookup_array[j], v))
                        or key_le(lookup_array[j], x))


def inv_lo_s(lookup_value, lookup_array, match_type, first, last, lo):
    return 0 <= lo <= len(lookup_array) and forall_range(0, lo, lambda j: lookup_array[j] is None)


def var_lo_s(lookup_value, lookup_array, match_type, first, last, lo):
    return len(lookup_array) - lo


def inv_hi_s(lookup_value, lookup_array, match_type, first, last, hi):
    return 0 <= hi <= len(lookup_array) and forall_range(hi, len(lookup_array), lambda j: lookup_array[j] is None)


def var_hi_s(lookup_value, lookup_array, match_type, first, last, hi):
    return hi


def inv_backoff_s(lookup_value, lookup_array, match_type, first, last, result, result0):
    """backing off from the insertion point result0: everything skipped is of another type (or an error value)"""
    v = lookup_key(lookup_value)
    return 0 <= result <= result0 and forall_range(result, result0, lambda j: not candidate(lookup_array[j], v))


def var_backoff_s(lookup_value, lookup_array, match_type, first, last, result, result0):
    return result


MATCH_SORTED_ASC = Contract(
    MATCH, 'C16', name='_match[sorted ascending]',
    # text lookups: the same obligations did not finish within 40 minutes (sequence theory): bounded stand-in only
    params=dict(lookup_value=Union(NoneT(), Bool(), Int(), Float()), lookup_array=Array(1, kind='list', min_len=0),
                match_type=Union(Const(1), Const(True)), first=Int(), last=Int()),
    requires=[pre_sorted_asc], ensures=[post_sorted_asc], tier='thorough',
    returns=match_result, modular=[BISECT], abstract_str_order=True, fast_branch=True,
    invariants={1: dict(inv=[inv_lo_s], locals=('lo',), vars=dict(lo=Int()), variant=var_lo_s),
                2: dict(inv=[inv_hi_s], locals=('hi',), vars=dict(hi=Int()), variant=var_hi_s),
                3: dict(inv=[inv_backoff_s], locals=('result',), entry=('result',), vars=dict(result=Int()),
                        variant=var_backoff_s)},
    notes='first / last are ghost parameters (the extent of the data between the padding blanks)')


def pre_sorted_desc(lookup_value, lookup_array, match_type):
    n = len(lookup_array)
    return (pre_match(lookup_value, lookup_array, match_type)
            and forall_range(0, n, lambda j: not is_err(lookup_array[j]))
            and forall_range(0, n, lambda i: forall_range(
                i + 1, n, lambda j: not excel_lt(cell_key(lookup_array[i]), cell_key(lookup_array[j])))))


def post_sorted_desc(lookup_value, lookup_array, match_type, result):
    """the answer holds a value of v's type that is >= v, and no cell of v's type that is >= v holds a smaller one"""
    v = lookup_key(lookup_value)
    n = len(lookup_array)
    if isinstance(result, str):
        return result == NA_ERROR and forall_range(
            0, n, lambda j: not (same_type(cell_key(lookup_array[j]), v) and key_le(v, cell_key(lookup_array[j]))))
    if not (1 <= result <= n):
        return False
    x = cell_key(lookup_array[result - 1])
    if not (same_type(x, v) and key_le(v, x)):
        return False
    return forall_range(0, n, lambda j: not (same_type(cell_key(lookup_array[j]), v)
                                             and key_le(v, cell_key(lookup_array[j])))
                        or key_le(x, cell_key(lookup_array[j])))


def inv_scan_desc(lookup_value, lookup_array, match_type, result, k):
    """k cells scanned without stopping: every cell of v's type among them is strictly above v, and what is noted
    is the last of them"""
    v = lookup_key(lookup_value)
    r = result[0]
    if not forall_range(0, k, lambda j: not candidate(lookup_array[j], v) or (
            key_le(v, cell_key(lookup_array[j])) and not key_eq(cell_key(lookup_array[j]), v))):
        return False
    if isinstance(r, str):
        return r == NA_ERROR and forall_range(0, k, lambda j: not candidate(lookup_array[j], v))
    return (1 <= r <= k and candidate(lookup_array[r - 1], v)
            and forall_range(r, k, lambda j: not candidate(lookup_array[j], v)))


MATCH_SORTED_DESC = Contract(
    MATCH, 'C16', name='_match[sorted descending]',
    params=dict(lookup_value=scalar, lookup_array=Array(1, kind='list', min_len=0), match_type=Const(-1)),
    requires=[pre_sorted_desc], ensures=[post_sorted_desc], tier='thorough',
    returns=match_result, abstract_str_order=True, fast_branch=True,
    invariants={0: dict(inv=[inv_scan_desc], locals=('result',), index=True, havoc=havoc_noted)})


CONTRACTS = [
    Contract(L + 'vlookup', 'C16',
             params=dict(lookup_value=scalar, table_array=Array(2), col_index_num=Int(),
                         range_lookup=Union(Const(True), Const(False))),
             requires=[pre_vlookup], ensures=[post_vlookup], modular=[MATCH]),
    Contract(L + 'hlookup', 'C16',
             params=dict(lookup_value=scalar, table_array=Array(2), row_index_num=Int(),
                         range_lookup=Union(Const(True), Const(False))),
             requires=[pre_hlookup], ensures=[post_hlookup], modular=[MATCH]),
    Contract(L + 'match', 'C16',
             params=dict(lookup_value=scalar, lookup_array=Array(2), match_type=mtypes),
             requires=[pre_match_fn], ensures=[post_match_fn], modular=[MATCH]),
    Contract(L + 'lookup', 'C16',
             params=dict(lookup_value=scalar, lookup_array=Array(2), result_range=NoneT()),
             requires=[pre_lookup], ensures=[post_lookup_array_form], modular=[MATCH]),
    Contract(L + 'lookup', 'C16', name='lookup[vector form]',
             params=dict(lookup_value=scalar, lookup_array=Array(2), result_range=Array(2)),
             requires=[pre_lookup], ensures=[post_lookup_vector_form], modular=[MATCH]),
]

# -- INDEX --------------------------------------------------------------------------------------------------------

def pre_index(array, row_num, col_num):
    return row_num != 0 and col_num != 0


def post_index_cell(array, row_num, col_num, result):
    """both coordinates given: that cell, #REF! beyond the table, #VALUE! for negatives - never a
    wrapped-around (negative-index) cell"""
    if row_num < 0 or col_num < 0:
        return result == VALUE_ERROR
    if row_num > len(array) or col_num > len(array[0]):
        return result == REF_ERROR
    return result == array[row_num - 1][col_num - 1]


CONTRACTS.append(
    Contract(L + 'index', 'C16', params=dict(array=Array(2), row_num=Int(), col_num=Int()),
             requires=[pre_index], ensures=[post_index_cell]))


# -- lemma: VLOOKUP on a table = HLOOKUP on its transpose (from the two contracts) -------------------------------

CONTRACTS.append(BISECT_CONTRACT)
CONTRACTS.append(MATCH_SORTED_ASC)
CONTRACTS.append(MATCH_SORTED_DESC)
CONTRACTS.append(MATCH_CONTRACT)      # last: the one callers use modularly
ASSUMED = []

LEMMAS = []
LEVEL = 'other'
EXPLANATION = 'C16'
ASSUMPTIONS = ['A-SUBSET']


# -- bounded stand-in: the assumed contract of _match, and everything else natively -----------------------------

def wildcard_match(pattern, text):
    p, t = pattern.lower(), text.lower()
    memo = {}

    def m(i, j):
        if (i, j) in memo:
            return memo[(i, j)]
        if i == len(p):
            r = j == len(t)
        elif p[i] == '*':
            r = m(i + 1, j) or (j < len(t) and m(i, j + 1))
        elif p[i] == '?':
            r = j < len(t) and m(i + 1, j + 1)
        else:
            r = j < len(t) and p[i] == t[j] and m(i + 1, j + 1)
        memo[(i, j)] = r
        return r
    return m(0, 0)


POOL = [None, -5, -1, 1, 2, 2.0, 5, 'a', 'B', 'abc', 'That', 'Thats', True, False, '#N/A']


def bounded(tier, seed, R):
    import itertools
    import random
    from pycel.lib import lookup as LK
    rnd = random.Random(seed)
    thorough = tier == 'thorough'
    maxlen = 4 if not thorough else 5
    R.rule = (f'_match against its assumed contract on every vector up to length {maxlen} over a mixed pool '
              '(blank, ints, int-valued float, text incl. case variants, logicals, an error value) x lookup values '
              'x match types; sorted-data semantics of types 1 / -1 on every sorted vector; wildcard lookups against '
              'an independent matcher; VLOOKUP = HLOOKUP on the transpose, LOOKUP/MATCH/INDEX contracts on random tables')
    pool = POOL if thorough else [None, -3, 1, 2.0, 5, 'a', 'B', 'abc', True, '#N/A']
    lookups = [None, -4, -3, 0, 1, 2, 3, 5, 9, 'a', 'A', 'b', 'abc', 'zz', True, False]
    R.bound = f'vectors of length 0..{maxlen} over {len(pool)} values x {len(lookups)} lookups x 3 match types'
    for n in range(0, maxlen + 1):
        for arr in itertools.product(pool, repeat=n):
            arr = list(arr)
            for v in lookups:
                for mt in (0, 1, -1):
                    w = {'lookup_value': v, 'lookup_array': arr, 'match_type': mt}

                    def chk():
                        r = LK._match(v, arr, mt)
                        ok = post_match_exact(v, arr, mt, r) and post_match_range(v, arr, mt, r)
                        if ok and mt != 0 and is_sorted(arr, descending=(mt == -1)) and \
                                not any(is_err(x) for x in arr):
                            ok = match_sorted_ok(v, arr, mt, r)
                        return ok
                    R.guard('_match/contract', chk, w)
    # wildcard lookups (exact match only)
    texts = ['That', 'Thats', 'Thud', 'abcd', 'abd', 'abc', 'a', '', 'THAT', 1, None, True]
    for pat in ('Th?t', 'a?c', 'a*', '*d', '*', '?', 'th*s', 'a?c*'):
        for n in range(0, 4):
            for arr in itertools.product(texts[:8], repeat=n):
                def chk():
                    r = LK._match(pat, list(arr), 0)
                    hits = [i + 1 for i, x in enumerate(arr) if isinstance(x, str) and wildcard_match(pat, x)]
                    return r == (hits[0] if hits else NA_ERROR)
                R.guard('_match/wildcard', chk, {'pattern': pat, 'array': list(arr)})
    # every wildcard pattern up to length 3 (4 thorough) over {a, b, ?, *} against every vector of one or two texts up to
    # length 3 over {a, B, ?} (and a number / a blank, which a text pattern never matches)
    plen = 3 if not thorough else 4
    wpats = [''.join(t) for k in range(1, plen + 1) for t in itertools.product('ab?*', repeat=k)]
    wpats = [p_ for p_ in wpats if '*' in p_ or '?' in p_]
    wtexts = [''.join(t) for k in range(0, 4) for t in itertools.product('aB?', repeat=k)] + [5, None]
    for p_ in wpats:
        for x1 in wtexts:
            for x2 in (wtexts if thorough else wtexts[::5]):
                arr2 = [x1, x2]

                def chk():
                    r = LK._match(p_, arr2, 0)
                    hits = [i + 1 for i, x in enumerate(arr2) if isinstance(x, str) and wildcard_match(p_, x)]
                    return r == (hits[0] if hits else NA_ERROR)
                R.guard('_match/wildcard', chk, {'pattern': p_, 'array': arr2})
    # tables
    vals = [1, 2, 3, 'a', 'b', None, True, 2.5]
    for _ in range(300 if not thorough else 5000):
        h, w_ = rnd.randint(1, 4), rnd.randint(1, 4)
        col0 = sorted(rnd.sample(range(1, 12), h))
        table = tuple(tuple([col0[i]] + [rnd.choice(vals) for _ in range(w_ - 1)]) for i in range(h))
        tr = tuple(zip(*table))
        v = rnd.randint(0, 12)
        k = rnd.randint(-1, w_ + 1)
        for rl in (True, False):
            wt = {'table': table, 'v': v, 'k': k, 'range_lookup': rl}
            R.guard('vlookup/post#0:post_vlookup', lambda: post_vlookup(v, table, k, rl, LK.vlookup(v, table, k, rl)), wt)
            R.guard('hlookup/post#0:post_hlookup', lambda: post_hlookup(v, tr, k, rl, LK.hlookup(v, tr, k, rl)), wt)
            R.guard('bounded/vlookup_is_hlookup_of_transpose',
                    lambda: LK.vlookup(v, table, k, rl) == LK.hlookup(v, tr, k, rl), wt)
        R.guard('lookup/post#0:post_lookup_array_form',
                lambda: post_lookup_array_form(v, table, None, LK.lookup(v, table)), {'table': table, 'v': v})
        R.guard('lookup/post#0:post_lookup_array_form',
                lambda: post_lookup_array_form(v, tr, None, LK.lookup(v, tr)), {'table': tr, 'v': v})
        # vector form of LOOKUP: result vectors of every orientation, also shorter / longer than the lookup vector
        for rlen in (h - 1, h, h + 1):
            if rlen >= 1:
                rcol = tuple((rnd.choice(vals),) for _ in range(rlen))
                rrow = (tuple(x[0] for x in rcol),)
                lcol = tuple((x,) for x in col0)
                for rr in (rcol, rrow):
                    R.guard('lookup[vector form]/post#0:post_lookup_vector_form',
                            lambda: post_lookup_vector_form(v, lcol, rr, LK.lookup(v, lcol, rr)),
                            {'lookup_vector': lcol, 'result_vector': rr, 'v': v})
        for mt in (0, 1, -1):
            col = tuple((x,) for x in col0)
            R.guard('match/post#0:post_match_fn', lambda: post_match_fn(v, col, mt, LK.match(v, col, mt)),
                    {'col': col, 'v': v, 'mt': mt})
        for r_ in range(-1, h + 2):
            for c_ in range(-1, w_ + 2):
                if r_ and c_:
                    R.guard('index/post#0:post_index_cell',
                            lambda: post_index_cell(table, r_, c_, LK.index(table, r_, c_)),
                            {'table': table, 'row': r_, 'col': c_})


LEVEL = 'other'
EXPLANATION = ('Mixed. PROVED (SMT, tables and vectors of ANY size): _match itself - the binary-search branch (two while-loops '
               'that strip padding blanks, bisect_right, the back-off loop across type boundaries) and the linear scans of '
               'match types 0 / -1 (a for-loop with break whose closure writes the noted position), each loop cut at an '
               'invariant over the function\'s own locals with a variant: the answer is #N/A or a position inside the vector '
               'holding a non-error value of the lookup value\'s type (never a blank for type 1), and for type 0 it is the '
               'FIRST position whose value equals v (type-strict, case-insensitive) or #N/A when there is none; '
               'bisect.bisect_right is verified from the source of Lib/bisect.py of the interpreter that runs pycel, for '
               'every key with a pure `<` (window, left-neighbour and right-neighbour facts that hold on unsorted data too). '
               'VLOOKUP, HLOOKUP, MATCH, array-form and vector-form LOOKUP and INDEX(row, col) over symbolic tables: each returns the cell '
               'INDEX would return at the position _match reports for the very vector the property names (the arguments of '
               'the internal call are proved equal to it pointwise), #VALUE!/#REF! for non-positive / too large indices, '
               'never a wrapped-around cell; these use only the contract of _match. THOROUGH COMMAND ONLY (5 - 25 minutes per scenario, about half an hour in all; the wall-clock caps of the solver portfolio are scaled by 6 for these contracts because one obligation flipped to unknown when 16 scenarios ran at once under the standard caps): '
               'on data sorted in Excel order (ascending between padding blanks / descending with blanks read as 0, pairwise '
               'formulation, no error values) type 1 answers a position holding the largest value <= v of v\'s type and type '
               '-1 one holding the smallest value >= v, #N/A exactly when there is none (type 1 with a TEXT lookup value did not finish in 40 minutes: bounded only). BOUNDED (native): wildcard lookups '
               '(compiled regular expressions) against an independent matcher; the same contracts and the sorted-data '
               'semantics on every vector up to length 4 (5 thorough) over a mixed pool incl. negative numbers; VLOOKUP = '
               'HLOOKUP of the transpose.')
ASSUMPTIONS = ['A-SUBSET', 'A-CBISECT: the C accelerator _bisect computes what Lib/bisect.py (verified from source) computes',
               'A-CASE / A-STRORDER for text keys; text order used only as a strict total order (pyvc/strorder.py: abstract '
               'predicate + ground order axioms, every non-unsat verdict re-asked with the real str.<)',
               'a blank cell is searched / compared as the number 0 (ExcelCmp), as in C10',
               'termination: every loop has a variant; bisect_right\'s too']
