"""C08 - trim_graph preserves the outputs as a function of the inputs."""
from pyvc.heapspec import (cached, forall_nodes, has_formula, in_done, in_set, is_range, is_unbounded, old_cached, old_has_formula,
                           old_in_set, pre_in_set, pre_same_fields, reads, same_formula, same_node, same_value, succ)
from pyvc.spec import Contract, HeapAddr, HeapCell, HeapCompiler, HeapSet, Lemma, NoneT, Tuple, Union, implies

SYMBOLIC_TWINS = {}

TRIM = 'pycel.excelcompiler:ExcelCompiler.trim_graph'
N, P = 'needed_cells', 'processed_cells'


# -- walk_dependents(cell): the cells that depend on an input (local closure form, no transitive closure) -----

def wd_monotone(self, needed_cells, cell, result):
    return forall_nodes(lambda m: implies(old_in_set(N, m), in_set(N, m)))


def wd_successors_needed(self, needed_cells, cell, result):
    return forall_nodes(lambda k: implies(succ(cell, k), in_set(N, k)))


def wd_added_are_closed(self, needed_cells, cell, result):
    """every address this call adds has all its dependants in the set on exit"""
    return forall_nodes(lambda m: implies(in_set(N, m) and not old_in_set(N, m),
                                          forall_nodes(lambda k: implies(succ(m, k), in_set(N, k)))))


def wd_frame(self, needed_cells, cell, result):
    return forall_nodes(lambda m: same_value(m) and same_formula(m))


def wd_inv_monotone(self, needed_cells, cell):
    return forall_nodes(lambda m: implies(old_in_set(N, m), in_set(N, m)))


def wd_inv_done_needed(self, needed_cells, cell):
    return forall_nodes(lambda k: implies(in_done(k), in_set(N, k)))


def wd_inv_added_closed(self, needed_cells, cell):
    return forall_nodes(lambda m: implies(in_set(N, m) and not old_in_set(N, m),
                                          forall_nodes(lambda k: implies(succ(m, k), in_set(N, k)))))


def wd_inv_frame(self, needed_cells, cell):
    return forall_nodes(lambda m: same_value(m) and same_formula(m))


# -- walk_precedents(cell): what the outputs need; cells outside the needed set are frozen to their value --------

def frozen_now(m):
    return not has_formula(m) and in_set(N, m) and not old_in_set(N, m) and not is_range(m)


def wp_monotone(self, needed_cells, processed_cells, cell, result):
    return forall_nodes(lambda m: implies(old_in_set(N, m), in_set(N, m)) and implies(old_in_set(P, m), in_set(P, m)))


def wp_reads_processed(self, needed_cells, processed_cells, cell, result):
    return forall_nodes(lambda p: implies(reads(p, cell), in_set(P, p)))


def wp_new_processed_closed(self, needed_cells, processed_cells, cell, result):
    """an address processed by this call is either frozen or has all the addresses it needs processed"""
    return forall_nodes(lambda m: implies(in_set(P, m) and not old_in_set(P, m),
                                          frozen_now(m) or forall_nodes(lambda p: implies(reads(p, m), in_set(P, p)))))


def wp_frozen_have_value(self, needed_cells, processed_cells, cell, result):
    """(c) a cell that loses its formula holds a value"""
    return forall_nodes(lambda m: implies(old_has_formula(m) and not has_formula(m), cached(m)))


def wp_formula_frame(self, needed_cells, processed_cells, cell, result):
    """(b) only cells outside the needed set that are not ranges lose their formula; nothing gains or changes one"""
    return forall_nodes(lambda m: implies(not same_formula(m),
                                          not old_in_set(N, m) and not is_range(m) and in_set(N, m) and not has_formula(m)
                                          and in_set(P, m) and not old_in_set(P, m)))


def wp_needed_grows_by_frozen_only(self, needed_cells, processed_cells, cell, result):
    return forall_nodes(lambda m: implies(in_set(N, m) and not old_in_set(N, m),
                                          in_set(P, m) and not old_in_set(P, m) and not has_formula(m) and not is_range(m)))


def wp_values_kept(self, needed_cells, processed_cells, cell, result):
    return forall_nodes(lambda m: implies(old_cached(m), same_value(m)))


def wp_inv_monotone(self, needed_cells, processed_cells, cell):
    return forall_nodes(lambda m: implies(old_in_set(N, m), in_set(N, m)) and implies(old_in_set(P, m), in_set(P, m)))


def wp_inv_done_processed(self, needed_cells, processed_cells, cell):
    return forall_nodes(lambda p: implies(in_done(p), in_set(P, p)))


def wp_inv_new_processed_closed(self, needed_cells, processed_cells, cell):
    return forall_nodes(lambda m: implies(in_set(P, m) and not old_in_set(P, m),
                                          frozen_now(m) or forall_nodes(lambda p: implies(reads(p, m), in_set(P, p)))))


def wp_inv_frozen_have_value(self, needed_cells, processed_cells, cell):
    return forall_nodes(lambda m: implies(old_has_formula(m) and not has_formula(m), cached(m)))


def wp_inv_formula_frame(self, needed_cells, processed_cells, cell):
    return forall_nodes(lambda m: implies(not same_formula(m),
                                          not old_in_set(N, m) and not is_range(m) and in_set(N, m) and not has_formula(m)
                                          and in_set(P, m) and not old_in_set(P, m)))


def wp_inv_needed_grows_by_frozen_only(self, needed_cells, processed_cells, cell):
    return forall_nodes(lambda m: implies(in_set(N, m) and not old_in_set(N, m),
                                          in_set(P, m) and not old_in_set(P, m) and not has_formula(m) and not is_range(m)))


def wp_inv_values_kept(self, needed_cells, processed_cells, cell):
    return forall_nodes(lambda m: implies(old_cached(m), same_value(m)))


# -- trim_graph(input_addrs, output_addrs): the assembly ------------------------------------------------------------

M, S2 = 'cell_map', 'dependants_of_inputs'
GEN_GRAPH = 'pycel.excelcompiler:ExcelCompiler._gen_graph'


def snapshot_dependants(vr, interp, env):
    """ghost: the needed set as it is after step 2 (the walk from the inputs), before the outputs are added"""
    from pyvc import heapmodel as HM
    HM.declare_heap_set(S2)
    h = dict(HM.heap_of(interp.ex))
    h['set:' + S2] = h['set:' + N]
    interp.ex.heap = h


def in_tuple(m, addrs):
    r = False
    for a in addrs:
        r = r or same_node(m, a)
    return r


def pre_trim(self, input_addrs, output_addrs):
    """the graph of the outputs is built (their addresses are in the model; _gen_graph has nothing to add)"""
    ok = True
    for o in output_addrs:
        ok = ok and in_set(M, o)
    return ok


def tg_keeps_exactly_the_needed(self, input_addrs, output_addrs, result):
    """(a) cell_map afterwards = the cells that were there and are needed - plus the reference cells of unbounded ranges
    (A:A), which are never removed: a saved model cannot work out again what they stand for"""
    return forall_nodes(lambda m: in_set(M, m) == (old_in_set(M, m) and (in_set(N, m) or is_unbounded(m))))


def tg_outputs_and_dependants_needed(self, input_addrs, output_addrs, result):
    """the outputs are needed; the ghost set S (needed after the walk from the inputs) is inside the needed set,
    contains every dependant of an input that is in the model, and is closed under dependants"""
    return (forall_nodes(lambda m: implies(in_tuple(m, output_addrs), in_set(N, m)))
            and forall_nodes(lambda m: implies(in_set(S2, m), in_set(N, m)))
            and forall_nodes(lambda i: implies(in_tuple(i, input_addrs) and old_in_set(M, i),
                                               forall_nodes(lambda k: implies(succ(i, k), in_set(S2, k)))))
            and forall_nodes(lambda m: implies(in_set(S2, m), forall_nodes(lambda k: implies(succ(m, k), in_set(S2, k))))))


def tg_frozen_are_outside_the_dependants(self, input_addrs, output_addrs, result):
    """(b) + (c): a cell loses its formula only if it is not a dependant of an input (not in S), not an output and
    not a range; it then holds a value and is kept; no cell gains or changes a formula"""
    return forall_nodes(lambda m: implies(not same_formula(m),
                                          not in_set(S2, m) and not in_tuple(m, output_addrs) and not is_range(m)
                                          and cached(m) and not has_formula(m) and in_set(N, m)))


def tg_kept_computed_nodes_keep_their_precedents(self, input_addrs, output_addrs, result):
    """(d) every output, and every processed node, that still computes (formula or range) has all the addresses it
    needs processed; processed addresses are needed (hence kept)"""
    return (forall_nodes(lambda m: implies((in_set(P, m) or in_tuple(m, output_addrs)) and (has_formula(m) or is_range(m)),
                                           forall_nodes(lambda p: implies(reads(p, m), in_set(P, p)))))
            and forall_nodes(lambda m: implies(in_set(P, m), in_set(N, m) or is_range(m))))


def tg_values_kept(self, input_addrs, output_addrs, result):
    return forall_nodes(lambda m: implies(old_cached(m), same_value(m)))


# loop 4: for addr in cells_to_remove: del self.cell_map[addr]
def rm_inv_map(self, input_addrs, output_addrs):
    return forall_nodes(lambda m: in_set(M, m) == (pre_in_set(M, m) and not in_done(m)))


def rm_inv_rest_untouched(self, input_addrs, output_addrs):
    return forall_nodes(lambda m: in_set(N, m) == pre_in_set(N, m) and in_set(P, m) == pre_in_set(P, m)
                        and in_set(S2, m) == pre_in_set(S2, m) and pre_same_fields(m))


def gg_nothing_changes(self, seed, recursed, result):
    return True


def wp_processed_are_needed(self, needed_cells, processed_cells, cell, result):
    """(a range that is only a precedent is walked through but not itself needed: a bounded range is rebuilt on demand
    from its members; the reference cell of an unbounded range is kept by the removal step of trim_graph)"""
    return forall_nodes(lambda m: implies(in_set(P, m) and not old_in_set(P, m), in_set(N, m) or is_range(m)))


def wp_inv_processed_are_needed(self, needed_cells, processed_cells, cell):
    return forall_nodes(lambda m: implies(in_set(P, m) and not old_in_set(P, m), in_set(N, m) or is_range(m)))


ASSUMED = [
    Contract(GEN_GRAPH, 'C08', heap=True, params=dict(self=HeapCompiler(trimming=True), seed=HeapAddr(), recursed=NoneT()),
             ensures=[gg_nothing_changes], modifies=(), returns=NoneT(), klass='BOUNDED',
             notes='trim_graph is verified for the case that the graph of the outputs is already built (requires): '
                   '_gen_graph then returns at once; building it is C04 / C05'),
]

CONTRACTS = [
    Contract(TRIM, 'C08', heap=True, heap_sets=(N, P), ghost_before_loop={1: snapshot_dependants},
             modular=[GEN_GRAPH, TRIM + '.walk_dependents', TRIM + '.walk_precedents'],
             params=dict(self=HeapCompiler(cycles=False, trimming=True),
                         input_addrs=Union(Tuple(HeapAddr()), Tuple(HeapAddr(), HeapAddr())),
                         output_addrs=Union(Tuple(HeapAddr()), Tuple(HeapAddr(), HeapAddr()))),
             requires=[pre_trim],
             ensures=[tg_keeps_exactly_the_needed, tg_outputs_and_dependants_needed, tg_frozen_are_outside_the_dependants,
                      tg_kept_computed_nodes_keep_their_precedents, tg_values_kept],
             returns=NoneT(),
             invariants={4: [rm_inv_map, rm_inv_rest_untouched]},
             notes='one or two inputs / outputs: the two loops over them are unrolled (the contracts of the closures carry '
                   'the unbounded part); inputs that are not in the model only produce a warning'),
    Contract(TRIM + '.walk_precedents', 'C08', heap=True, decreases='recursive',
             params=dict(self=HeapCompiler(cycles=False), needed_cells=HeapSet(N), processed_cells=HeapSet(P),
                         cell=HeapCell()),
             free_vars=('self', 'needed_cells', 'processed_cells'),
             bound_args=lambda names, args: ([args[names.index('cell')]], {}),
             ensures=[wp_monotone, wp_reads_processed, wp_new_processed_closed, wp_frozen_have_value, wp_formula_frame,
                      wp_needed_grows_by_frozen_only, wp_values_kept, wp_processed_are_needed],
             modifies=('value', 'formula', 'set:needed_cells', 'set:processed_cells'),
             returns=NoneT(),
             invariants={0: [wp_inv_monotone, wp_inv_done_processed, wp_inv_new_processed_closed, wp_inv_frozen_have_value,
                             wp_inv_formula_frame, wp_inv_needed_grows_by_frozen_only, wp_inv_values_kept,
                             wp_inv_processed_are_needed]}),
    Contract(TRIM + '.walk_dependents', 'C08', heap=True, decreases='recursive',
             params=dict(self=HeapCompiler(cycles=False), needed_cells=HeapSet(N), cell=HeapCell()),
             free_vars=('self', 'needed_cells'),
             bound_args=lambda names, args: ([args[names.index('cell')]], {}),
             ensures=[wd_monotone, wd_successors_needed, wd_added_are_closed, wd_frame], returns=NoneT(),
             modifies=('set:needed_cells',),
             invariants={0: [wd_inv_monotone, wd_inv_done_needed, wd_inv_added_closed, wd_inv_frame]}),
]
LEMMAS = []


def _c08_workbooks(rnd, n, W):
    wbs = W.grammar(rnd, n) + W.random_dags(rnd, max(2, n // 2))
    wbs += [
        # input -> OUT1 -> mid -> OUT2 ; helpers that do not depend on the input
        W.WB({'A1': 3, 'A2': 10}, {'B1': '=A1*2', 'C1': '=B1+1', 'D1': '=C1+H1', 'H1': '=A2*2', 'H2': '=H1-20',
                                   'E1': '=D1+H2'}, 'out-mid-out'),
        # helpers whose value is 0 / FALSE / ""
        W.WB({'A1': 1, 'A2': 10}, {'H1': '=A2-10', 'H2': '=A2>11', 'H3': '=IF(A2=10,"","x")', 'B1': '=A1+H1',
                                   'B2': '=IF(H2,A1,A1+1)', 'B3': '=H3&A1'}, 'falsy-helpers'),
        # buried input (a formula cell used as input), range input
        W.WB({'A1': 2, 'A2': 4, 'A3': 6}, {'B1': '=A1+1', 'C1': '=B1*2', 'D1': '=SUM(A1:A3)+C1', 'E1': '=D1+A3'}, 'buried'),
        # helper chain two deep below the frozen boundary
        W.WB({'A1': 5, 'Z1': 7}, {'Y1': '=Z1+1', 'Y2': '=Y1*2', 'B1': '=A1+Y2', 'C1': '=B1+Y1'}, 'deep-helpers'),
    ]
    return wbs


def bounded(tier, seed, R):
    import itertools
    import logging
    import random
    from contracts import wbgen as W
    logging.disable(logging.CRITICAL)
    rnd = random.Random(seed)
    thorough = tier == 'thorough'
    R.rule = ('workbooks from the shape grammar plus out-mid-out / falsy-helper / buried-input / deep-helper shapes, from in-memory '
              'and .xlsx origins, with and without prior evaluation: trim_graph(inputs, outputs) for input sets (single cells, '
              'pairs, a range, a buried formula cell) and output sets; then sequences of value assignments to the inputs applied '
              'to the trimmed and to an untrimmed model: every output agrees; again after to_file/from_file of the trimmed model')
    wbs = _c08_workbooks(rnd, 8 if not thorough else 24, W)
    R.bound = f'{len(wbs)} workbooks x <=6 (inputs, outputs) choices x 2 origins x 2 (pre-evaluated or not) x 3 assignments'
    pool = [0, 1, -3, 2.5, 10, 100]
    _iterative_cases(R, W)
    with W.TmpDir() as tmp:
        for wi, wb in enumerate(wbs):
            ins = [c for c in wb.inputs if isinstance(wb.inputs[c], (int, float)) and not isinstance(wb.inputs[c], bool)]
            fcells = list(wb.formulas)
            if not ins or not fcells:
                continue
            choices = []
            choices.append(([ins[0]], [fcells[-1]]))
            choices.append(([ins[0]], fcells[-2:]))
            if len(ins) > 1:
                choices.append((ins[:2], [fcells[-1]]))
                choices.append(([ins[-1]], [fcells[-1], fcells[0]]))
            choices.append(([ins[0]], fcells))                       # every formula cell is an output
            if len(fcells) > 2:
                choices.append(([ins[0], fcells[0]], [fcells[-1]]))   # a buried (formula) input
            choices = [(I, O) for (I, O) in choices
                       if all(any(c in _precedents(W, wb, o) for o in O) for c in I)]    # (an input no output reads is an error by design)
            for (I, O) in choices[:6 if not thorough else 12]:
                for origin in ('mem', 'xlsx'):
                    for pre in (False, True):
                        w = {'workbook': repr(wb), 'inputs': I, 'outputs': O, 'origin': origin, 'pre_evaluated': pre}
                        st = {}

                        def trim():
                            comp = W.obtain(wb, origin, tmp, f't{wi}')
                            if pre:
                                for c in wb.cells():
                                    comp.evaluate(W.addr(c))
                            comp.trim_graph([W.addr(c) for c in I], [W.addr(c) for c in O])
                            st['comp'] = comp
                            return True
                        if not R.guard('bounded/trim_runs', trim, w):
                            continue
                        comp = st['comp']
                        ref = W.compile_mem(wb)
                        for c in wb.cells():
                            ref.evaluate(W.addr(c))
                        assigns = [[rnd.choice(pool) for _ in I] for _ in range(3)]

                        feeds = set()
                        for o in O:
                            feeds |= _precedents(W, wb, o)

                        def compare(model, label):
                            for vals in assigns:
                                for c, v in zip(I, vals):
                                    if c in wb.inputs:          # (a buried input keeps its formula in the reference)
                                        ref.set_value(W.addr(c), v)
                                        if c not in feeds:
                                            continue            # no output reads it: trim_graph dropped it (with a warning)
                                        try:
                                            model.set_value(W.addr(c), v)
                                        except Exception as e:      # noqa
                                            R.check(f'bounded/inputs_settable_{label}', False,
                                                    dict(w, input=c, raised=f'{type(e).__name__}: {e}'[:200]))
                                for o in O:
                                    want = ref.evaluate(W.addr(o))
                                    try:
                                        got = model.evaluate(W.addr(o))
                                    except Exception as e:      # noqa
                                        got = f'raised {type(e).__name__}: {e}'[:200]
                                    R.check(f'bounded/outputs_agree_{label}', W.same(got, want),
                                            dict(w, assignment=dict(zip(I, vals)), output=o, got=got, want=want))
                        compare(comp, 'after_trim')
                        for fmt in (('yml',) if not thorough else ('yml', 'json', 'pkl')):
                            def reload():
                                import os
                                from pycel import ExcelCompiler
                                base = os.path.join(tmp, f'trim{wi}_model')
                                comp.to_file(base, file_types=(fmt,))
                                st['loaded'] = ExcelCompiler.from_file(base + '.' + fmt)
                                return True
                            if R.guard('bounded/save_load_runs', reload, dict(w, fmt=fmt)):
                                compare(st['loaded'], 'after_save_load')


def _iterative_cases(R, W):
    """trim_graph on a model with iterative calculation: a cycle that feeds an output but does not depend on an input is
    frozen to the value the iteration settles at, also when nothing was evaluated before the trim"""
    cases = [W.WB({'A1': 5}, {'C1': '=MIN(D1+1,5)', 'D1': '=C1', 'B1': '=A1+C1'}, 'settling-cycle'),
             W.WB({'A1': 2, 'K1': 1}, {'C1': '=0.5*D1+K1', 'D1': '=0.5*C1+1', 'B1': '=A1*2+ROUND(C1,3)'}, 'contracting-cycle')]
    for wb in cases:
        for pre in (False, True):
            w = {'workbook': repr(wb), 'iterative': True, 'pre_evaluated': pre}

            def chk():
                ref = W.compile_mem(wb, cycles=True)
                comp = W.compile_mem(wb, cycles=True)
                kw = dict(iterations=200, tolerance=1e-9)
                if pre:
                    comp.evaluate('S!B1', **kw)
                comp.trim_graph(['S!A1'], ['S!B1'])
                ok = True
                for v in (5, 0, 10):
                    for m in (ref, comp):
                        m.evaluate('S!A1', **kw)
                        m.set_value('S!A1', v)
                    a, b = ref.evaluate('S!B1', **kw), comp.evaluate('S!B1', **kw)
                    if not (isinstance(b, (int, float)) and abs(a - b) <= 1e-6):
                        w['disagreement'] = (v, a, b)
                        ok = False
                return ok
            R.guard('bounded/outputs_agree_after_trim', chk, w)


def _precedents(W, wb, cell):
    reads = W.direct_reads(wb)
    seen, todo = set(), [cell]
    while todo:
        c = todo.pop()
        if c in seen:
            continue
        seen.add(c)
        todo.extend(reads.get(c, ()))
    return seen


# -- from the contracts to the property: Sem'(o) = Sem(o) for every assignment of the inputs ----------------------------
#
# Two induction steps over the rank of a node in the (acyclic) reads relation, written directly as SMT queries over
# uninterpreted functions.  They use only what the contracts above establish (named in the comments) plus C01's Local
# (a cached computed node holds its from-scratch value) and the graph invariant "every read is an edge" (C04).

def sem_preservation_steps():
    import time
    import z3
    Node = z3.DeclareSort('N')
    V = z3.DeclareSort('Val')
    B = z3.BoolSort()
    reads = z3.Function('reads', Node, Node, B)          # reads(p, d): d's formula / range needs p
    succ = z3.Function('succ', Node, Node, B)
    inS = z3.Function('inS', Node, B)                    # ghost S: needed after the walk from the inputs
    isin = z3.Function('is_input', Node, B)
    isout = z3.Function('is_output', Node, B)
    comp0 = z3.Function('computed_before', Node, B)      # has a formula / is a range in the untrimmed model
    comp1 = z3.Function('computed_after', Node, B)
    relevant = z3.Function('relevant', Node, B)          # processed or output (what the trimmed model keeps and uses)
    AV = z3.ArraySort(Node, V)
    F = z3.Function('F', Node, AV, V)
    sem0, sema, semt = z3.Consts('sem_trimtime sem_a sem_trimmed_a', AV)
    const = z3.Function('constant', Node, V)
    assigned = z3.Function('assigned_a', Node, V)
    d, p, m, k, i = z3.Consts('d p m k i', Node)
    va, vb = z3.Consts('va vb', AV)
    base = [
        # A-EVAL: F(d, .) depends on the values of d's read-precedents only
        z3.ForAll([d, va, vb], z3.Implies(z3.ForAll([p], z3.Implies(reads(p, d), va[p] == vb[p])), F(d, va) == F(d, vb))),
        # C04 / C01 Edges: every read is an edge
        z3.ForAll([p, d], z3.Implies(reads(p, d), succ(p, d))),
        # tg_outputs_and_dependants_needed: S holds the dependants of the inputs and is closed under dependants
        z3.ForAll([i, k], z3.Implies(z3.And(isin(i), succ(i, k)), inS(k))),
        z3.ForAll([m, k], z3.Implies(z3.And(inS(m), succ(m, k)), inS(k))),
        # semantics of the untrimmed model under the trim-time assignment (0) and under another assignment (a):
        # inputs take the assigned value, other constants are what they are, computed nodes apply F
        z3.ForAll([m], z3.Implies(isin(m), sema[m] == assigned(m))),
        z3.ForAll([m], z3.Implies(z3.And(z3.Not(isin(m)), z3.Not(comp0(m))), z3.And(sem0[m] == const(m), sema[m] == const(m)))),
        z3.ForAll([m], z3.Implies(z3.And(z3.Not(isin(m)), comp0(m)), z3.And(sem0[m] == F(m, sem0), sema[m] == F(m, sema)))),
    ]
    out = []

    def check(name, hyps, goal):
        s = z3.Solver()
        s.set('timeout', 60000)
        for h in base + hyps:
            s.add(h)
        s.add(z3.Not(goal))
        t0 = time.time()
        r = s.check()
        out.append(dict(name=name, status='unsat' if r == z3.unsat else 'sat' if r == z3.sat else 'unknown',
                        ms=(time.time() - t0) * 1000))
    # step A: a node outside S that is not an input does not feel the inputs
    d0 = z3.Const('d0', Node)
    ih_a = z3.ForAll([p], z3.Implies(z3.And(reads(p, d0), z3.Not(inS(p)), z3.Not(isin(p))), sema[p] == sem0[p]))
    check('outside_S_independent_of_inputs', [z3.Not(inS(d0)), z3.Not(isin(d0)), ih_a], sema[d0] == sem0[d0])
    # step B: the trimmed model agrees with the untrimmed one on every node it keeps and uses
    fact_a = z3.ForAll([m], z3.Implies(z3.And(z3.Not(inS(m)), z3.Not(isin(m))), sema[m] == sem0[m]))       # conclusion of A
    trimmed = [
        # tg_frozen_are_outside_the_dependants: a node that stops computing was outside S, not an output, and holds its
        # trim-time value, which by C01's Local is its from-scratch value sem0
        z3.ForAll([m], z3.Implies(z3.And(comp0(m), z3.Not(comp1(m))), z3.And(z3.Not(inS(m)), z3.Not(isout(m))))),
        z3.ForAll([m], z3.Implies(comp1(m), comp0(m))),
        # tg_kept_computed_nodes_keep_their_precedents
        z3.ForAll([m, p], z3.Implies(z3.And(relevant(m), comp1(m), reads(p, m)), relevant(p))),
        # semantics of the trimmed model under assignment a
        z3.ForAll([m], z3.Implies(isin(m), semt[m] == assigned(m))),
        z3.ForAll([m], z3.Implies(z3.And(z3.Not(isin(m)), comp1(m)), semt[m] == F(m, semt))),
        z3.ForAll([m], z3.Implies(z3.And(z3.Not(isin(m)), comp0(m), z3.Not(comp1(m))), semt[m] == sem0[m])),   # frozen
        z3.ForAll([m], z3.Implies(z3.And(z3.Not(isin(m)), z3.Not(comp0(m))), semt[m] == const(m))),
    ]
    ih_b = z3.ForAll([p], z3.Implies(z3.And(reads(p, d0), relevant(p)), semt[p] == sema[p]))
    check('trimmed_agrees_on_kept_nodes', trimmed + [fact_a, relevant(d0), ih_b], semt[d0] == sema[d0])
    return out


SMT_LEMMAS = [sem_preservation_steps]

LEVEL = 'other'
EXPLANATION = ('Mixed. PROVED by SMT (heap mode: address sets held in local / closure variables as heap fields, the formula field, '
               'mutable cell_map membership, abstract successor / needed-address sets, loop invariants with a ghost visited set, '
               'recursive calls discharged against the contracts themselves, a ghost snapshot S of the needed set after the walk '
               'from the inputs; no transitive closure): walk_dependents, walk_precedents, and trim_graph itself (1-2 inputs, 1-2 '
               'outputs; graph of the outputs already built): (a) cell_map afterwards is exactly the old cell_map restricted to the '
               'needed set; the outputs are needed; S lies inside the needed set, holds every dependant of an input and is closed '
               'under dependants; (b)+(c) a cell loses its formula only if it is outside S, not an output and not a range, and it '
               'then holds a value and is kept; (d) every output / processed node that still computes has all the addresses it '
               'needs processed, and processed addresses are needed or ranges; cached values never change. From these, two '
               'induction-step lemmas (raw SMT over uninterpreted Sem functions): a node outside S that is not an input has the '
               'same from-scratch value under every assignment of the inputs; the trimmed model agrees with the untrimmed one on '
               'every node it keeps and uses - i.e. outputs are preserved as a function of the inputs. BOUNDED (native): the same '
               'equivalence observed on real models (trimmed vs untrimmed under sequences of input assignments, again after save / '
               'load) over grammar workbooks and out-mid-out / falsy-helper / buried-input / deep-helper shapes, two origins.')
ASSUMPTIONS = ['A-NX', 'A-EVAL', 'A-MAP: cell_map holds the node of every address a graph node needs (built by _gen_graph)',
               'A-EVALUATE-CACHES: evaluate(address) fills in values of un-cached nodes only and leaves a formula cell with a '
               'value that is not None (not-None proved for eval_func in C09)',
               'address text <-> node is a bijection; ":" in address <=> range node (C11)',
               'the rank induction itself (acyclic reads relation) is meta-level: the two step lemmas are machine-checked, the '
               'induction principle is not; C01 Local gives "cached computed node holds its from-scratch value"; C04 gives '
               '"every read is an edge"',
               'trim_graph is verified with the graph of the outputs already built (_gen_graph assumed to change nothing then) '
               'and for 1-2 inputs / outputs (the loops over them are unrolled)',
               'range nodes that are only precedents are dropped by trim_graph and rebuilt on demand (_evaluate_range): bounded']
BOUNDED_FUNCTIONS = [
    Contract('pycel.excelcompiler:ExcelCompiler._gen_graph', 'C08', params={}, klass='BOUNDED',
             notes='building the graph of the outputs (step 1 of trim_graph): C04 / C05'),
]
