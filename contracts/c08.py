"""C08 - trim_graph preserves the outputs as a function of the inputs."""
from pyvc.heapspec import (cached, forall_nodes, has_formula, in_done, in_set, is_range, old_cached, old_has_formula,
                           old_in_set, reads, same_formula, same_node, same_value, succ)
from pyvc.spec import Contract, HeapCell, HeapCompiler, HeapSet, Lemma, NoneT, implies

SYMBOLIC_TWINS = {}

TRIM = 'pycel.excelcompiler:ExcelCompiler.trim_graph'
N, P = 'needed_cells', 'processed_cells'


# -- walk_dependents(cell): the cells that depend on an input (local closure form, no transitive closure) -----

def wd_monotone(self, needed_cells, cell, result):
    return forall_nodes(lambda m: implies(old_in_set(N, m), in_set(N, m)))


def wd_successors_needed(self, needed_cells, cell, result):
    return forall_nodes(lambda k: implies(succ(cell, k), in_set(N, k)))


def wd_added_are_closed(self, needed_cells, cell, result):
    """every address this call adds has all its dependants in the set on exit"""
    return forall_nodes(lambda m: implies(in_set(N, m) and not old_in_set(N, m),
                                          forall_nodes(lambda k: implies(succ(m, k), in_set(N, k)))))


def wd_frame(self, needed_cells, cell, result):
    return forall_nodes(lambda m: same_value(m) and same_formula(m))


def wd_inv_monotone(self, needed_cells, cell):
    return forall_nodes(lambda m: implies(old_in_set(N, m), in_set(N, m)))


def wd_inv_done_needed(self, needed_cells, cell):
    return forall_nodes(lambda k: implies(in_done(k), in_set(N, k)))


def wd_inv_added_closed(self, needed_cells, cell):
    return forall_nodes(lambda m: implies(in_set(N, m) and not old_in_set(N, m),
                                          forall_nodes(lambda k: implies(succ(m, k), in_set(N, k)))))


def wd_inv_frame(self, needed_cells, cell):
    return forall_nodes(lambda m: same_value(m) and same_formula(m))


# -- walk_precedents(cell): what the outputs need; cells outside the needed set are frozen to their value --------

def frozen_now(m):
    return not has_formula(m) and in_set(N, m) and not old_in_set(N, m) and not is_range(m)


def wp_monotone(self, needed_cells, processed_cells, cell, result):
    return forall_nodes(lambda m: implies(old_in_set(N, m), in_set(N, m)) and implies(old_in_set(P, m), in_set(P, m)))


def wp_reads_processed(self, needed_cells, processed_cells, cell, result):
    return forall_nodes(lambda p: implies(reads(p, cell), in_set(P, p)))


def wp_new_processed_closed(self, needed_cells, processed_cells, cell, result):
    """an address processed by this call is either frozen or has all the addresses it needs processed"""
    return forall_nodes(lambda m: implies(in_set(P, m) and not old_in_set(P, m),
                                          frozen_now(m) or forall_nodes(lambda p: implies(reads(p, m), in_set(P, p)))))


def wp_frozen_have_value(self, needed_cells, processed_cells, cell, result):
    """(c) a cell that loses its formula holds a value"""
    return forall_nodes(lambda m: implies(old_has_formula(m) and not has_formula(m), cached(m)))


def wp_formula_frame(self, needed_cells, processed_cells, cell, result):
    """(b) only cells outside the needed set that are not ranges lose their formula; nothing gains or changes one"""
    return forall_nodes(lambda m: implies(not same_formula(m),
                                          not old_in_set(N, m) and not is_range(m) and in_set(N, m) and not has_formula(m)
                                          and in_set(P, m) and not old_in_set(P, m)))


def wp_needed_grows_by_frozen_only(self, needed_cells, processed_cells, cell, result):
    return forall_nodes(lambda m: implies(in_set(N, m) and not old_in_set(N, m),
                                          in_set(P, m) and not old_in_set(P, m) and not has_formula(m) and not is_range(m)))


def wp_values_kept(self, needed_cells, processed_cells, cell, result):
    return forall_nodes(lambda m: implies(old_cached(m), same_value(m)))


def wp_inv_monotone(self, needed_cells, processed_cells, cell):
    return forall_nodes(lambda m: implies(old_in_set(N, m), in_set(N, m)) and implies(old_in_set(P, m), in_set(P, m)))


def wp_inv_done_processed(self, needed_cells, processed_cells, cell):
    return forall_nodes(lambda p: implies(in_done(p), in_set(P, p)))


def wp_inv_new_processed_closed(self, needed_cells, processed_cells, cell):
    return forall_nodes(lambda m: implies(in_set(P, m) and not old_in_set(P, m),
                                          frozen_now(m) or forall_nodes(lambda p: implies(reads(p, m), in_set(P, p)))))


def wp_inv_frozen_have_value(self, needed_cells, processed_cells, cell):
    return forall_nodes(lambda m: implies(old_has_formula(m) and not has_formula(m), cached(m)))


def wp_inv_formula_frame(self, needed_cells, processed_cells, cell):
    return forall_nodes(lambda m: implies(not same_formula(m),
                                          not old_in_set(N, m) and not is_range(m) and in_set(N, m) and not has_formula(m)
                                          and in_set(P, m) and not old_in_set(P, m)))


def wp_inv_needed_grows_by_frozen_only(self, needed_cells, processed_cells, cell):
    return forall_nodes(lambda m: implies(in_set(N, m) and not old_in_set(N, m),
                                          in_set(P, m) and not old_in_set(P, m) and not has_formula(m) and not is_range(m)))


def wp_inv_values_kept(self, needed_cells, processed_cells, cell):
    return forall_nodes(lambda m: implies(old_cached(m), same_value(m)))


CONTRACTS = [
    Contract(TRIM + '.walk_precedents', 'C08', heap=True, decreases='recursive',
             params=dict(self=HeapCompiler(cycles=False), needed_cells=HeapSet(N), processed_cells=HeapSet(P),
                         cell=HeapCell()),
             free_vars=('self', 'needed_cells', 'processed_cells'),
             bound_args=lambda names, args: ([args[names.index('cell')]], {}),
             ensures=[wp_monotone, wp_reads_processed, wp_new_processed_closed, wp_frozen_have_value, wp_formula_frame,
                      wp_needed_grows_by_frozen_only, wp_values_kept],
             returns=NoneT(),
             invariants={0: [wp_inv_monotone, wp_inv_done_processed, wp_inv_new_processed_closed, wp_inv_frozen_have_value,
                             wp_inv_formula_frame, wp_inv_needed_grows_by_frozen_only, wp_inv_values_kept]}),
    Contract(TRIM + '.walk_dependents', 'C08', heap=True, decreases='recursive',
             params=dict(self=HeapCompiler(cycles=False), needed_cells=HeapSet(N), cell=HeapCell()),
             free_vars=('self', 'needed_cells'),
             bound_args=lambda names, args: ([args[names.index('cell')]], {}),
             ensures=[wd_monotone, wd_successors_needed, wd_added_are_closed, wd_frame], returns=NoneT(),
             invariants={0: [wd_inv_monotone, wd_inv_done_needed, wd_inv_added_closed, wd_inv_frame]}),
]
LEMMAS = []


def _c08_workbooks(rnd, n, W):
    wbs = W.grammar(rnd, n)
    wbs += [
        # input -> OUT1 -> mid -> OUT2 ; helpers that do not depend on the input
        W.WB({'A1': 3, 'A2': 10}, {'B1': '=A1*2', 'C1': '=B1+1', 'D1': '=C1+H1', 'H1': '=A2*2', 'H2': '=H1-20',
                                   'E1': '=D1+H2'}, 'out-mid-out'),
        # helpers whose value is 0 / FALSE / ""
        W.WB({'A1': 1, 'A2': 10}, {'H1': '=A2-10', 'H2': '=A2>11', 'H3': '=IF(A2=10,"","x")', 'B1': '=A1+H1',
                                   'B2': '=IF(H2,A1,A1+1)', 'B3': '=H3&A1'}, 'falsy-helpers'),
        # buried input (a formula cell used as input), range input
        W.WB({'A1': 2, 'A2': 4, 'A3': 6}, {'B1': '=A1+1', 'C1': '=B1*2', 'D1': '=SUM(A1:A3)+C1', 'E1': '=D1+A3'}, 'buried'),
        # helper chain two deep below the frozen boundary
        W.WB({'A1': 5, 'Z1': 7}, {'Y1': '=Z1+1', 'Y2': '=Y1*2', 'B1': '=A1+Y2', 'C1': '=B1+Y1'}, 'deep-helpers'),
    ]
    return wbs


def bounded(tier, seed, R):
    import itertools
    import logging
    import random
    from contracts import wbgen as W
    logging.disable(logging.CRITICAL)
    rnd = random.Random(seed)
    thorough = tier == 'thorough'
    R.rule = ('workbooks from the shape grammar plus out-mid-out / falsy-helper / buried-input / deep-helper shapes, from in-memory '
              'and .xlsx origins, with and without prior evaluation: trim_graph(inputs, outputs) for input sets (single cells, '
              'pairs, a range, a buried formula cell) and output sets; then sequences of value assignments to the inputs applied '
              'to the trimmed and to an untrimmed model: every output agrees; again after to_file/from_file of the trimmed model')
    wbs = _c08_workbooks(rnd, 8 if not thorough else 24, W)
    R.bound = f'{len(wbs)} workbooks x <=6 (inputs, outputs) choices x 2 origins x 2 (pre-evaluated or not) x 3 assignments'
    pool = [0, 1, -3, 2.5, 10, 100]
    with W.TmpDir() as tmp:
        for wi, wb in enumerate(wbs):
            ins = [c for c in wb.inputs if isinstance(wb.inputs[c], (int, float)) and not isinstance(wb.inputs[c], bool)]
            fcells = list(wb.formulas)
            if not ins or not fcells:
                continue
            choices = []
            choices.append(([ins[0]], [fcells[-1]]))
            choices.append(([ins[0]], fcells[-2:]))
            if len(ins) > 1:
                choices.append((ins[:2], [fcells[-1]]))
                choices.append(([ins[-1]], [fcells[-1], fcells[0]]))
            choices.append(([ins[0]], fcells))                       # every formula cell is an output
            if len(fcells) > 2:
                choices.append(([ins[0], fcells[0]], [fcells[-1]]))   # a buried (formula) input
            for (I, O) in choices[:6 if not thorough else 12]:
                for origin in ('mem', 'xlsx'):
                    for pre in (False, True):
                        w = {'workbook': repr(wb), 'inputs': I, 'outputs': O, 'origin': origin, 'pre_evaluated': pre}
                        st = {}

                        def trim():
                            comp = W.obtain(wb, origin, tmp, f't{wi}')
                            if pre:
                                for c in wb.cells():
                                    comp.evaluate(W.addr(c))
                            comp.trim_graph([W.addr(c) for c in I], [W.addr(c) for c in O])
                            st['comp'] = comp
                            return True
                        if not R.guard('bounded/trim_runs', trim, w):
                            continue
                        comp = st['comp']
                        ref = W.compile_mem(wb)
                        for c in wb.cells():
                            ref.evaluate(W.addr(c))
                        assigns = [[rnd.choice(pool) for _ in I] for _ in range(3)]

                        feeds = set()
                        for o in O:
                            feeds |= _precedents(W, wb, o)

                        def compare(model, label):
                            for vals in assigns:
                                for c, v in zip(I, vals):
                                    if c in wb.inputs:          # (a buried input keeps its formula in the reference)
                                        ref.set_value(W.addr(c), v)
                                        if c not in feeds:
                                            continue            # no output reads it: trim_graph dropped it (with a warning)
                                        try:
                                            model.set_value(W.addr(c), v)
                                        except Exception as e:      # noqa
                                            R.check(f'bounded/inputs_settable_{label}', False,
                                                    dict(w, input=c, raised=f'{type(e).__name__}: {e}'[:200]))
                                for o in O:
                                    want = ref.evaluate(W.addr(o))
                                    try:
                                        got = model.evaluate(W.addr(o))
                                    except Exception as e:      # noqa
                                        got = f'raised {type(e).__name__}: {e}'[:200]
                                    R.check(f'bounded/outputs_agree_{label}', W.same(got, want),
                                            dict(w, assignment=dict(zip(I, vals)), output=o, got=got, want=want))
                        compare(comp, 'after_trim')
                        for fmt in (('yml',) if not thorough else ('yml', 'json', 'pkl')):
                            def reload():
                                import os
                                from pycel import ExcelCompiler
                                base = os.path.join(tmp, f'trim{wi}_model')
                                comp.to_file(base, file_types=(fmt,))
                                st['loaded'] = ExcelCompiler.from_file(base + '.' + fmt)
                                return True
                            if R.guard('bounded/save_load_runs', reload, dict(w, fmt=fmt)):
                                compare(st['loaded'], 'after_save_load')


def _precedents(W, wb, cell):
    reads = W.direct_reads(wb)
    seen, todo = set(), [cell]
    while todo:
        c = todo.pop()
        if c in seen:
            continue
        seen.add(c)
        todo.extend(reads.get(c, ()))
    return seen


LEVEL = 'other'
EXPLANATION = ('Mixed. PROVED by SMT (heap mode: address sets held in closure variables as heap fields, the formula field, '
               'abstract successor / needed-address sets, loop invariants with a ghost visited set, recursive calls discharged '
               'against the function\'s own contract, no transitive closure): walk_dependents - the set only grows, contains every '
               'dependant of the cell, and every address it adds has all its dependants in the set (so the needed set is closed '
               'under dependants of the inputs); walk_precedents - every address a processed node needs is processed unless the '
               'node was frozen; only cells outside the needed set that are not ranges lose their formula, a frozen cell holds a '
               'value (obligation (c): refuted on the pinned tree, repaired), cached values never change. BOUNDED (native): '
               'trim_graph as a whole (input validation, removal of unneeded cells) and the equivalence itself - trimmed vs '
               'untrimmed model under sequences of input assignments, again after save / load, over grammar workbooks and '
               'out-mid-out / falsy-helper / buried-input / deep-helper shapes, from in-memory and .xlsx origins.')
ASSUMPTIONS = ['A-NX', 'A-EVAL', 'A-MAP: cell_map holds the node of every address a graph node needs (built by _gen_graph)',
               'A-EVALUATE-CACHES: evaluate(address) fills in values of un-cached nodes only and leaves a formula cell with a '
               'value that is not None (not-None proved for eval_func in C09)',
               'address text <-> node is a bijection; ":" in address <=> range node (C11)',
               'the semantic lemma Sem\'(o) = Sem(o) (rank induction over the two closure contracts) is argued in DESIGN.md, '
               'not machine-checked; the stand-in checks its conclusion']
BOUNDED_FUNCTIONS = [
    Contract('pycel.excelcompiler:ExcelCompiler.trim_graph', 'C08', params={}, klass='BOUNDED',
             notes='top level: address normalisation, _gen_graph, input diagnostics, seeding the needed set with the outputs, '
                   'removal of unneeded cells from cell_map'),
]
