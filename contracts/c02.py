"""C02 - formula translation is meaning-preserving (precedence, associativity, literals)."""
try:
    from pycel.excelformula import Token
except ImportError:      # (the prover's interpreter resolves the name from the repository source)
    Token = None
from pyvc.spec import AnyObj, Const, Contract, Int, Lemma, Namespace, NoneT, Record, Str, Tuple, Union, implies

SYMBOLIC_TWINS = {}

# -- the precedence table against the grammar of the property (finite: every pair of operators) ------------------

GRAMMAR_LEVEL = {'=': 1, '<': 1, '>': 1, '<=': 1, '>=': 1, '<>': 1, '&': 2, '+': 3, '-': 3, '*': 4, '/': 4, '^': 5, '%': 6, 'u': 7}
OPS = tuple(GRAMMAR_LEVEL)


def grammar_yields_to(a, b):
    """operator a, arriving after b, lets b be applied first: b binds tighter, or as tight and a is left-associative.
    All binary operators and postfix % are left-associative; the sign (u) is a prefix operator: right-associative."""
    if GRAMMAR_LEVEL[a] < GRAMMAR_LEVEL[b]:
        return True
    return GRAMMAR_LEVEL[a] == GRAMMAR_LEVEL[b] and a != 'u'


def lem_table_is_the_grammar(a, b):
    return (Token.precedences[a] < Token.precedences[b]) == grammar_yields_to(a, b)


def lem_reference_operators_bind_tightest(a, r):
    """range, intersection and union bind tighter than every value operator"""
    return (Token.precedences[a] < Token.precedences[r]) and not (Token.precedences[r] < Token.precedences[a])


# -- emission: python's own precedences never decide ----------------------------------------------------------------

OPNODE = 'pycel.excelformula:OperatorNode'
PY = {'^': '**', '=': '==', '<>': '!='}


def py_op(op):
    return PY[op] if op in PY else op


def CHILD():
    return Namespace(emit=Str(maxlen=4))


def TOKEN(value, typ):
    return Namespace(value=value, type=Const(typ), subtype=Const(''))


def binary_emits_parenthesised(self, result):
    """a binary operator below another operator is emitted inside parentheses; at the top and directly below a function
    call (where commas delimit it) it may be emitted bare"""
    core = self._children[0].emit + ' ' + py_op(self.token.value) + ' ' + self._children[1].emit
    bare_allowed = self._parent is None or is_function_node(self._parent)
    return result == '(' + core + ')' or (bare_allowed and result == core)


def percent_emits_division(self, result):
    core = self._children[0].emit + ' / 100'
    bare_allowed = self._parent is None or is_function_node(self._parent)
    return result == '(' + core + ')' or (bare_allowed and result == core)


def prefix_emits_sign(self, result):
    """the sign is emitted in front of its operand; below ^ inside parentheses (python's ** binds tighter than its
    unary minus, the grammar's negation binds tighter than ^)"""
    core = self.token.value + self._children[0].emit
    below_power = self._parent is not None and not is_function_node(self._parent) and self._parent.token.value == '^'
    return result == '(' + core + ')' or (not below_power and result == core)


def is_function_node(n):
    return n.token.type == 'FUNC'


PARENTS = Union(NoneT(),
                Record(OPNODE, {'token': TOKEN(Const('^'), 'OPERATOR-INFIX')}),
                Record(OPNODE, {'token': TOKEN(Const('+'), 'OPERATOR-INFIX')}),
                Record(OPNODE, {'token': TOKEN(Const('-'), 'OPERATOR-PREFIX')}),
                Record('pycel.excelformula:FunctionNode', {'token': TOKEN(Const('SUM('), 'FUNC')}))


def OPCHILD():
    """an operand that is itself an operator node (its emitted text is all that matters)"""
    return Record(OPNODE, {'emit': Str(maxlen=4)})


def NODE(op_values, typ, nchildren, child=None):
    return Record(OPNODE, {'token': TOKEN(Union(*[Const(v) for v in op_values]), typ),
                           '_children': Tuple(*[(child or CHILD)() for _ in range(nchildren)], kind='list'),
                           '_parent': PARENTS, '_ast': AnyObj()})


CONTRACTS = [
    Contract(OPNODE + '.emit@getter', 'C02', name='OperatorNode.emit[binary]',
             params=dict(self=NODE(('+', '-', '*', '/', '^', '&', '=', '<>', '<', '>', '<=', '>='), 'OPERATOR-INFIX', 2)),
             ensures=[binary_emits_parenthesised]),
    Contract(OPNODE + '.emit@getter', 'C02', name='OperatorNode.emit[percent]',
             params=dict(self=NODE(('%',), 'OPERATOR-POSTFIX', 1)), ensures=[percent_emits_division]),
    Contract(OPNODE + '.emit@getter', 'C02', name='OperatorNode.emit[sign]',
             params=dict(self=NODE(('-', '+'), 'OPERATOR-PREFIX', 1)), ensures=[prefix_emits_sign]),
    Contract(OPNODE + '.emit@getter', 'C02', name='OperatorNode.emit[sign of an operator expression]',
             params=dict(self=NODE(('-', '+'), 'OPERATOR-PREFIX', 1, child=OPCHILD)), ensures=[prefix_emits_sign]),
]
LEMMAS = [
    Lemma('precedence_table_is_the_grammar', 'C02',
          dict(a=Union(*[Const(o) for o in OPS]), b=Union(*[Const(o) for o in OPS])), lem_table_is_the_grammar,
          notes='finite: all 14 x 14 pairs; Token.Precedence.__lt__ and the table are the real code'),
    Lemma('reference_operators_bind_tightest', 'C02',
          dict(a=Union(*[Const(o) for o in OPS]), r=Union(Const(':'), Const(' '), Const(','))),
          lem_reference_operators_bind_tightest),
]

# ---------------------------------------------------------------------------------------------------------
# reference semantics of the grammar (used by the stand-in): a formula is a tree; its value is obtained by applying
# pycel's own run-time operator semantics (excel_operator_operand_fixup: C10) at every node, so what is compared
# is parsing / precedence / emission only

PREC = {'=': 1, '<': 1, '>': 1, '<=': 1, '>=': 1, '<>': 1, '&': 2, '+': 3, '-': 3, '*': 4, '/': 4, '^': 5, '%': 6, 'neg': 7}
PY_OP = {'+': 'Add', '-': 'Sub', '*': 'Mult', '/': 'Div', '^': 'Pow', '&': 'BitAnd', '=': 'Eq', '<>': 'NotEq', '<': 'Lt',
         '>': 'Gt', '<=': 'LtE', '>=': 'GtE'}


def render(t, variant=0):
    """text of the tree with the parentheses the grammar needs (negation > % > ^ > * / > + - > & > comparisons, binary
    operators left-associative); variant 1 adds redundant parentheses and blanks, variant 2 lower-cases function names"""
    def prec(n):
        k = n[0]
        return {'lit': 9, 'ref': 9, 'call': 9, 'neg': 7, 'pos': 7, 'pct': 6}.get(k) or PREC[n[1]]

    def r(n):
        k = n[0]
        if k == 'lit' or k == 'ref':
            return n[1]
        if k == 'call':
            name = n[1].lower() if variant == 2 else n[1]
            sep = ', ' if variant == 1 else ','
            return f'{name}(' + sep.join(r(a) for a in n[2]) + ')'
        if k in ('neg', 'pos'):
            a = n[1]
            s = r(a)
            if prec(a) < 7 or a[0] in ('neg', 'pos'):      # (a second sign is written with parentheses)
                s = f'({s})'
            return ('-' if k == 'neg' else '+') + s
        if k == 'pct':
            a = n[1]
            s = r(a)
            if prec(a) < 6:
                s = f'({s})'
            return s + '%'
        op, a, b = n[1], n[2], n[3]
        sa, sb = r(a), r(b)
        if prec(a) < PREC[op]:
            sa = f'({sa})'
        if prec(b) <= PREC[op]:
            sb = f'({sb})'
        if variant == 1:
            return f'( {sa} {op} {sb} )' if PREC[op] > 2 else f'{sa} {op} {sb}'
        return f'{sa}{op}{sb}'
    return '=' + r(t)


def reference_value(t, env, fixup, funcs):
    k = t[0]
    if k == 'lit':
        return t[2]
    if k == 'ref':
        return env[t[1]]
    if k == 'call':
        return funcs[t[1]](*[reference_value(a, env, fixup, funcs) for a in t[2]])
    if k == 'neg':
        return fixup(None, 'USub', reference_value(t[1], env, fixup, funcs))
    if k == 'pos':
        return reference_value(t[1], env, fixup, funcs)      # unary plus is the identity (also on text)
    if k == 'pct':
        return fixup(reference_value(t[1], env, fixup, funcs), 'Div', 100)
    return fixup(reference_value(t[2], env, fixup, funcs), PY_OP[t[1]], reference_value(t[3], env, fixup, funcs))


def text_literal(chars):
    """the Excel text literal that denotes exactly these characters"""
    return '"' + chars.replace('"', '""') + '"'


TEXTS = ['\U0001F600', 'ok \U0001F600', '\U0001D4B3x', '\u6f22\u5b57', '\u00fc\u00df', 'a', '', 'a b', 'it"s', '"', '""', '"a"', 'a"', '"a', 'back\\slash', '\\', '\\n', 'end\\', 'new\nline', '{b}', '{', "q'q",
         '#', 'x=1', '\\"', '%d', 'tab\t']


def operands():
    ops = [('lit', '2', 2), ('lit', '3', 3), ('lit', '0.5', 0.5), ('lit', '10', 10), ('lit', 'TRUE', True),
           ('lit', 'FALSE', False), ('lit', '"a"', 'a'), ('lit', '"2"', '2'), ('lit', '#N/A', '#N/A'),
           ('ref', 'A1'), ('ref', 'A2'), ('ref', 'A3')]
    return ops


def trees(rnd, depth, n):
    """random trees of the given depth"""
    binops = list(PY_OP)
    out = []
    atoms = operands()

    def gen(d):
        if d == 0 or rnd.random() < 0.15:
            return rnd.choice(atoms)
        x = rnd.random()
        if x < 0.12:
            return ('neg', gen(d - 1))
        if x < 0.16:
            return ('pos', gen(d - 1))
        if x < 0.24:
            return ('pct', gen(d - 1))
        if x < 0.34:
            f = rnd.choice(['SUM', 'MAX', 'IF'])
            if f == 'IF':
                return ('call', 'IF', [gen(d - 1), gen(d - 1), gen(d - 1)])
            return ('call', f, [gen(d - 1), gen(d - 1)])
        return ('bin', rnd.choice(binops), gen(d - 1), gen(d - 1))
    for _ in range(n):
        out.append(gen(depth))
    return out


def exhaustive_depth2():
    """every operator applied to operands that are atoms or one-operator expressions over two numeric / text atoms"""
    atoms = [('lit', '2', 2), ('lit', '3', 3), ('lit', '"a"', 'a'), ('ref', 'A1')]
    binops = list(PY_OP)
    level1 = list(atoms)
    for op in binops:
        level1.append(('bin', op, atoms[0], atoms[1]))
        level1.append(('bin', op, atoms[3], atoms[2]))
    level1 += [('neg', atoms[0]), ('pct', atoms[1]), ('neg', atoms[3])]
    out = []
    for op in binops:
        for a in level1:
            for b in level1:
                out.append(('bin', op, a, b))
    for a in level1:
        out += [('neg', a), ('pct', a), ('pos', a)]
    return out


def same_value(a, b):
    if isinstance(a, bool) != isinstance(b, bool):
        return False
    if isinstance(a, (int, float)) and isinstance(b, (int, float)):
        if a == b:
            return True
        try:
            return abs(a - b) <= 1e-9 * max(abs(a), abs(b))
        except OverflowError:
            return False
    return type(a) is type(b) and a == b


def bounded(tier, seed, R):
    import logging
    import random
    from contracts import wbgen as W
    from pycel.excelutil import build_operator_operand_fixup
    logging.disable(logging.CRITICAL)
    rnd = random.Random(seed)
    thorough = tier == 'thorough'
    R.rule = ('formulas generated from trees over {unary -, unary +, postfix %, ^ * / + - & = <> < > <= >=, SUM / MAX / IF calls, '
              'number / text / logical / error literals, references}: rendered with exactly the parentheses the grammar needs (and '
              'with redundant parentheses / blanks, lower-case function names), compiled and evaluated by pycel, compared with the '
              'tree evaluated directly with pycel\'s own run-time operator semantics (so only parsing, precedence, associativity '
              'and emission are compared); exhaustive for all operator pairs at depth 2, sampled at depth 3-4; text literals over '
              'quotes, backslashes, newlines, braces compared character by character')
    fixup = build_operator_operand_fixup(lambda *a: None)
    env = {'A1': 5, 'A2': 'b', 'A3': 0.25}

    def xsum(*a):
        return fixup(a[0], 'Add', a[1]) if not any(isinstance(x, str) for x in a) else '#VALUE!'
    funcs = None

    def evaluate(formula):
        wb = W.WB(env, {'Z1': formula})
        comp = W.compile_mem(wb)
        return comp.evaluate('S!Z1')

    # reference implementations of the three functions through pycel itself (single call, no operators involved)
    def call(name):
        def f(*args):
            lits = []
            ins = dict(env)
            for i, a in enumerate(args):
                ins[f'Y{i + 1}'] = a
                lits.append(f'Y{i + 1}')
            wb = W.WB(ins, {'Z1': f'={name}(' + ','.join(lits) + ')'})
            return W.compile_mem(wb).evaluate('S!Z1')
        return f
    funcs = {n: call(n) for n in ('SUM', 'MAX', 'IF')}

    cases = [(t, 'depth-2 exhaustive') for t in exhaustive_depth2()]
    cases += [(t, 'depth-3 sample') for t in trees(rnd, 3, 300 if not thorough else 3000)]
    cases += [(t, 'depth-4 sample') for t in trees(rnd, 4, 100 if not thorough else 1500)]
    R.bound = f'{len(cases)} trees x up to 3 renderings; {len(TEXTS)} text literals x 4 contexts'
    for t, label in cases:
        try:
            want = reference_value(t, env, fixup, funcs)
        except Exception as e:      # noqa: the reference itself cannot evaluate (e.g. complex power): skip
            continue
        if isinstance(want, float) and want != want:
            continue
        for variant in ((0,) if label.startswith('depth-2') else (0, 1, 2)):
            f = render(t, variant)
            w = {'formula': f, 'tree': repr(t)[:300], 'class': label}
            try:
                got = evaluate(f)
            except Exception as e:      # noqa
                got = f'raised {type(e).__name__}: {e}'[:160]
            # a blank result is reported as 0 by the evaluator
            if want is None:
                want = 0
            R.check('bounded/value_equals_grammar_value', same_value(got, want), dict(w, got=repr(got), want=repr(want)))
    # literals denote themselves: exhaustively over an alphabet of awkward characters up to a length, then in contexts
    import itertools
    alphabet = ['a', '"', '\\', '\n', '{', "'", '%', '\U0001F600']
    for n in range(0, 4 if not thorough else 6):
        for tup in itertools.product(alphabet, repeat=n):
            chars = ''.join(tup)
            f = '=' + text_literal(chars)
            try:
                got = evaluate(f)
            except Exception as e:      # noqa
                got = f'raised {type(e).__name__}: {e}'[:160]
            R.check('bounded/text_literal_denotes_its_characters', got == chars or (chars == '' and got in ('', 0)),
                    {'formula': f, 'characters': chars, 'got': repr(got), 'want': repr(chars)})
    for chars in TEXTS:
        lit = text_literal(chars)
        for ctx, expect in ((f'={lit}', chars), (f'={lit}&"|"', chars + '|'), (f'=LEN({lit})', len(chars)),
                            (f'=IF(TRUE,{lit},"")', chars)):
            try:
                got = evaluate(ctx)
            except Exception as e:      # noqa
                got = f'raised {type(e).__name__}: {e}'[:160]
            R.check('bounded/text_literal_denotes_its_characters', same_value(got, expect if expect != '' or 'LEN' in ctx or '&' in ctx else 0)
                    or (expect == '' and got in ('', 0)),
                    {'formula': ctx, 'characters': chars, 'got': repr(got), 'want': repr(expect)})
    for lit, val in (('TRUE', True), ('FALSE', False), ('#N/A', '#N/A'), ('#DIV/0!', '#DIV/0!'), ('#REF!', '#REF!'),
                     ('1E3', 1000), ('1.5e-3', 0.0015), ('007', 7), ('00.50', 0.5), ('0', 0), ('0.0', 0.0), ('10', 10), ('.5', 0.5), ('12345678901234567890', 12345678901234567890)):
        try:
            got = evaluate('=' + lit)
        except Exception as e:      # noqa
            got = f'raised {type(e).__name__}: {e}'[:160]
        R.check('bounded/other_literals_denote_themselves', same_value(got, val), {'formula': '=' + lit, 'got': repr(got), 'want': repr(val)})


LEVEL = 'other'
EXPLANATION = ('Mixed. PROVED (finite, exhaustive; the real Token.precedences table and Token.Precedence.__lt__ executed symbolically): '
               'for all 14 x 14 pairs of value operators the parser\'s "yield to" relation is the grammar\'s (negation > % > ^ > * / > '
               '+ - > & > comparisons, binary and postfix left-associative, sign right-associative); range / intersection / union '
               'bind tighter than all of them. PROVED by SMT (strings): OperatorNode.emit - a binary operator or % below another '
               'operator is emitted inside parentheses (bare only at the top or directly below a function call), a sign is emitted '
               'in front of its operand and inside parentheses below ^: python\'s own precedences never decide the meaning. NOT '
               'within reach: the shunting-yard parser (_parse_to_rpn), tree building and python\'s parser - BOUNDED (native): '
               'formulas generated from trees (exhaustive over operator pairs at depth 2, sampled at depth 3-4, three renderings) '
               'compiled and evaluated by pycel against the tree evaluated directly with pycel\'s run-time operator semantics; text '
               'literals over quotes, backslashes, line breaks, braces character by character; logical / error / number literals.')
ASSUMPTIONS = ['A-PYTHON-GRAMMAR: a parenthesised expression, a call and an atom are parsed by python as one operand: TRUSTED',
               'string constants of openpyxl.formula.tokenizer.Token: literal values',
               'operator semantics at run time are those of excel_operator_operand_fixup (C10); the stand-in uses them as the oracle, '
               'so only parsing / precedence / emission are compared',
               'function calls in the generator: SUM, MAX, IF only']
BOUNDED_FUNCTIONS = [
    Contract('pycel.excelformula:ExcelFormula._parse_to_rpn', 'C02', params={}, klass='BOUNDED', notes='shunting-yard over a token list with a stack: loops over symbolic lists of tokens'),
    Contract('pycel.excelformula:ExcelFormula._build_ast', 'C02', params={}, klass='BOUNDED', notes='RPN to tree (networkx)'),
    Contract('pycel.excelformula:OperandNode.emit', 'C02', params={}, klass='BOUNDED', notes='text literal quoting: chains of str.replace are undecided in z3 and cvc5; bounded over an alphabet of awkward characters'),
    Contract('pycel.excelformula:Tokenizer._items', 'C02', params={}, klass='BOUNDED', notes='openpyxl tokenizer amended'),
]
