"""C15 - conditional aggregation (...IF / ...IFS) selects exactly the matching cells."""
from pyvc.spec import (Bool, Const, Contract, Float, Int, Lemma, NoneT, Str,
                       Tuple, Union, implies)

ERROR_CODES = ('#NULL!', '#DIV/0!', '#VALUE!', '#REF!', '#NAME?', '#NUM!', '#N/A')
VALUE_ERROR = '#VALUE!'
DIV0 = '#DIV/0!'


# -- the selection predicate of the property ------------------------------------------------------------------

def split_criteria(c):
    for p in ('<>', '<=', '>=', '=', '<', '>'):
        if c.startswith(p):
            return (p, c[len(p):])
    return ('', c)


def numeric(v):
    """the number a value stands for, or None (numbers, logicals, numeric text)"""
    from pycel.excelutil import coerce_to_number, is_number
    if v is None or not is_number(v):
        return None
    return coerce_to_number(v)


def apply_op(op, a, b):
    if op == '<':
        return a < b
    if op == '<=':
        return a <= b
    if op == '>':
        return a > b
    if op == '>=':
        return a >= b
    if op == '<>':
        return a != b
    return a == b


def selected(criteria, x):
    """does cell value x satisfy the criterion? (criteria without ? and * wildcards)"""
    if not isinstance(criteria, str) or numeric(criteria) is not None:
        # a numeric criterion: numeric equality
        c = numeric(criteria)
        return numeric(x) is not None and numeric(x) == c
    op, rest = split_criteria(criteria)
    if op in ('', '=') and numeric(rest) is not None:
        return numeric(x) is not None and numeric(x) == numeric(rest)
    if numeric(rest) is not None:
        # comparison with a number: text and blanks never satisfy <, >, =; always satisfy <>
        if isinstance(x, str) or x is None:
            return op == '<>'
        return apply_op(op, x, numeric(rest))
    # comparison with text, case-insensitive; only text cells can match
    t = rest.lower()
    if x is None:
        return (t == '') != (op == '<>')
    if not isinstance(x, str):
        return op == '<>'
    return apply_op(op, x.lower(), t)


def no_wildcards(criteria, x):
    if isinstance(criteria, str):
        return '*' not in criteria and '?' not in criteria and '\n' not in criteria
    return True


def post_check_total_and_exact(criteria, x, result):
    """the predicate built for the criterion is total on every cell value (evaluating it here must not
    raise) and is the selection predicate of the property"""
    return bool(result(x)) == selected(criteria, x)


def call_parser(criteria, x):
    from pycel.excelutil import criteria_parser
    return criteria_parser(criteria)


CP = 'pycel.excelutil:criteria_parser'
cell = Union(NoneT(), Bool(), Int(), Float(), Str())

CONTRACTS = [
    Contract(CP, 'C15', params=dict(criteria=Union(Int(), Float(), Str()), x=cell),
             requires=[no_wildcards], ensures=[post_check_total_and_exact], native_call='call_parser'),
]

LEMMAS = []
LEVEL = 'other'
EXPLANATION = 'C15'
ASSUMPTIONS = ['A-SUBSET']


# -- bounded stand-in: handle_ifs and the consumers against the selection predicate -----------------------------

def wildcard_match(pattern, text):
    """? = any one character, * = any run of characters, case-insensitive (independent oracle)"""
    p, t = pattern.lower(), text.lower()
    memo = {}

    def m(i, j):
        if (i, j) in memo:
            return memo[(i, j)]
        if i == len(p):
            r = j == len(t)
        elif p[i] == '*':
            r = m(i + 1, j) or (j < len(t) and m(i, j + 1))
        elif p[i] == '?':
            r = j < len(t) and m(i + 1, j + 1)
        else:
            r = j < len(t) and p[i] == t[j] and m(i + 1, j + 1)
        memo[(i, j)] = r
        return r
    return m(0, 0)


def selected_full(criteria, x):
    """selected() extended with ? / * wildcards for '=' / no operator / '<>' text criteria"""
    if isinstance(criteria, str) and ('*' in criteria or '?' in criteria):
        op, rest = split_criteria(criteria)
        if op in ('', '=', '<>') and numeric(rest) is None and numeric(criteria) is None:
            hit = isinstance(x, str) and wildcard_match(rest, x)
            return hit if op != '<>' else not hit
    return selected(criteria, x)


CELLS = [None, True, False, 0, 1, 5, -3, 2.5, 5.0, '', 'abc', 'ABC', 'abd', 'a*', 'xyz', '5', 'Thatcher', 'That',
         'th?t', '#N/A']
CRITERIA = [5, 2.5, 0, '5', '=5', '<>5', '>1', '<=2.5', '>=5', '<0', 'abc', '=abc', '<>abc', '>abc', '<=abd', '',
            '=', '<>', 'a*', '=a*', '<>a*', 'th?t', '*at', '?', '*', '<>*', 'ABC', '=ABC', True, '>=', 'x*z']


def bounded(tier, seed, R):
    import random
    from pycel import excellib as X
    from pycel.excelutil import criteria_parser, handle_ifs
    from pycel.lib import stats as ST
    rnd = random.Random(seed)
    thorough = tier == 'thorough'
    R.rule = ('every criterion of a grammar pool x every cell value of a typed pool through the real predicate; '
              'random ranges up to 4x3 x 1..3 (range, criterion) pairs through handle_ifs / COUNTIFS / SUMIFS / '
              'AVERAGEIFS / MAXIFS / MINIFS and the one-criterion IF forms against the selection predicate; criteria '
              'commute; "=x" and "<>x" partition; AVERAGEIFS = SUMIFS/COUNTIFS on numeric data; no exception')
    for c in CRITERIA:
        for x in CELLS:
            R.guard('criteria_parser/post#0:post_check_total_and_exact',
                    lambda: bool(criteria_parser(c)(x)) == selected_full(c, x), {'criteria': c, 'cell': x})
    # wildcard criteria exhaustively: every pattern up to length 3 (4 thorough) over {a, b, ?, *}, bare and behind = / <>,
    # against every text up to length 3 (4) over {a, B, ?} and a few non-text cells
    import itertools
    plen = 3 if not thorough else 4
    pats = [''.join(t) for k in range(1, plen + 1) for t in itertools.product('ab?*', repeat=k)]
    pats = [p_ for p_ in pats if '*' in p_ or '?' in p_]
    texts = [''.join(t) for k in range(0, plen + 1) for t in itertools.product('aB?', repeat=k)] + [5, None, True]
    for p_ in pats:
        for pre in ('', '=', '<>'):
            crit = pre + p_
            for x in texts:
                R.guard('bounded/wildcard_criteria_exhaustive',
                        lambda: bool(criteria_parser(crit)(x)) == selected_full(crit, x), {'criteria': crit, 'cell': x})
    shapes = [(1, 1), (1, 3), (3, 1), (2, 2), (4, 3)]
    n = 150 if not thorough else 4000
    R.bound = f'{len(CRITERIA)} criteria x {len(CELLS)} cells; {n} random (ranges, criteria) per shape {shapes}'
    for (r, c) in shapes:
        for _ in range(n):
            k = rnd.randint(1, 3)
            rngs = [tuple(tuple(rnd.choice(CELLS) for _ in range(c)) for _ in range(r)) for _ in range(k)]
            crits = [rnd.choice(CRITERIA) for _ in range(k)]
            vpool = [1, 2.5, -4, 10, 0, True, None, 'x'] + (['#N/A', '#DIV/0!'] if rnd.random() < 0.3 else [])
            vals = tuple(tuple(rnd.choice(vpool) for _ in range(c)) for _ in range(r))
            nums = tuple(tuple(rnd.choice([1, 2.5, -4, 10, 0]) for _ in range(c)) for _ in range(r))
            pos = [(i, j) for i in range(r) for j in range(c)
                   if all(selected_full(crits[q], rngs[q][i][j]) for q in range(k))]
            args = []
            for q in range(k):
                args += [rngs[q], crits[q]]
            w = {'ranges': rngs, 'criteria': crits, 'values': vals}
            R.guard('bounded/handle_ifs_positions', lambda: sorted(handle_ifs(tuple(args))) == pos, w)
            R.guard('bounded/countifs', lambda: ST.countifs(*args) == len(pos), w)
            sel = [vals[i][j] for i, j in pos]
            keep = [v for v in sel if isinstance(v, (int, float))]
            # an error value in a selected cell of the aggregated range is the result (the first one, as for SUM);
            # cells of any type never make the function fail
            err = next((v for v in sel if isinstance(v, str) and v.startswith('#')), None)
            R.guard('bounded/sumifs', lambda: X.sumifs(vals, *args) == (err if err else sum(keep)), w)
            R.guard('bounded/averageifs',
                    lambda: ST.averageifs(vals, *args) == (err if err else (sum(keep) / len(keep) if keep else DIV0)), w)
            R.guard('bounded/maxifs', lambda: ST.maxifs(vals, *args) == (err if err else (max(keep) if keep else 0)), w)
            R.guard('bounded/minifs', lambda: ST.minifs(vals, *args) == (err if err else (min(keep) if keep else 0)), w)
            # criteria commute
            rev = []
            for q in reversed(range(k)):
                rev += [rngs[q], crits[q]]
            R.guard('bounded/criteria_commute', lambda: ST.countifs(*rev) == ST.countifs(*args) and
                    X.sumifs(vals, *rev) == X.sumifs(vals, *args), w)
            # one pair: IFS = IF
            R.guard('bounded/ifs_equals_if', lambda: ST.countifs(rngs[0], crits[0]) == ST.countif(rngs[0], crits[0]) and
                    X.sumifs(vals, rngs[0], crits[0]) == X.sumif(rngs[0], crits[0], vals) and
                    ST.averageifs(vals, rngs[0], crits[0]) == ST.averageif(rngs[0], crits[0], vals), w)
            # numeric data: AVERAGEIFS = SUMIFS / COUNTIFS
            cnt = ST.countifs(*args)
            R.guard('bounded/average_is_sum_over_count',
                    lambda: ST.averageifs(nums, *args) == (X.sumifs(nums, *args) / cnt if cnt else DIV0), w)
            # "=x" / "<>x" partition the range
            x_ = rnd.choice(['abc', '5', 'a*', 'th?t', '', '2.5', 'ABC', '*', 'x*z'])
            R.guard('bounded/eq_ne_partition',
                    lambda: ST.countif(rngs[0], '=' + x_) + ST.countif(rngs[0], '<>' + x_) == r * c,
                    {'range': rngs[0], 'x': x_})
    # shape mismatch
    R.guard('bounded/shape_mismatch', lambda: ST.countifs(((1, 2),), 1, ((1,), (2,)), 1) == VALUE_ERROR, {})
    R.guard('bounded/shape_mismatch', lambda: X.sumifs(((1, 2, 3),), ((1, 2),), 1) == VALUE_ERROR, {})


LEVEL = 'other'
EXPLANATION = ('Mixed. PROVED (SMT): the predicate returned by criteria_parser, for every criterion without wildcards '
               '(numbers, numeric text, comparison prefix + number, comparison prefix + text; the operator prefix is split '
               'by the trusted model of OPERATORS_RE) and every cell value of every type, is total (never raises) and '
               'equals the selection predicate of the property (numeric comparison, text/blank never satisfy <,>,= against '
               'a number and always satisfy <>, case-insensitive text comparison, blank handling). BOUNDED (native, never '
               'counted as proved): wildcard criteria (compiled regular expressions), handle_ifs (Counter/chain over '
               'positions) and the SUMIFS/AVERAGEIFS/MAXIFS/MINIFS/COUNTIFS consumers, the IF = one-pair IFS law, '
               'commutation, the =x / <>x partition and AVERAGEIFS = SUMIFS/COUNTIFS, on random ranges up to 4x3.')
ASSUMPTIONS = ['A-SUBSET', 'A-RE (OPERATORS_RE, STAR_RE, QUESTION_MARK_RE as modelled)', 'A-STRNUM', 'A-CASE', 'A-FLOAT']
BOUNDED_FUNCTIONS = [
    Contract('pycel.excelutil:handle_ifs', 'C15', params={}, klass='BOUNDED',
             notes='collections.Counter / itertools.chain over 2-D position generators: outside the pipeline subset'),
    Contract('pycel.excelutil:build_wildcard_re', 'C15', params={}, klass='BOUNDED',
             notes='compiles a regular expression from the criterion text'),
]


def kf_numeric_text_cell(w):
    """the partition fails only through text cells that hold the criterion's number"""
    x = w.get('x')
    if numeric(x) is None:
        return False
    cells = [c for row in w.get('range', []) for c in row]
    return any(isinstance(c, str) and numeric(c) is not None and numeric(c) == numeric(x) for c in cells)
