"""C14 - aggregates over ranges follow Excel's counting rules."""
from pyvc.spec import (Bool, Const, Contract, Float, Int, Lemma, Nested, NoneT,
                       Str, Tuple, Union, implies)

ERROR_CODES = ('#NULL!', '#DIV/0!', '#VALUE!', '#REF!', '#NAME?', '#NUM!', '#N/A')
DIV0 = '#DIV/0!'
VALUE_ERROR = '#VALUE!'

SYMBOLIC_TWINS = {
    'leaves': 'pyvc.pipes:sx_leaves',
}


# -- spec vocabulary: one text, executed natively on tuples and symbolically on pipelines ---------------

def leaves(args):
    """row-major cells of an argument list of scalars and rectangular ranges"""
    out = []

    def walk(x):
        if isinstance(x, (tuple, list)):
            for y in x:
                walk(y)
        else:
            out.append(x)
    walk(args)
    return tuple(out)


def is_err(x):
    return isinstance(x, str) and x in ERROR_CODES


def first_error(cells):
    return next((x for x in cells if is_err(x)), None)


def numeric_cells(cells):
    """exactly the numeric cells: text, logicals and blanks are ignored"""
    return tuple(x for x in cells if isinstance(x, (int, float)) and not isinstance(x, bool))


def numeric_cells_keep_bools(cells):
    return tuple(x for x in cells if isinstance(x, (int, float)))


# -- contracts ------------------------------------------------------------------------------------------------------

def post_numerics(args, keep_bools, result):
    cells = leaves(args)
    e = first_error(cells)
    if e is not None:
        return result == e
    if keep_bools:
        return result == numeric_cells_keep_bools(cells)
    return result == numeric_cells(cells)


def post_sum(args, result):
    cells = leaves(args)
    e = first_error(cells)
    if e is not None:
        return result == e
    return result == sum(numeric_cells(cells))


def post_average(args, result):
    cells = leaves(args)
    e = first_error(cells)
    if e is not None:
        return result == e
    nums = numeric_cells(cells)
    if len(nums) == 0:
        return result == DIV0
    return result == sum(nums) / len(nums)


def post_max(args, result):
    cells = leaves(args)
    e = first_error(cells)
    if e is not None:
        return result == e
    nums = numeric_cells(cells)
    if len(nums) == 0:
        return result == 0
    return result == max(nums)


def post_min(args, result):
    cells = leaves(args)
    e = first_error(cells)
    if e is not None:
        return result == e
    nums = numeric_cells(cells)
    if len(nums) == 0:
        return result == 0
    return result == min(nums)


def post_count(args, result):
    """COUNT counts the numeric cells; error values are not propagated by COUNT"""
    return result == len(numeric_cells(leaves(args)))


X = 'pycel.excellib:'
ST = 'pycel.lib.stats:'

CONTRACTS = [
    Contract(X + '_numerics', 'C14', params=dict(args=Nested(), keep_bools=Union(Const(False), Const(True))),
             ensures=[post_numerics]),
    Contract(X + 'sum_', 'C14', params=dict(args=Nested()), ensures=[post_sum]),
    Contract(ST + 'average', 'C14', params=dict(args=Nested()), ensures=[post_average]),
    Contract(ST + 'max_', 'C14', params=dict(args=Nested()), ensures=[post_max]),
    Contract(ST + 'min_', 'C14', params=dict(args=Nested()), ensures=[post_min]),
    Contract(ST + 'count', 'C14', params=dict(args=Nested()), ensures=[post_count]),
]



def call_numerics(args, keep_bools):
    from pycel.excellib import _numerics
    return _numerics(args, keep_bools=keep_bools)


CONTRACTS[0].native_call = 'call_numerics'


# -- SUBTOTAL(n, ...) names the aggregate at compile time (finite table) ---------------------------------------

SUBTOTAL_NAMES = {1: 'average', 2: 'count', 4: 'max_', 5: 'min_', 9: 'sum_'}


def post_subtotal(self, result):
    n = int(self.children[0].emit)
    if n > 100:
        n = n - 100
    return result == SUBTOTAL_NAMES[n] + '(' + self.children[1].emit + ')'


def call_subtotal(self):
    from pycel.excelformula import ExcelFormula
    f = ExcelFormula('=SUBTOTAL(' + self.children[0].emit + ',' + 'A1:B2)')
    return f.python_code.replace('_R_("A1:B2")', self.children[1].emit)


def mk_fn_node(children=None):
    import types
    return types.SimpleNamespace(children=children)


def mk_child(emit=None):
    import types
    return types.SimpleNamespace(emit=emit)


from pyvc.spec import Record  # noqa: E402

CONTRACTS.append(
    Contract('pycel.excelformula:FunctionNode.func_subtotal', 'C14', klass='FINITE',
             params=dict(self=Record('pycel.excelformula:FunctionNode', dict(children=Tuple(
                 Record('pycel.excelformula:ASTNode',
                        dict(emit=Union(*[Const(str(n)) for n in (1, 2, 4, 5, 9, 101, 102, 104, 105, 109)])),
                        build=mk_child),
                 Record('pycel.excelformula:ASTNode', dict(emit=Str()), build=mk_child))), build=mk_fn_node)),
             ensures=[post_subtotal], native_call='call_subtotal'))

LEMMAS = []
LEVEL = 'other'
EXPLANATION = ('Mixed. PROVED for ranges of ANY size and shape (no bound on the number of cells): _numerics, SUM, AVERAGE, '
               'MAX, MIN, COUNT are symbolically executed with the argument list as an abstract sequence of dynamically '
               'typed cells; the code and the property\'s counting rule (first error value wins; only numeric cells, no '
               'text / logicals / blanks; #DIV/0! or 0 when nothing is numeric) are both filter/map pipelines over that '
               'sequence, compared by one pointwise SMT obligation per cell type, and their folds are equal because the '
               'pipelines are (A-FOLD). SUBTOTAL dispatch: finite table, complete. BOUNDED (native): the invariance laws '
               '(permutation, reshape, additivity, AVERAGE = SUM/COUNT), SUMPRODUCT (numpy), flatten on small shapes, '
               'numpy scalar cells.')
ASSUMPTIONS = ['A-SUBSET', 'A-FOLD: folds of pointwise-equal pipelines are equal; sum/len of nothing are 0',
               'A-FLATTEN: flatten(args) yields the leaves row-major', 'A-FLOAT', 'A-NP: numpy for SUMPRODUCT']


# -- bounded stand-in -------------------------------------------------------------------------------------------------

POOL = [None, True, False, 0, 1, -2, 3.5, 1e-9, 'a', '', '7', '#N/A', '#DIV/0!', '#VALUE!']


def bounded(tier, seed, R):
    import itertools
    import random
    import numpy as np
    from pycel import excellib as X
    from pycel.excelutil import flatten
    from pycel.lib import stats as ST_
    rnd = random.Random(seed)
    thorough = tier == 'thorough'
    R.rule = ('ranges of every shape up to 3x3 (thorough 4x4) over a typed cell pool incl. two different error values '
              'and numpy scalars: the contracts of SUM/AVERAGE/MIN/MAX/COUNT/_numerics; invariance under a random '
              'permutation and a reshape; SUM additive over a split; AVERAGE = SUM/COUNT; SUBTOTAL(n) = named function; '
              'SUMPRODUCT = sum of pointwise products with non-numbers as 0; flatten = leaves')
    shapes = [(r, c) for r in range(1, 4 if not thorough else 5) for c in range(1, 4 if not thorough else 5)]
    pool = POOL + [np.float64(2.5), np.int64(4)]
    n_per = 120 if not thorough else 1500
    fns = (('sum_/post#0:post_sum', X.sum_, post_sum), ('average/post#0:post_average', ST_.average, post_average),
           ('max_/post#0:post_max', ST_.max_, post_max), ('min_/post#0:post_min', ST_.min_, post_min),
           ('count/post#0:post_count', ST_.count, post_count))
    R.bound = f'shapes {shapes}, {n_per} random fillings each, pool of {len(pool)} cell values'
    for (r, c) in shapes:
        for _ in range(n_per):
            cells = [rnd.choice(pool) for _ in range(r * c)]
            if rnd.random() < 0.5:
                cells = [x for x in cells if not is_err(x)] or [1]
                cells = (cells * (r * c))[:r * c]
            rng = tuple(tuple(cells[i * c:(i + 1) * c]) for i in range(r))
            w = {'range': rng}
            R.guard('bounded/flatten_is_leaves', lambda: tuple(flatten((rng,))) == leaves((rng,)), w)
            for name, f, post in fns:
                R.guard(name, lambda: post((rng,), f(rng)), w)
                # reshape / permutation invariance on error-free data (first error is position dependent)
                if not any(is_err(x) for x in cells):
                    perm = cells[:]
                    rnd.shuffle(perm)
                    flat = (tuple(perm),)
                    col = tuple((x,) for x in cells)
                    R.guard('bounded/permutation_reshape_invariant',
                            lambda: close(f(rng), f(flat)) and close(f(rng), f(col)), w)
            if not any(is_err(x) for x in cells):
                k = rnd.randint(0, len(cells))
                a, b = tuple(cells[:k]), tuple(cells[k:])
                R.guard('bounded/sum_additive', lambda: close(X.sum_(rng), X.sum_((a,)) + X.sum_((b,))), w)
                cnt = ST_.count(rng)
                R.guard('bounded/average_is_sum_over_count',
                        lambda: ST_.average(rng) == (DIV0 if cnt == 0 else X.sum_(rng) / cnt), w)
            R.guard('_numerics/post#0:post_numerics', lambda: post_numerics((rng,), False, X._numerics(rng)), w)
            R.guard('_numerics/post#0:post_numerics',
                    lambda: post_numerics((rng,), True, X._numerics(rng, keep_bools=True)), w)
            # SUMPRODUCT of two equally shaped ranges
            cells2 = [rnd.choice(pool) for _ in range(r * c)]
            rng2 = tuple(tuple(cells2[i * c:(i + 1) * c]) for i in range(r))

            def sp():
                got = X.sumproduct(rng, rng2)
                e = first_error(leaves((rng, rng2)))
                if e is not None:
                    return got == e
                nz = lambda x: x if isinstance(x, (int, float)) and not isinstance(x, bool) else 0
                return close(got, sum(nz(x) * nz(y) for x, y in zip(cells, cells2)))
            R.guard('bounded/sumproduct', sp, {'a': rng, 'b': rng2})

            def sp_counted():
                # the result is a cell value like any other: a range holding it counts it as a number
                got = X.sumproduct(rng, rng2)
                if is_err(got):
                    return True
                return ST_.count(((got, 1),)) == 2 and close(X.sum_(((got, 1),)), got + 1)
            R.guard('bounded/sumproduct_result_is_a_number', sp_counted, {'a': rng, 'b': rng2})
    big = 4000000000
    R.guard('bounded/sumproduct', lambda: X.sumproduct(((big,),), ((big,),)) == big * big, {'a': big, 'b': big})
    R.guard('bounded/sumproduct', lambda: X.sumproduct(((1, 2),), ((1,), (2,))) == VALUE_ERROR, {'shapes': 'mismatch'})
    # SUBTOTAL through the compiler
    from pycel.excelformula import ExcelFormula
    for n, fn in SUBTOTAL_NAMES.items():
        for k in (n, n + 100):
            R.guard('FunctionNode.func_subtotal/post#0:post_subtotal',
                    lambda: ExcelFormula(f'=SUBTOTAL({k},A1:B2)').python_code == f'{fn}(_R_("A1:B2"))', {'n': k})


def close(a, b):
    if isinstance(a, str) or isinstance(b, str):
        return a == b
    return abs(a - b) <= 1e-9 * max(1.0, abs(a), abs(b))
