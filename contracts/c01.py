"""C01 - lazy cache coherence: heap contracts on _reset / set_value (pycel.excelcompiler)."""
from pyvc.heapspec import (cached, cell_at, computed, forall_nodes, has_formula, holds_f, in_done, in_map, is_range, is_unbounded,
                           old_cached,
                           reads, same_node, same_value, succ, value_is)
from pyvc.spec import (ERROR_CODES, Const, Contract, HeapCell, HeapCompiler, Lemma, NoneT, OpaqueV, Str, Union,
                       implies)

SYMBOLIC_TWINS = {}


# -- _reset(cell): the local closure contract (no transitive closure anywhere) -----------------------------

def reset_uncaches_cell(self, cell, unread_range, result):
    return not cached(cell)


def reset_monotone(self, cell, unread_range, result):
    """nothing un-cached becomes cached"""
    return forall_nodes(lambda m: implies(not old_cached(m), not cached(m)))


def reset_keeps_values(self, cell, unread_range, result):
    """a node that is still cached holds the value it had"""
    return forall_nodes(lambda m: implies(cached(m), same_value(m)))


def reset_closed(self, cell, unread_range, result):
    """every node this call un-caches has only un-cached successors on exit"""
    return forall_nodes(lambda m: implies(old_cached(m) and not cached(m),
                                          forall_nodes(lambda k: implies(succ(m, k), not cached(k)))))


def reset_closed_through_unread_ranges(self, cell, unread_range, result):
    """... and so has every RANGE successor of such a node: a range that a formula only refers to (an intersection)
    can be un-cached while the formula holds a value - the reset does not stop there"""
    return forall_nodes(lambda m: implies(
        old_cached(m) and not cached(m),
        forall_nodes(lambda r: implies(succ(m, r) and is_range(r),
                                       forall_nodes(lambda k: implies(succ(r, k), not cached(k)))))))


def reset_unread_range_is_closed(self, cell, unread_range, result):
    """called for an un-read range: its own successors are un-cached on exit, whether or not it held a value"""
    return implies(unread_range, forall_nodes(lambda k: implies(succ(cell, k), not cached(k))))


def pre_reset(self, cell, unread_range):
    return implies(unread_range, is_range(cell))


# loop invariant of `for child_cell in self.dep_graph.successors(cell)` (loop 0 of _reset)

def inv_closed_through_ranges_except_cell(self, cell, unread_range):
    return forall_nodes(lambda m: implies(
        old_cached(m) and not cached(m) and not same_node(m, cell),
        forall_nodes(lambda r: implies(succ(m, r) and is_range(r),
                                       forall_nodes(lambda k: implies(succ(r, k), not cached(k)))))))


def inv_done_ranges_closed(self, cell, unread_range):
    """the successors already visited that are ranges have only un-cached successors"""
    return forall_nodes(lambda r: implies(in_done(r) and is_range(r),
                                          forall_nodes(lambda k: implies(succ(r, k), not cached(k)))))


def inv_cell_uncached(self, cell, unread_range):
    return not cached(cell)


def inv_monotone(self, cell, unread_range):
    return forall_nodes(lambda m: implies(not old_cached(m), not cached(m)))


def inv_keeps_values(self, cell, unread_range):
    return forall_nodes(lambda m: implies(cached(m), same_value(m)))


def inv_closed_except_cell(self, cell, unread_range):
    return forall_nodes(lambda m: implies(old_cached(m) and not cached(m) and not same_node(m, cell),
                                          forall_nodes(lambda k: implies(succ(m, k), not cached(k)))))


def inv_done_uncached(self, cell, unread_range):
    """the successors already visited are un-cached"""
    return forall_nodes(lambda k: implies(in_done(k), not cached(k)))


RESET = 'pycel.excelcompiler:ExcelCompiler._reset'

CONTRACTS = [
    Contract(RESET, 'C01', heap=True, decreases='recursive',
             params=dict(self=HeapCompiler(cycles=False, evaluating=[]), cell=HeapCell(),
                         unread_range=Union(Const(False), Const(True))),
             requires=[pre_reset],
             ensures=[reset_uncaches_cell, reset_monotone, reset_keeps_values, reset_closed,
                      reset_closed_through_unread_ranges, reset_unread_range_is_closed],
             returns=NoneT(),
             invariants={0: [inv_cell_uncached, inv_monotone, inv_keeps_values, inv_closed_except_cell,
                             inv_done_uncached, inv_closed_through_ranges_except_cell, inv_done_ranges_closed]}),
]



# -- set_value(address, value) on an input cell: re-establishes the invariant Local -------------------------

def local_precedents_cached():
    """Local(i): every cached computed node has all its COMPUTED read-precedents cached (a constant that is blank holds
    None without being un-cached: there is nothing to compute, and _reset starts from the cell that is set)"""
    return forall_nodes(lambda d: implies(cached(d) and computed(d),
                                          forall_nodes(lambda p: implies(reads(p, d) and computed(p), cached(p)))))


def local_values_are_f():
    """Local(ii): the cached value of a computed node is F(node, current values)"""
    return forall_nodes(lambda d: implies(cached(d) and computed(d), holds_f(d)))


def reads_are_edges():
    """Edges: every read-precedent has an edge to its dependant in dep_graph"""
    return forall_nodes(lambda p: forall_nodes(lambda d: implies(reads(p, d), succ(p, d))))


def pre_set_value(self, address, value, set_as_range):
    return (in_map(address) and not computed(cell_at(address)) and
            local_precedents_cached() and local_values_are_f() and reads_are_edges())


def sv_writes_value(self, address, value, set_as_range, result):
    """the cell holds exactly the value written (0 / FALSE, 1 / TRUE are different values)"""
    return value_is(cell_at(address), value)


def sv_frame(self, address, value, set_as_range, result):
    """no other node gets cached or changes its cached value"""
    c = cell_at(address)
    return forall_nodes(lambda m: implies(not same_node(m, c),
                                          implies(not old_cached(m), not cached(m)) and
                                          implies(cached(m), same_value(m))))


def sv_keeps_local_i(self, address, value, set_as_range, result):
    return local_precedents_cached()


def sv_keeps_local_ii(self, address, value, set_as_range, result):
    return local_values_are_f()


SET_VALUE = 'pycel.excelcompiler:ExcelCompiler.set_value'

CONTRACTS.append(
    Contract(SET_VALUE, 'C01', heap=True,
             params=dict(self=HeapCompiler(cycles=False), address=Str(), value=OpaqueV(),
                         set_as_range=Const(False)),
             requires=[pre_set_value],
             ensures=[sv_writes_value, sv_frame, sv_keeps_local_i, sv_keeps_local_ii],
             modular=[RESET]))


# -- _evaluate(address): computes a missing value from cached precedents, keeps every cached value and Local -------

EVALUATE = 'pycel.excelcompiler:ExcelCompiler._evaluate'
EVALUATE_RANGE = 'pycel.excelcompiler:ExcelCompiler._evaluate_range'


def computed_iff_formula_or_range():
    """the vocabulary of C01 tied to the fields the code tests: a node is computed iff it is a range node or a cell with
    a formula"""
    return forall_nodes(lambda m: computed(m) == (has_formula(m) or is_range(m)))


def no_self_reads():
    return forall_nodes(lambda m: not reads(m, m))


def graph_shape():
    """structure of the model: only computed nodes (formula cells, ranges) read anything; the members of a range are
    cells, not unbounded references"""
    return forall_nodes(lambda d: forall_nodes(lambda p: implies(reads(p, d), computed(d) and implies(is_range(d),
                                                                                                 not is_unbounded(p)))))


def pre_evaluate(self, address):
    """(an unbounded reference - A:A - is a cell whose formula names the bounded range: a computed reference, outside
    this contract)"""
    return (in_map(address) and not is_unbounded(cell_at(address)) and local_precedents_cached() and local_values_are_f()
            and computed_iff_formula_or_range() and no_self_reads() and graph_shape())


def ev_returns_the_cell_value(self, address, result):
    return value_is(cell_at(address), result)


def ev_keeps_cached_values(self, address, result):
    return forall_nodes(lambda m: implies(old_cached(m), same_value(m)))


def ev_keeps_local_i(self, address, result):
    return local_precedents_cached()


def ev_keeps_local_ii(self, address, result):
    return local_values_are_f()


def ev_computed_cell_is_cached_and_is_f(self, address, result):
    """after evaluate a computed cell holds a value, and it is what its formula yields from the current values of
    its precedents (with Local and acyclicity: the from-scratch value)"""
    c = cell_at(address)
    return implies(computed(c), cached(c) and holds_f(c))


def ev_no_dependant_newly_cached(self, address, result):
    """evaluating a cell computes none of the nodes that read it (they need its value first: Local(i) while it is
    un-cached, and the model is acyclic)"""
    c = cell_at(address)
    return forall_nodes(lambda d: implies(reads(c, d) and cached(d), old_cached(d)))


# what holds across the nested evaluations a formula makes (the same clauses, used as induction hypothesis)
def evf_keeps_cached_values(self, address):
    return forall_nodes(lambda m: implies(old_cached(m), same_value(m)))


def evf_keeps_local_i(self, address):
    return local_precedents_cached()


def evf_keeps_local_ii(self, address):
    return local_values_are_f()


def er_post(self, address, result):
    c = cell_at(address)
    return (forall_nodes(lambda m: implies(old_cached(m), same_value(m))) and local_precedents_cached()
            and local_values_are_f() and cached(c) and holds_f(c))


def pre_evaluate_range(self, address):
    """a range node of the model that is neither an unbounded reference (its value is that of the bounded range its
    formula names: a computed reference) nor unknown to the model"""
    c = cell_at(address)
    return (in_map(address) and address not in ERROR_CODES and is_range(c) and not is_unbounded(c)
            and graph_shape() and local_precedents_cached() and local_values_are_f() and computed_iff_formula_or_range() and no_self_reads())


def er_returns_the_range_value(self, address, result):
    return value_is(cell_at(address), result)


def er_keeps_cached_values(self, address, result):
    return forall_nodes(lambda m: implies(old_cached(m), same_value(m)))


def er_keeps_local_i(self, address, result):
    return local_precedents_cached()


def er_keeps_local_ii(self, address, result):
    return local_values_are_f()


def er_range_is_cached_and_is_f(self, address, result):
    c = cell_at(address)
    return cached(c) and holds_f(c)


# the comprehension over the members of the range (key 'members'): done = members already evaluated
def mem_keeps_cached_values(self, address):
    return forall_nodes(lambda m: implies(old_cached(m), same_value(m)))


def mem_keeps_local_i(self, address):
    return local_precedents_cached()


def mem_keeps_local_ii(self, address):
    return local_values_are_f()


def mem_done_are_cached_or_blank_constants(self, address):
    """a member that was evaluated holds a value, unless it is a constant cell that is blank"""
    return forall_nodes(lambda p: implies(in_done(p) and computed(p), cached(p)))


def mem_range_still_uncached(self, address):
    return not cached(cell_at(address))


EV_FRAME = [evf_keeps_cached_values, evf_keeps_local_i, evf_keeps_local_ii]

# _evaluate as used by _evaluate_range (same clauses as its own contract; mutual recursion, partial correctness)
EVALUATE_FOR_RANGE = Contract(EVALUATE, 'C01', heap=True, params=dict(self=HeapCompiler(cycles=False), address=Str()),
                              requires=[pre_evaluate],
                              ensures=[ev_returns_the_cell_value, ev_keeps_cached_values, ev_keeps_local_i, ev_keeps_local_ii,
                                       ev_computed_cell_is_cached_and_is_f, ev_no_dependant_newly_cached],
                              returns=OpaqueV(allow_none=True), modifies=('value',), name='ExcelCompiler._evaluate[contract]')

ASSUMED = []

EVALUATE_RANGE_CONTRACT = Contract(
    EVALUATE_RANGE, 'C01', heap=True, modular=[EVALUATE_FOR_RANGE], modifies=('value',),
    params=dict(self=HeapCompiler(cycles=False, evaluating=EV_FRAME), address=Str()),
    requires=[pre_evaluate_range],
    ensures=[er_returns_the_range_value, er_keeps_cached_values, er_keeps_local_i, er_keeps_local_ii,
             er_range_is_cached_and_is_f, ev_no_dependant_newly_cached],
    returns=OpaqueV(),
    invariants={'members': [mem_keeps_cached_values, mem_keeps_local_i, mem_keeps_local_ii,
                            mem_done_are_cached_or_blank_constants, mem_range_still_uncached]},
    notes='formula-less range: every member is evaluated (comprehension cut at invariants), the table of their values is '
          'F(range, values) by definition; CSE range: the array formula is evaluated like a cell formula; unbounded '
          'references are excluded (computed reference)')
CONTRACTS.append(EVALUATE_RANGE_CONTRACT)

CONTRACTS.append(
    Contract(EVALUATE, 'C01', heap=True, modular=[EVALUATE_RANGE], modifies=('value',),
             params=dict(self=HeapCompiler(cycles=False, evaluating=[evf_keeps_cached_values, evf_keeps_local_i,
                                                                    evf_keeps_local_ii]),
                         address=Str()),
             requires=[pre_evaluate],
             ensures=[ev_returns_the_cell_value, ev_keeps_cached_values, ev_keeps_local_i, ev_keeps_local_ii,
                      ev_computed_cell_is_cached_and_is_f, ev_no_dependant_newly_cached],
             notes='nested evaluations made by the compiled formula are covered by the frame clauses of this very '
                   'contract (induction on recursion depth; acyclic model)'))

LEMMAS = []
LEVEL = 'other'
EXPLANATION = 'C01'
ASSUMPTIONS = ['A-SUBSET', 'A-NX']


# -- bounded stand-in: histories on small workbooks + the same contracts checked at run time -------------------

def install_runtime_contracts(R):
    """wrap the real set_value / _reset: snapshot the heap, run, evaluate the contract clauses natively"""
    from pycel import excelcompiler as EC
    from pyvc import heapspec as HS
    real_set_value = EC.ExcelCompiler.set_value
    real_reset = EC.ExcelCompiler._reset
    depth = {'reset': 0}

    def set_value(self, address, value, set_as_range=False):
        from pycel.excelutil import list_like
        simple = (not list_like(value) and not set_as_range and isinstance(address, str) and
                  address in self.cell_map and not self.cycles and
                  not HS.computed(self.cell_map[address]))
        if simple:
            HS.snapshot(self)
            pre_ok = local_precedents_cached() and reads_are_edges()
        r = real_set_value(self, address, value, set_as_range)
        if simple and pre_ok:
            w = {'address': address, 'value': value}
            R.guard('ExcelCompiler.set_value/post#0:sv_writes_value',
                    lambda: sv_writes_value(self, address, value, False, r), w)
            R.guard('ExcelCompiler.set_value/post#1:sv_frame', lambda: sv_frame(self, address, value, False, r), w)
            R.guard('ExcelCompiler.set_value/post#2:sv_keeps_local_i',
                    lambda: sv_keeps_local_i(self, address, value, False, r), w)
            R.guard('ExcelCompiler.set_value/post#3:sv_keeps_local_ii',
                    lambda: sv_keeps_local_ii(self, address, value, False, r), w)
        return r

    def _reset(self, cell, unread_range=False):
        outer = depth['reset'] == 0
        if outer:
            saved = (HS.CURRENT.compiler, HS.CURRENT.old)
            HS.snapshot(self)
        depth['reset'] += 1
        try:
            return real_reset(self, cell, unread_range)
        finally:
            depth['reset'] -= 1
            if outer:
                w = {'cell': str(cell.address)}
                R.guard('ExcelCompiler._reset/post', lambda: reset_uncaches_cell(self, cell, unread_range, None) and
                        reset_monotone(self, cell, unread_range, None) and reset_keeps_values(self, cell, unread_range, None) and
                        reset_closed(self, cell, unread_range, None) and
                        reset_closed_through_unread_ranges(self, cell, unread_range, None) and
                        reset_unread_range_is_closed(self, cell, unread_range, None), w)
                HS.CURRENT.compiler, HS.CURRENT.old = saved

    EC.ExcelCompiler.set_value = set_value
    EC.ExcelCompiler._reset = _reset


def bounded(tier, seed, R):
    import logging
    import random
    from contracts import wbgen as W
    logging.disable(logging.CRITICAL)
    rnd = random.Random(seed)
    thorough = tier == 'thorough'
    n_wb, n_hist, length = (24, 6, 5) if not thorough else (64, 30, 7)
    R.rule = (f'{n_wb} workbooks from the shape grammar (chains, diamonds, ranges incl. blanks, nested ranges, whole-column '
              f'references, text/logical formulas, independent parts) x 5 origins (in-memory, .xlsx with stored results, '
              f'yml, json, pkl) x {n_hist} random set_value/evaluate histories of length {length} over a value pool with '
              'blank, 0/FALSE, 1/TRUE, text, floats: every evaluate is compared with a from-scratch compile; the contracts '
              'of set_value / _reset are evaluated on the real heap after every call')
    R.bound = f'workbooks={n_wb} histories={n_hist} length={length} origins=5'
    install_runtime_contracts(R)
    wbs = W.grammar(rnd, n_wb)
    # a range with a blank cell inside (reset must pass through it)
    wbs.append(W.WB({'A1': 1, 'A2': 2, 'A4': 4}, {'B1': '=SUM(A1:A4)', 'B2': '=B1+1'}, 'range-with-blank'))
    wbs.append(W.WB({'A1': 100.0, 'A2': 0}, {'B1': '=A1*1000000', 'B2': '=IF(A1>100,"over","ok")'}, 'float-noise'))
    # CSE array formulas and a second sheet under histories
    wbs += W.cse_grammar(rnd, 4 if not thorough else 12)
    wbs += W.random_dags(rnd, 6 if not thorough else 60)
    wbs.append(W.WB({'A1': 1, 'A2': 2, 'T!A1': 5}, {'B1': '=A1+T!A1', 'T!B1': '=SUM(S!A1:A2)*A1', 'C1': '=B1+T!B1',
                                                    'T!C1': '=SUM(A:A)+S!C1'}, 'two-sheets'))
    # formulas that REFER to ranges without reading them (intersection, ROW): the ranges stay un-cached while
    # the formula holds a value, the reset must pass through them (second set_value of the same input)
    wbs.append(W.WB({'A1': 3, 'A3': 1, 'B2': -3, 'C9': 10},
                    {'A2': '=C9+1', 'D1': '=SUM(A1:A3 A2:B2)', 'D2': '=IFERROR(A2,9)', 'D3': '=A2*2', 'E1': '=D1*2+ROW(A3)'},
                    'unread-ranges'))
    with W.TmpDir() as tmp:
        for wb in wbs:
            for origin in W.ORIGINS:
                hs = W.histories(rnd, wb, n_hist, length) + W.directed_histories(rnd, wb, limit=20 if not thorough else 60)
                if wb.name == 'unread-ranges':
                    hs.append([('set', 'C9', 0), ('eval', 'A2'), ('eval', 'D1'), ('set', 'C9', 1), ('eval', 'D1'), ('eval', 'E1')])
                    hs.append([('eval', 'E1'), ('set', 'C9', 0), ('eval', 'E1'), ('set', 'C9', 5), ('eval', 'E1'),
                               ('set', 'C9', 7), ('eval', 'D1')])
                if wb.name == 'float-noise':
                    hs.append([('eval', 'B1'), ('set', 'A1', 100.0004), ('eval', 'B1'), ('eval', 'B2')])
                    hs.append([('eval', 'B1'), ('set', 'A2', 1e-9), ('eval', 'B2')])
                if wb.name == 'range-with-blank':
                    hs.append([('eval', 'B2'), ('set', 'A1', 10), ('eval', 'B1'), ('eval', 'B2')])
                for h in hs:
                    w = {'workbook': repr(wb), 'origin': origin, 'history': h}

                    def chk():
                        comp = W.obtain(wb, origin, tmp, f'{wb.name}-{origin}')
                        r = W.run_history(comp, wb, h)
                        if r:
                            w['disagreement'] = r
                        return r is None
                    R.guard('bounded/history_matches_from_scratch', chk, w)


LEVEL = 'other'
EXPLANATION = ('Mixed. PROVED (SMT over an uninterpreted heap: value : Node -> V, dep_graph edges as a relation, no transitive '
               'closure): ExcelCompiler._reset satisfies its local closure contract (cell un-cached, nothing becomes cached, '
               'cached values untouched, every node it un-caches has only un-cached successors, and so has every RANGE successor '
               'of such a node - a range that a formula only refers to stays un-cached while the formula holds a value) - loop '
               'invariant over the successor set and the recursive call discharged against its own contract; ExcelCompiler.set_value on an input '
               'cell writes exactly the given value (0 / FALSE and 1 / TRUE are different, blank included), changes no other '
               'cached value, and re-establishes the invariant Local = (every cached computed node has cached read-precedents, '
               'and its value is F(node, current values)) from which "cached => from-scratch value" follows by induction on '
               'the graph rank; ExcelCompiler._evaluate and ExcelCompiler._evaluate_range (mutually modular) keep every cached '
               'value and Local, compute none of the nodes that read the evaluated one, and leave a computed cell / a range '
               'cached with value = F(node, values) - the nested evaluations a formula makes are covered by the frame clauses of '
               'the same contracts (induction on recursion depth; A-EVAL, A-ACYCLIC); the members of a formula-less range are '
               'evaluated by a comprehension cut at invariants (A-RANGE-F: the table of member values is F(range, values) by '
               'definition). BOUNDED (native): graph construction, unbounded references and the whole evaluate path - '
               'random histories on small workbooks from every origin against a from-scratch compile, with the same '
               'contracts evaluated on the real heap after every set_value / _reset.')
ASSUMPTIONS = ['A-SUBSET', 'A-NX (networkx DiGraph as node set + edge relation)',
               'A-ACYCLIC (evaluating a formula does not transitively evaluate the same cell; a cycle raises RecursionError)',
               'A-CODE (a formula object carries python code); computed references (INDIRECT / OFFSET results) are outside the _evaluate contract',
               'A-EVAL (formula evaluation is a function F of the read-precedents; monitored by C04)',
               'A-PYEQ (== on cell values: reflexive; same type and equal => identical)',
               'A-STORED (results stored in a file are consistent with its inputs)']
BOUNDED_FUNCTIONS = [
    Contract('pycel.excelcompiler:ExcelCompiler._evaluate', 'C01', params={}, klass='BOUNDED',
             notes='re-enters compiled formulas (eval -> generated lambda -> _C_/_R_): A-EVAL; histories only'),
    Contract('pycel.excelcompiler:ExcelCompiler._make_cells', 'C01', params={}, klass='BOUNDED',
             notes='openpyxl / importer access and graph construction; histories from every origin'),
]
