"""C05 - a cell has one value, however and in whatever order it is reached.

Order independence is a corollary of C01's invariant (evaluate returns the from-scratch value Sem,
and Sem does not mention the history), so the deductive part of this check is the set of heap
obligations of C01 (_reset, set_value: re-verified here from the current source) plus C11's
intersection contract for clipping an unbounded range.  What C05 adds is the access paths,
which go through _evaluate / _evaluate_range / _evaluate_non_iterative (they re-enter compiled
formulas: bounded only).
"""
from contracts.c01 import ASSUMED as _C01_ASSUMED, CONTRACTS as _C01_CONTRACTS
from pyvc.spec import (Abstract, Array, Const, Contract, DictOf, Int, NoneT, Record, Str, Tuple, Union, forall_range,
                       same_call)

ENI = 'pycel.excelcompiler:ExcelCompiler._evaluate_non_iterative'
EVAL1 = 'pycel.excelcompiler:ExcelCompiler._evaluate'

# -- _evaluate_non_iterative: an address already in the model is answered by _evaluate; the result of a range keeps the
#    member values and loses exactly the dimensions of extent one ---------------------------------------------------

KNOWN = 'S!A1'           # the address used in the contract: a key of cell_map


def eni_result_is_trimmed_value(self, address, result):
    """a scalar value is returned as it is; an h x w table loses exactly its dimensions of extent one: w == 1 -> the
    column as a vector, h == 1 -> the single row, 1 x 1 -> the cell; every element is the member value at the same
    position"""
    t = same_call(EVAL1, self, address)
    if not isinstance(t, tuple):
        return result == t and type(result) is type(t)
    h = len(t)
    w = len(t[0])
    if w == 1 and h == 1:
        return result == t[0][0]
    if w == 1:
        return len(result) == h and forall_range(0, h, lambda i: result[i] == t[i][0])
    if h == 1:
        return len(result) == w and forall_range(0, w, lambda j: result[j] == t[0][j])
    return len(result) == h and forall_range(0, h, lambda i: len(result[i]) == w and forall_range(
        0, w, lambda j: result[i][j] == t[i][j]))


SELF_ENI = Record('pycel.excelcompiler:ExcelCompiler', {'cell_map': DictOf(**{KNOWN: Const('a cell')})})

EVAL_SHAPE = Contract(EVAL1, 'C05', params=dict(self=Const(None), address=Str()),
                      returns=Union(NoneT(), Int(), Str(maxlen=4), Array(2)), klass='PROVED-ELSEWHERE',
                      name='ExcelCompiler._evaluate[value shape]',
                      notes='the value of a cell is a scalar, the value of a range a rectangular table of any size (C01 proves '
                            'what the values are; here only the shape is used)')

_C05_CONTRACTS = [
    Contract(ENI, 'C05', name='ExcelCompiler._evaluate_non_iterative[address in the model]', modular=[EVAL_SHAPE],
             params=dict(self=SELF_ENI, address=Const(KNOWN)), ensures=[eni_result_is_trimmed_value]),
]

CONTRACTS = list(_C01_CONTRACTS) + _C05_CONTRACTS
ASSUMED = list(_C01_ASSUMED)
LEMMAS = []


def bounded(tier, seed, R):
    import itertools
    import logging
    import random
    from contracts import wbgen as W
    from pycel.excelutil import AddressRange
    logging.disable(logging.CRITICAL)
    rnd = random.Random(seed)
    thorough = tier == 'thorough'
    n_wb = 16 if not thorough else 48
    R.rule = ('workbooks from the shape grammar x origins: every cell evaluated (a) in a random order, (b) first through '
              'its dependants, (c) as the matching element of every containing range, of a whole-column / whole-row '
              'reference, of a list / tuple / generator of addresses, (d) twice - all must agree with one another and with '
              'a from-scratch compile; also after a set_value history')
    wbs = W.grammar(rnd, n_wb) + W.cse_grammar(rnd, 8 if not thorough else 24) + W.random_dags(rnd, 4 if not thorough else 40)
    R.bound = f'{len(wbs)} workbooks x 3 origins x orders/paths'
    with W.TmpDir() as tmp:
        for wb in wbs:
            want = W.oracle_values(wb)
            cells = wb.cells()
            for origin in ('mem', 'xlsx', 'yml'):
                if origin == 'mem' and len(cells) <= (6 if thorough else 4):
                    orders = [list(p) for p in itertools.permutations(cells)]
                else:
                    orders = []
                    for trial in range(3 if not thorough else 12):
                        order = cells[:]
                        rnd.shuffle(order)
                        orders.append(order)
                for order in orders:
                    w = {'workbook': repr(wb), 'origin': origin, 'order': order}

                    def chk_order():
                        comp = W.obtain(wb, origin, tmp, f'{wb.name}-{origin}')
                        got = {c: comp.evaluate(W.addr(c)) for c in order}
                        again = {c: comp.evaluate(W.addr(c)) for c in cells}
                        return all(W.same(got[c], want[c]) and W.same(again[c], want[c]) for c in cells)
                    R.guard('bounded/order_independent', chk_order, w)

                def chk_paths():
                    comp = W.obtain(wb, origin, tmp, f'{wb.name}-{origin}')
                    ok = True
                    has_used_area = origin in ('mem', 'xlsx')     # a deserialised model knows only the ranges it saved
                    cols = sorted({c[0] for c in cells})
                    maxrow = max(int(c[1:]) for c in cells)
                    for col in cols:
                        rows = sorted(int(c[1:]) for c in cells if c[0] == col)
                        rng = f'S!{col}{rows[0]}:{col}{rows[-1]}'
                        vals = comp.evaluate(rng)
                        vals = vals if isinstance(vals, tuple) else (vals,)
                        for i, r_ in enumerate(range(rows[0], rows[-1] + 1)):
                            c = f'{col}{r_}'
                            if c in want:
                                ok = ok and W.same(vals[i], want[c])
                        # whole column, clipped to the used area
                        if has_used_area or f'S!{col}:{col}' in comp.cell_map:
                            whole = comp.evaluate(f'S!{col}:{col}')
                            whole = whole if isinstance(whole, tuple) else (whole,)
                            ok = ok and len(whole) == maxrow
                            for c in cells:
                                if c[0] == col:
                                    ok = ok and W.same(whole[int(c[1:]) - 1], want[c])
                    if has_used_area:
                        for r_ in range(1, maxrow + 1):
                            whole = comp.evaluate(f'S!{r_}:{r_}')
                            whole = whole if isinstance(whole, tuple) else (whole,)
                            for c in cells:
                                if int(c[1:]) == r_:
                                    ok = ok and W.same(whole[ord(c[0]) - ord('A')], want[c])
                        # sheet-less address: the active sheet
                        for c in cells:
                            ok = ok and W.same(comp.evaluate(c), want[c])
                    # list / tuple / generator of addresses
                    addrs = [W.addr(c) for c in cells]
                    ok = ok and all(W.same(a, want[c]) for a, c in zip(comp.evaluate(addrs), cells))
                    ok = ok and all(W.same(a, want[c]) for a, c in zip(comp.evaluate(tuple(addrs)), cells))
                    ok = ok and all(W.same(a, want[c]) for a, c in zip(comp.evaluate(x for x in addrs), cells))
                    # a 2-D block
                    if len(cols) >= 2:
                        block = comp.evaluate(f'S!{cols[0]}1:{cols[-1]}{maxrow}')
                        block = block if isinstance(block[0], tuple) else (block,)
                        for c in cells:
                            v = block[int(c[1:]) - 1][ord(c[0]) - ord(cols[0])]
                            ok = ok and W.same(v, want[c])
                    return ok
                R.guard('bounded/access_paths_agree', chk_paths, {'workbook': repr(wb), 'origin': origin})
            # after a history the same holds
            for h in W.histories(rnd, wb, 2, 4):
                def chk_hist():
                    comp = W.obtain(wb, 'mem', tmp, 'h')
                    return W.run_history(comp, wb, h) is None
                R.guard('bounded/order_independent', chk_hist, {'workbook': repr(wb), 'history': h})


LEVEL = 'other'
EXPLANATION = ('Mixed. PROVED: the heap obligations of C01 (re-verified here from the current source): _reset closure contract, '
               'set_value re-establishing the invariant Local, _evaluate keeping cached values and Local - from which the value of a '
               'cached cell is the from-scratch value whatever the order of evaluation; _evaluate_non_iterative for an address '
               'already in the model: a scalar is returned as it is, an h x w table of any size loses exactly its dimensions of '
               'extent one and keeps every member value at its position. BOUNDED (native): the access paths themselves (cell, element of any '
               'containing range, of a whole-column reference clipped to the used area, of a list / tuple / generator of '
               'addresses, repeated evaluation) and random evaluation orders on grammar workbooks from three origins.')
ASSUMPTIONS = ['A-SUBSET', 'A-NX', 'A-EVAL', 'A-STORED', 'openpyxl max_row/max_column for the used area']
BOUNDED_FUNCTIONS = [
    Contract('pycel.excelcompiler:ExcelCompiler._evaluate_non_iterative', 'C05', params={}, klass='BOUNDED',
             name='ExcelCompiler._evaluate_non_iterative[other address forms]',
             notes='list / tuple / generator of addresses, AddressRange objects, sheet-less addresses, addresses not yet in the '
                   'model (graph construction): bounded'),
    Contract('pycel.excelcompiler:ExcelCompiler._evaluate_range', 'C05', params={}, klass='BOUNDED',
             notes='range value = tuple of member evaluations; re-enters _evaluate / compiled formulas'),
]
