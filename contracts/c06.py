"""C06 - iterative calculation: bounded, tolerance-honest, agrees with plain evaluation.

Record-mode contracts: the per-thread tracker namespace (todo / computed sets of cell identities, pass
counter, requested iterations and tolerance), _CycleCell's value protocol, and the pass loop of
ExcelCompiler._evaluate_iterative cut at an invariant.
"""
from pyvc.recspec import (ghost, has_field, is_member, old, same_obj, same_set, set_empty, set_is_added,
                          set_subset)
from pyvc.spec import (Bool, Const, Contract, DictOf, Dyn, Float, Int, Lemma, Namespace, NoneT, ObjRef, ObjSet,
                       Record, Str, Union, implies)

SYMBOLIC_TWINS = {}

TRACKER = 'pycel.excelutil:_IterativeEvalTracker'
CELL = 'pycel.excelcompiler:_CycleCell'


def NS(**over):
    f = dict(todo=ObjSet(), computed=ObjSet(), iteration_number=Int(lo=0), iterations=Int(lo=1),
             tolerance=Float(lo=0))
    f.update(over)
    return Namespace(**f)


def TRK(ns=None):
    return Record(TRACKER, {'_ns': ns or NS()})


# -- the tracker: record semantics on the per-thread namespace -------------------------------------------

def ns_unchanged_but(self, *names):
    o, n = old(self)._ns, self._ns
    return ((('iteration_number' in names) or n.iteration_number == o.iteration_number)
            and (('iterations' in names) or n.iterations == o.iterations)
            and (('tolerance' in names) or n.tolerance == o.tolerance)
            and (('todo' in names) or same_set(n.todo, o.todo))
            and (('computed' in names) or same_set(n.computed, o.computed)))


def call_sets(self, iterations, tolerance, result):
    n = self._ns
    return (n.iteration_number == 0 and n.iterations == iterations and n.tolerance == tolerance
            and same_obj(result, self) and ns_unchanged_but(self, 'iteration_number', 'iterations', 'tolerance'))


def inc_post(self, result):
    n = self._ns
    return (n.iteration_number == old(self)._ns.iteration_number + 1 and set_empty(n.todo) and set_empty(n.computed)
            and ns_unchanged_but(self, 'iteration_number', 'todo', 'computed'))


def done_post(self, result):
    n = self._ns
    return result == (n.iteration_number >= n.iterations or set_empty(n.todo)) and ns_unchanged_but(self)


def tolerance_post(self, result):
    return result == self._ns.tolerance and ns_unchanged_but(self)


def wip_post(self, cell, result):
    return set_is_added(self._ns.todo, old(self)._ns.todo, cell) and ns_unchanged_but(self, 'todo')


def calced_post(self, cell, result):
    return set_is_added(self._ns.computed, old(self)._ns.computed, cell) and ns_unchanged_but(self, 'computed')


def is_calced_post(self, cell, result):
    return result == is_member(self._ns.computed, cell) and ns_unchanged_but(self)


def fresh_ns_initialised(self, result):
    """first use in a thread: the namespace gets its sets and a zero pass counter"""
    n = self._ns
    return (same_obj(result, n) and set_empty(n.todo) and set_empty(n.computed) and n.iteration_number == 0)


# -- _CycleCell: the value protocol -------------------------------------------------------------------

VAL = Union(NoneT(), Bool(), Int(), Float(), Str(maxlen=3))
REL = 0.00001


def is_number(x):
    return isinstance(x, (bool, int, float))


def moved_beyond(prev, new, tol):
    """the change the property speaks of: more than the tolerance (with the code's documented relative slack of
    1e-5 on the tolerance); values that are not both numbers count as changed when they differ"""
    if is_number(prev) and is_number(new):
        return abs(new - prev) >= (1 + REL) * tol
    return not (prev == new)


def setter_building(self, a_value, iterative_eval_tracker, result):
    """the value a cell is built with is stored and nothing is recorded as calculated"""
    return (self._value == a_value and type(self._value) is type(a_value)
            and ns_unchanged_but(iterative_eval_tracker))


def setter_stores(self, a_value, iterative_eval_tracker, result):
    return (self._value == a_value and type(self._value) is type(a_value) and self.wip is False
            and self._prev_value == old(self)._prev_value)


def setter_marks_calced(self, a_value, iterative_eval_tracker, result):
    t = iterative_eval_tracker
    return (set_is_added(t._ns.computed, old(t)._ns.computed, self)
            and ns_unchanged_but(t, 'computed', 'todo'))


def setter_schedules_if_moved(self, a_value, iterative_eval_tracker, result):
    """tolerance-honesty, cell by cell: a cell that moved beyond the tolerance is in todo after its assignment"""
    t = iterative_eval_tracker
    return implies(moved_beyond(old(self)._prev_value, a_value, old(t)._ns.tolerance), is_member(t._ns.todo, self))


def setter_todo_frame(self, a_value, iterative_eval_tracker, result):
    t = iterative_eval_tracker
    moved = moved_beyond(old(self)._prev_value, a_value, old(t)._ns.tolerance)
    return (set_subset(old(t)._ns.todo, t._ns.todo)
            and (set_is_added(t._ns.todo, old(t)._ns.todo, self) if moved else same_set(t._ns.todo, old(t)._ns.todo)))


def getter_post(self, result):
    want = self._prev_value if self.wip else self._value
    return result == want and type(result) is type(want)


def start_calcs_post(self, result):
    o = old(self)
    return (self.wip is True and self._prev_value == o._value and type(self._prev_value) is type(o._value)
            and self._value == o._value)


def needs_calc_post(self, iterative_eval_tracker, result):
    return result == ((not self.wip) and not is_member(iterative_eval_tracker._ns.computed, self))


# -- the pass loop ------------------------------------------------------------------------------------------

EVAL_IT = 'pycel.excelcompiler:ExcelCompiler._evaluate_iterative'
EVAL_NI = 'pycel.excelcompiler:ExcelCompiler._evaluate_non_iterative'


def eff_iterations(self, iterations):
    return iterations or self.cycles['iterations'] or 10000


def eff_tolerance(self, tolerance):
    return tolerance or self.cycles['tolerance'] or 0.01


def a_pass_effects(vr, interp, vals):
    """what one pass (_evaluate_non_iterative and everything below it) may do to the tracker: add and remove
    members of todo / computed.  It never writes the pass counter, the requested iterations or the tolerance -
    frame F4, checked on the source by effect_scan() below on every run."""
    import z3
    from pyvc import records as REC
    from pyvc.sym import mk_int
    names = list(vr.active.params)
    trk = vr.current_args[names.index('iterative_eval_tracker')]
    ns = trk.fields['_ns']
    ex = interp.ex
    ns.fields['todo'] = REC.SSet(z3.Const(ex.fresh_name('todo'), REC._SETSORT))
    ns.fields['computed'] = REC.SSet(z3.Const(ex.fresh_name('computed'), REC._SETSORT))
    vr.ghost['passes'] = mk_int(vr.ghost['passes'].t + 1)


def loop_havoc(vr, interp):
    import z3
    from pyvc import records as REC
    from pyvc.sym import mk_int
    names = list(vr.active.params)
    ns = vr.current_args[names.index('iterative_eval_tracker')].fields['_ns']
    ex = interp.ex
    ns.fields['todo'] = REC.SSet(z3.Const(ex.fresh_name('todo'), REC._SETSORT))
    ns.fields['computed'] = REC.SSet(z3.Const(ex.fresh_name('computed'), REC._SETSORT))
    ns.fields['iteration_number'] = mk_int(z3.Int(ex.fresh_name('iteration_number')))
    vr.ghost['passes'] = mk_int(z3.Int(ex.fresh_name('passes')))


def inv_pass_count(self, address, iterations, tolerance, iterative_eval_tracker):
    """the tracker counts the passes made, the request stays what it was, and there is room for one more pass"""
    n = iterative_eval_tracker._ns
    return (n.iteration_number == ghost('passes') and 0 <= ghost('passes') < eff_iterations(self, iterations)
            and n.iterations == eff_iterations(self, iterations) and n.tolerance == eff_tolerance(self, tolerance))


def variant_passes_left(self, address, iterations, tolerance, iterative_eval_tracker):
    return eff_iterations(self, iterations) - ghost('passes')


def at_most_requested_passes(self, address, iterations, tolerance, iterative_eval_tracker, result):
    return 1 <= ghost('passes') <= eff_iterations(self, iterations)


def early_stop_means_nothing_to_do(self, address, iterations, tolerance, iterative_eval_tracker, result):
    """stopping before the requested number of passes happens only with an empty todo set after the last pass,
    measured against the requested tolerance"""
    n = iterative_eval_tracker._ns
    return (implies(ghost('passes') < eff_iterations(self, iterations), set_empty(n.todo))
            and n.tolerance == eff_tolerance(self, tolerance))


# -- _CycleCellRange: a range is calculated once per pass -------------------------------------------------------

RANGE = 'pycel.excelcompiler:_CycleCellRange'


def range_setter_post(self, a_value, iterative_eval_tracker, result):
    t = iterative_eval_tracker
    return (self._value == a_value and type(self._value) is type(a_value)
            and (set_is_added(t._ns.computed, old(t)._ns.computed, self) if a_value is not None
                 else same_set(t._ns.computed, old(t)._ns.computed))
            and ns_unchanged_but(t, 'computed'))


def range_needs_calc_post(self, iterative_eval_tracker, result):
    """a range whose value was assigned in this pass is not calculated again; in a later pass it is"""
    return result == (not is_member(iterative_eval_tracker._ns.computed, self))


def CELLREC(**over):
    f = dict(_value=VAL, _prev_value=VAL, wip=Bool())
    f.update(over)
    return Record(CELL, f)


def effect_scan(src_root):
    """Frame F4 on the current source (all of src/pycel): the pass counter, the requested iterations and the
    tolerance of the tracker namespace are written only by _IterativeEvalTracker.__call__ / ns /
    inc_iteration_number; __call__ and inc_iteration_number are called only by _evaluate_iterative; todo /
    computed lose members only in inc_iteration_number."""
    import ast
    import os
    writers, callers, shrinkers, rebinders = [], [], [], []
    for dirpath, _, files in os.walk(os.path.join(src_root, 'pycel')):
        for fn in files:
            if not fn.endswith('.py'):
                continue
            path = os.path.join(dirpath, fn)
            tree = ast.parse(open(path).read())
            rel = os.path.relpath(path, src_root)

            def visit(node, owner):
                for ch in ast.iter_child_nodes(node):
                    o = owner
                    if isinstance(ch, (ast.FunctionDef, ast.ClassDef)):
                        o = (owner + '.' if owner else '') + ch.name
                    if isinstance(ch, (ast.Assign, ast.AugAssign, ast.AnnAssign, ast.Delete)):
                        tgts = ch.targets if isinstance(ch, (ast.Assign, ast.Delete)) else [ch.target]
                        for t in tgts:
                            for n in ast.walk(t):
                                if isinstance(n, ast.Attribute) and n.attr in ('iteration_number', 'iterations',
                                                                                'tolerance'):
                                    writers.append((rel, owner, n.attr, ch.lineno))
                                if isinstance(n, ast.Attribute) and n.attr in ('todo', 'computed'):
                                    rebinders.append((rel, owner, n.attr, ch.lineno))
                    if isinstance(ch, ast.Call):
                        f = ch.func
                        if isinstance(f, ast.Name) and f.id == 'iterative_eval_tracker':
                            callers.append((rel, owner, '__call__', ch.lineno))
                        if isinstance(f, ast.Attribute) and f.attr == 'inc_iteration_number':
                            callers.append((rel, owner, f.attr, ch.lineno))
                        if isinstance(f, ast.Attribute) and f.attr in ('clear', 'discard', 'remove', 'pop',
                                                                       'difference_update', 'intersection_update',
                                                                       'symmetric_difference_update') \
                                and isinstance(f.value, ast.Attribute) and f.value.attr in ('todo', 'computed'):
                            shrinkers.append((rel, owner, f.value.attr + '.' + f.attr, ch.lineno))
                        if isinstance(f, ast.Name) and f.id in ('setattr', 'delattr'):
                            writers.append((rel, owner, 'setattr()', ch.lineno))
                    visit(ch, o)
            visit(tree, '')
    T = '_IterativeEvalTracker.'
    ok_writers = {T + '__call__', T + 'ns', T + 'inc_iteration_number'}
    bad_w = [w for w in writers if not (w[0].endswith('excelutil.py') and w[1] in ok_writers) and w[2] != 'setattr()']
    # setattr / delattr: the two known sites set function metadata at decoration time and copy functions into a
    # test module; any other site leaves the frame unestablished
    known_setattr = {('pycel/lib/function_helpers.py', 'excel_helper.mark'),
                     ('pycel/lib/function_helpers.py', 'load_to_test_module')}
    bad_set = [w for w in writers if w[2] == 'setattr()' and (w[0], w[1]) not in known_setattr]
    bad_s = [x for x in shrinkers if not (x[0].endswith('excelutil.py') and x[1] == T + 'inc_iteration_number')]
    bad_r = [x for x in rebinders if not (x[0].endswith('excelutil.py') and x[1] == T + 'ns')]
    # the functions that start or advance the tracker, and what a pass can reach: the closure of
    # _evaluate_non_iterative over self.<method> references inside ExcelCompiler, plus every other module
    starters = {c[1].split('.')[-1] for c in callers}
    comp = ast.parse(open(os.path.join(src_root, 'pycel', 'excelcompiler.py')).read())
    methods = {}
    for node in comp.body:
        if isinstance(node, ast.ClassDef) and node.name == 'ExcelCompiler':
            for st in node.body:
                if isinstance(st, ast.FunctionDef):
                    methods.setdefault(st.name, []).append(st)
    reach, todo = set(), ['_evaluate_non_iterative']
    while todo:
        m = todo.pop()
        if m in reach or m not in methods:
            continue
        reach.add(m)
        for fn in methods[m]:
            for n in ast.walk(fn):
                if isinstance(n, ast.Attribute) and isinstance(n.value, ast.Name) and n.value.id == 'self' \
                        and n.attr in methods and n.attr not in reach:
                    todo.append(n.attr)
    api = starters | {'evaluate'}
    bad_reach = sorted(reach & api)
    # the other modules a pass runs through (formula evaluation, library functions, helpers) never call back
    # into the compiler's public entry points
    bad_ref = []
    for dirpath, _, files in os.walk(os.path.join(src_root, 'pycel')):
        for fn in files:
            in_pass = fn in ('excelformula.py', 'excelutil.py', 'excelwrapper.py') or os.path.basename(dirpath) == 'lib'
            if fn.endswith('.py') and in_pass:       # (addin.py and __init__.py are entry points, not library code)
                path = os.path.join(dirpath, fn)
                for n in ast.walk(ast.parse(open(path).read())):
                    if isinstance(n, ast.Attribute) and n.attr in api - {'evaluate'} or \
                            (isinstance(n, ast.Attribute) and n.attr == 'evaluate' and isinstance(n.ctx, ast.Load)
                             and not (isinstance(n.value, ast.Name) and n.value.id in ('self', 'cls'))):
                        bad_ref.append((os.path.relpath(path, src_root), n.attr, n.lineno))
    return [
        dict(name='counter_request_tolerance_written_only_by_tracker', ok=not bad_w, detail=repr(bad_w[:4]),
             function='_IterativeEvalTracker'),
        dict(name='no_other_dynamic_attribute_writes', ok=not bad_set, detail=repr(bad_set[:4]), function='src/pycel'),
        dict(name='tracker_started_or_advanced_by_no_function_a_pass_reaches',
             ok=not bad_reach and not bad_ref and '_evaluate_iterative' in starters,
             detail=repr((bad_reach, bad_ref[:4])), function='ExcelCompiler._evaluate_non_iterative'),
        dict(name='todo_computed_shrink_only_at_pass_start', ok=not bad_s and not bad_r and len(shrinkers) >= 2,
             detail=repr((bad_s + bad_r)[:4]), function='_IterativeEvalTracker.inc_iteration_number'),
    ]


FRAME_SCANS = [effect_scan]

ASSUMED = [
    Contract(EVAL_NI, 'C06', params=dict(self=Const(None), address=Str()), returns=Int(), effects=a_pass_effects,
             klass='BOUNDED',
             notes='one pass: used by _evaluate_iterative through its FRAME only (it may change todo / computed, never '
                   'the pass counter, the requested iterations or the tolerance: effect_scan); its value is bounded-only'),
]

CONTRACTS = [
    Contract(CELL + '.value@setter', 'C06', record=True, name='_CycleCell.value@setter[building]',
             params=dict(self=CELLREC(_value=NoneT(), _prev_value=NoneT(), wip=NoneT()), a_value=VAL,
                         iterative_eval_tracker=TRK()),
             free_vars=('iterative_eval_tracker',), ensures=[setter_building]),
    Contract(CELL + '.value@setter', 'C06', record=True,
             params=dict(self=CELLREC(_value=Int()), a_value=VAL, iterative_eval_tracker=TRK()),
             free_vars=('iterative_eval_tracker',),
             ensures=[setter_stores, setter_marks_calced, setter_schedules_if_moved, setter_todo_frame]),
    Contract(CELL + '.value@getter', 'C06', record=True, params=dict(self=CELLREC()), ensures=[getter_post]),
    Contract(CELL + '.start_calcs', 'C06', record=True, params=dict(self=CELLREC(_prev_value=NoneT())),
             ensures=[start_calcs_post]),
    Contract(CELL + '.needs_calc@getter', 'C06', record=True,
             params=dict(self=CELLREC(_value=Int(), _prev_value=Int()), iterative_eval_tracker=TRK()),
             free_vars=('iterative_eval_tracker',), ensures=[needs_calc_post]),
    Contract(RANGE + '.value@setter', 'C06', record=True,
             params=dict(self=Record(RANGE, {'_value': Union(NoneT(), Int())}), a_value=Union(NoneT(), Int(), Str(maxlen=2)),
                         iterative_eval_tracker=TRK()),
             free_vars=('iterative_eval_tracker',), ensures=[range_setter_post]),
    Contract(RANGE + '.needs_calc@getter', 'C06', record=True,
             params=dict(self=Record(RANGE, {'_value': Union(NoneT(), Int())}), iterative_eval_tracker=TRK()),
             free_vars=('iterative_eval_tracker',), ensures=[range_needs_calc_post]),
    Contract(EVAL_IT, 'C06', record=True, ghost=('passes',),
             params=dict(self=Record('pycel.excelcompiler:ExcelCompiler',
                                     {'cycles': DictOf(iterations=Union(NoneT(), Int(lo=1)),
                                                       tolerance=Union(NoneT(), Float(lo=0)))}),
                         address=Str(maxlen=5), iterations=Union(NoneT(), Int(lo=1)),
                         tolerance=Union(NoneT(), Float(lo=0)), iterative_eval_tracker=TRK()),
             free_vars=('iterative_eval_tracker',), modular=[EVAL_NI],
             invariants={0: dict(inv=[inv_pass_count], havoc=loop_havoc, variant=variant_passes_left)},
             ensures=[at_most_requested_passes, early_stop_means_nothing_to_do]),
    Contract(TRACKER + '.__call__', 'C06', record=True,
             params=dict(self=TRK(), iterations=Int(lo=1), tolerance=Float(lo=0)), ensures=[call_sets]),
    Contract(TRACKER + '.inc_iteration_number', 'C06', record=True, params=dict(self=TRK()), ensures=[inc_post]),
    Contract(TRACKER + '.done@getter', 'C06', record=True, params=dict(self=TRK()), ensures=[done_post]),
    Contract(TRACKER + '.tolerance@getter', 'C06', record=True, params=dict(self=TRK()), ensures=[tolerance_post]),
    Contract(TRACKER + '.wip', 'C06', record=True, params=dict(self=TRK(), cell=ObjRef()), ensures=[wip_post]),
    Contract(TRACKER + '.calced', 'C06', record=True, params=dict(self=TRK(), cell=ObjRef()), ensures=[calced_post]),
    Contract(TRACKER + '.is_calced', 'C06', record=True, params=dict(self=TRK(), cell=ObjRef()),
             ensures=[is_calced_post]),
    Contract(TRACKER + '.ns@getter', 'C06', record=True, name='_IterativeEvalTracker.ns[fresh thread]',
             params=dict(self=Record(TRACKER, {'_ns': Namespace()})), ensures=[fresh_ns_initialised]),
]
# -- lemmas over the contracts ---------------------------------------------------------------------------------

def lem_req_assigned(cell, prev, new, tol, after_setter, at_exit):
    """the setter's postcondition for a cell assigned during the last pass, and what the frame gives for the rest
    of the pass: todo only grows until the next inc_iteration_number (setter_todo_frame, wip_post, effect_scan)"""
    return (implies(moved_beyond(prev, new, tol), is_member(after_setter, cell))
            and set_subset(after_setter, at_exit))


def lem_req_early_stop(cell, prev, new, tol, after_setter, at_exit):
    """_evaluate_iterative's postcondition when it made fewer passes than requested"""
    return set_empty(at_exit)


def lem_tolerance_honest(cell, prev, new, tol, after_setter, at_exit):
    """... then no cell assigned in the last pass moved beyond the tolerance"""
    return not moved_beyond(prev, new, tol)


def lem_req_contraction(q, t, e):
    """e = max |x_i - x*_i| after the last pass of a q-contraction in the max-norm, t = largest change in that
    pass: every operand read in the pass is within t of its final value, so e <= q * (t + e)"""
    return 0 <= q < 1 and t >= 0 and e >= 0 and e <= q * (t + e)


def lem_fixed_point_bound(q, t, e):
    return e * (1 - q) <= q * t


LEMMAS = [
    Lemma('tolerance_honest', 'C06',
          dict(cell=ObjRef(), prev=VAL, new=VAL, tol=Float(lo=0), after_setter=ObjSet(), at_exit=ObjSet()),
          lem_tolerance_honest, requires=[lem_req_assigned, lem_req_early_stop],
          notes='early stop => no cell assigned in the last pass moved by (1+1e-5) x tolerance or more'),
    Lemma('fixed_point_bound', 'C06', dict(q=Float(lo=0), t=Float(lo=0), e=Float(lo=0)),
          lem_fixed_point_bound, requires=[lem_req_contraction],
          notes='real-analysis step about the SPECIFICATION (not pycel code): e <= q/(1-q) * t'),
]


# ---------------------------------------------------------------------------------------------------------
# bounded stand-in (native)

def _plugin():
    import sys
    import types
    name = 'pycel_verif_c06_plugin'
    if name not in sys.modules:
        mod = types.ModuleType(name)
        mod.calls = 0

        def tick(x):
            mod.calls += 1
            return x
        mod.tick = tick
        sys.modules[name] = mod
    return sys.modules[name]


def _systems(rnd, n_sys):
    """linear circular systems x = Ax + b with ||A||inf <= q < 1 over cells A1..An of sheet S.
    forms: plain products, through a range reference (SUM), through a dynamic reference (INDIRECT)"""
    out = []
    for k in range(n_sys):
        n = rnd.choice([1, 2, 2, 3, 4])
        q = rnd.choice([0.1, 0.5, 0.8, 0.9])
        scale = rnd.choice([1, 1, 1000, 1e6])
        form = ('plain', 'range', 'indirect', 'mixed')[k % 4]
        A = [[0.0] * n for _ in range(n)]
        for i in range(n):
            w = [rnd.random() for _ in range(n)]
            tot = sum(w) or 1.0
            sgn = [rnd.choice([1, 1, -1]) for _ in range(n)]
            for j in range(n):
                A[i][j] = round(sgn[j] * q * w[j] / tot, 4)
            # the cycle must be closed: every cell reads its successor
            if n > 1 and A[i][(i + 1) % n] == 0:
                A[i][(i + 1) % n] = 0.01
        b = [round(rnd.uniform(-5, 5) * scale, 3) for _ in range(n)]
        q_eff = max(sum(abs(a) for a in row) for row in A)
        formulas = {}
        extra_inputs = {}
        extra_formulas = {}
        for i in range(n):
            terms = []
            if form == 'range' or (form == 'mixed' and i % 2 == 0):
                # uniform row through a range: a*SUM(A1:An)
                a = round(q / n * rnd.choice([1, -1]), 4)
                A[i] = [a] * n
                terms.append(f'{a!r}*SUM(A1:A{n})')
            else:
                for j in range(n):
                    ref = f'A{j + 1}'
                    if form in ('indirect', 'mixed') and j == (i + 1) % n:
                        # a reference made at run time: D_j = INDIRECT(C_j), C_j = "A_j"  (no edge in the graph)
                        extra_inputs[f'C{j + 1}'] = f'A{j + 1}'
                        extra_formulas[f'D{j + 1}'] = f'=INDIRECT(C{j + 1})'
                        ref = f'D{j + 1}'
                    if i == 0 and j == (1 % n):
                        ref = f'tick({ref})'
                    terms.append(f'{A[i][j]!r}*{ref}')
            if i == 0 and not any('tick' in t for t in terms):
                terms.append('0*tick(1)')
            formulas[f'A{i + 1}'] = '=' + '+'.join(terms) + f'+B{i + 1}'
        q_eff = max(sum(abs(a) for a in row) for row in A)
        inputs = {f'B{i + 1}': b[i] for i in range(n)}
        inputs.update(extra_inputs)
        formulas.update(extra_formulas)
        # pass-through cells (D = A) cost one more step of staleness: every operand read in the last pass is
        # within 2t (instead of t) of the final value, t the largest change in that pass
        out.append(dict(n=n, A=A, b=b, q=q_eff, form=form, inputs=inputs, formulas=formulas,
                        slack=2 if extra_formulas else 1))
    return out


def _solve(A, b):
    import numpy as np
    n = len(b)
    return [float(v) for v in np.linalg.solve(np.eye(n) - np.array(A), np.array(b))]


def bounded(tier, seed, R):
    import logging
    import random
    from contracts import wbgen as W
    logging.disable(logging.CRITICAL)
    rnd = random.Random(seed)
    thorough = tier == 'thorough'
    plug = _plugin()
    R.rule = ('(1) linear circular systems x = Ax + b, ||A||inf <= q < 1, 1-4 cells, closed through plain references, SUM over a '
              'range, INDIRECT; x (iterations, tolerance) pool: passes (counted by a plugin function in the cycle) <= iterations, '
              'early stop => every cell within q/(1-q) * (1+1e-5) * tolerance of the fixed point; set_value of the constants '
              'afterwards, same checks. (2) acyclic grammar workbooks (incl. ranges, unbounded ranges, CSE arrays) with '
              'cycles on: every evaluation order and set_value history agrees with plain evaluation')
    systems = _systems(rnd, 24 if not thorough else 120)
    pool = [(1, 0.01), (2, 1e-3), (3, 0.5), (7, 1e-6), (50, 1e-3), (1000, 1e-6), (1000, 1e-9), (None, None)]
    n_acyc = 16 if not thorough else 48
    R.bound = f'{len(systems)} circular systems x {len(pool)} (iterations, tolerance); {n_acyc}+8 acyclic workbooks x orders/histories'
    for s in systems:
        wb = W.WB(s['inputs'], s['formulas'], f"cyc-{s['form']}-{s['n']}")
        cells = [f'S!A{i + 1}' for i in range(s['n'])]
        for its, tol in pool:
            for phase in ('fresh', 'after-set'):
                w = {'workbook': repr(wb), 'iterations': its, 'tolerance': tol, 'q': s['q'], 'phase': phase}
                state = {}

                def run():
                    comp = W.compile_mem(wb, cycles=True, plugins=(plug.__name__,))
                    b = list(s['b'])
                    if phase == 'after-set':
                        comp.evaluate(cells, iterations=3, tolerance=0.5)
                        b = [round(v * 1.5 + 1, 3) for v in b]
                        for i, v in enumerate(b):
                            comp.set_value(f'S!B{i + 1}', v)
                    before = plug.calls
                    kw = {} if its is None else dict(iterations=its, tolerance=tol)
                    got = comp.evaluate(cells, **kw)
                    state['passes'] = plug.calls - before
                    state['got'] = list(got)
                    state['want'] = _solve(s['A'], b)
                    state['defaults'] = (comp.cycles['iterations'] or 10000, comp.cycles['tolerance'] or 0.01)
                    return True
                R.guard('bounded/runs', run, w)
                if 'got' not in state:
                    continue
                eff_its, eff_tol = (its, tol) if its is not None else state['defaults']
                w2 = dict(w, passes=state['passes'], got=state['got'], fixed_point=state['want'])
                R.check('bounded/passes_le_iterations', 1 <= state['passes'] <= eff_its, w2)
                if state['passes'] < eff_its:
                    lim = s['slack'] * s['q'] / (1 - s['q']) * (1 + 1e-5) * eff_tol
                    ok = all(isinstance(g, (int, float)) and abs(g - x) <= lim + 1e-9 * max(1.0, abs(x))
                             for g, x in zip(state['got'], state['want']))
                    R.check('bounded/early_stop_within_bound', ok, w2)
    # (2) acyclic agreement
    wbs = W.grammar(rnd, n_acyc) + W.cse_grammar(rnd, 8)
    for wb in wbs:
        cells = wb.cells()
        for trial in range(3 if not thorough else 8):
            order = cells[:]
            rnd.shuffle(order)

            def chk_order():
                want = W.oracle_values(wb)
                comp = W.compile_mem(wb, cycles=True)
                got = {c: comp.evaluate(W.addr(c)) for c in order}
                return all(W.same(got[c], want[c]) for c in cells)
            R.guard('bounded/acyclic_agrees_first_use', chk_order, {'workbook': repr(wb), 'order': order})
        for h in W.histories(rnd, wb, 3 if not thorough else 8, 5):
            def chk_hist():
                comp = W.compile_mem(wb, cycles=True)
                return W.run_history(comp, wb, h) is None
            R.guard('bounded/acyclic_agrees_history', chk_hist, {'workbook': repr(wb), 'history': h})


LEVEL = 'other'
EXPLANATION = ('Mixed. PROVED by SMT (record mode): the tracker methods against record semantics on the per-thread namespace; '
               '_CycleCell value protocol (setter stores, marks calced, schedules the cell when it moved by (1+1e-5) x tolerance '
               'or more, todo only grows; getter answers the previous value iff work-in-progress; start_calcs; needs_calc) and '
               '_CycleCellRange (calculated once per pass); the pass loop of _evaluate_iterative cut at the invariant '
               '"pass counter = passes made < requested, request and tolerance unchanged" with variant, giving passes <= requested '
               'and early stop => todo empty, for every requested/default (iterations, tolerance); lemma tolerance_honest; '
               'lemma fixed_point_bound (about the specification). The frame of one pass (never writes counter/request/tolerance; '
               'todo only grows) is established by a syntactic effect scan of src/pycel on every run. BOUNDED (native): linear '
               'circular systems up to 4 cells through plain, SUM-over-range and INDIRECT references x (iterations, tolerance) '
               'pool, passes counted by a plugin function; acyclic agreement with plain evaluation over orders and set_value '
               'histories incl. ranges and CSE arrays.')
ASSUMPTIONS = ['A-FLOAT', 'A-EVAL', 'A-NX',
               'F4 frame of a pass: established by effect_scan (syntactic): user plugins and code outside src/pycel are not scanned; '
               'setattr at excel_helper.mark / load_to_test_module are known not to touch the tracker',
               'object identity of cells is an uninterpreted sort (hash/eq of _CellBase is identity)',
               'the 1e-5 relative slack of close_enough on the tolerance is part of the stated bound',
               'pass order: the q/(1-q) bound is argued for any evaluation order in which each cell is assigned once per pass '
               '(Gauss-Seidel-like sweeps); checked numerically by the stand-in, not deductively']
BOUNDED_FUNCTIONS = [
    Contract('pycel.excelcompiler:ExcelCompiler._evaluate', 'C06', params={}, klass='BOUNDED',
             notes='per-pass recomputation (PassFresh): re-enters compiled formulas; acyclic agreement is bounded only'),
    Contract('pycel.excelcompiler:ExcelCompiler._evaluate_range', 'C06', params={}, klass='BOUNDED', notes='as above'),
]
