"""C09 - a failed evaluation does not corrupt the model."""
from pyvc.recspec import ghost_obj, old, same_obj
from pyvc.spec import (Abstract, AnyObj, Bool, Const, Contract, Int, Lemma, Namespace, NoneT, ObjRef, Record, Ref, Str,
                       Tuple, Union, implies)

SYMBOLIC_TWINS = {}

# -- eval_func: exceptional postconditions ---------------------------------------------------------------
#
# The closure is obtained by running the real factory ExcelFormula.build_eval_context; its error-message list is
# then pre-loaded with `pending` entries (evaluation is re-entrant: an enclosing formula may have queued
# operand errors it handled itself), and the compiled lambda is an abstract callable that may queue further
# entries and raise anything.

EVAL_CTX = 'pycel.excelformula:ExcelFormula.build_eval_context'
CTX = 'pycel.excelutil:_ArrayFormulaContext'


def prepare_eval_func(vr, interp, closure, byname):
    """engine level: pre-load the closure's error_messages with `pending` opaque entries and bind the array context
    global of excelformula to the parameter"""
    env = closure.env
    while env is not None and 'error_messages' not in env.vars:
        env = env.parent
    msgs = env.vars['error_messages']
    for k in range(byname['pending']):
        msgs.append((f'trace{k}', None))
    env.vars['in_array_formula_context'] = byname['in_array_formula_context']
    vr.ghost_objs = {'msgs': msgs,
                     'entry_stack': list(byname['in_array_formula_context'].fields['_ns'].fields['ctx_addresses'])}


def lambda_effects(vr, interp, args):
    """what evaluating the compiled formula may do to the shared list: nested evaluations are balanced (this
    very contract, inductively), operand fix-ups append the errors the formula handles itself"""
    k = interp.ex.choose(3)
    for i in range(k):
        vr.ghost_objs['msgs'].append((f'captured{i}', None))


LAMBDA = Abstract('compiled_lambda', Union(NoneT(), Int(), Str(maxlen=7)), pure=False, effects=lambda_effects,
                  raises=('NameError', 'RecursionError', 'ValueError', 'ZeroDivisionError', 'KeyError', 'AssertionError',
                          'TypeError', 'AttributeError', 'FormulaEvalError', 'UnknownFunction', 'FormulaParserError'))


def messages_restored(cls, evaluate, evaluate_range, logger, plugins, excel_formula, cse_array_address,
                      in_array_formula_context, pending, *result):
    """on every exit the error-message list is as long as it was on entry"""
    return len(ghost_obj('msgs')) == pending


def context_stack_restored(cls, evaluate, evaluate_range, logger, plugins, excel_formula, cse_array_address,
                           in_array_formula_context, pending, *result):
    return in_array_formula_context._ns.ctx_addresses == ghost_obj('entry_stack')


def exits_clean(cls, evaluate, evaluate_range, logger, plugins, excel_formula, cse_array_address,
                in_array_formula_context, pending):
    return (len(ghost_obj('msgs')) == pending
            and in_array_formula_context._ns.ctx_addresses == ghost_obj('entry_stack'))


def blank_is_zero(cls, evaluate, evaluate_range, logger, plugins, excel_formula, cse_array_address,
                  in_array_formula_context, pending, result):
    return result is not None


def CTXREC(stack):
    return Record(CTX, {'_ns': Namespace(ctx_addresses=Tuple(*stack, kind='list'), _ctx_address=NoneT())})


FORMULA = Record('pycel.excelformula:ExcelFormula',
                 {'compiled_lambda': LAMBDA, 'msg': Union(NoneT(), Str(maxlen=5)), 'python_code': Str(maxlen=6),
                  'cell': NoneT()})

# -- the array-formula context stack -----------------------------------------------------------------------

def enter_pushes(self, result):
    o = old(self)._ns
    return (self._ns.ctx_addresses == o.ctx_addresses + [o._ctx_address] and self._ns._ctx_address is None)


def exit_pops(self, exc_type, exc_val, exc_tb, result):
    """whatever the block did - also when it raised - the entry pushed by __enter__ is removed, and the exception
    is not swallowed"""
    return self._ns.ctx_addresses == old(self)._ns.ctx_addresses[:-1] and not result


# -- iterative mode: the work-in-progress flag ------------------------------------------------------------------

EVAL_PROP = 'pycel.excelcompiler:ExcelCompiler.eval@getter'
CYCLE_CELL = 'pycel.excelcompiler:_CycleCell'
EVAL_RANGE = 'pycel.excelcompiler:ExcelCompiler._evaluate_range'
PYCEL_ERRORS = ('UnknownFunction', 'FormulaEvalError', 'RecursionError')

EVAL_CTX_ABSTRACT = Abstract('eval_ctx', Union(NoneT(), Int(), Str(maxlen=7)), pure=False, raises=PYCEL_ERRORS)


def calc_started(self, cell, cse_array_address, result):
    """normal exit: the cell is in progress until its value is assigned; the previous value is what it had"""
    return cell.wip is True and cell._prev_value == old(cell)._value and cell._value == old(cell)._value


def calc_abandoned(self, cell, cse_array_address):
    """exceptional exit: the cell is not left in progress (it would answer its previous value - None - for ever),
    and nothing was cached for it"""
    return cell.wip is False and cell._value == old(cell)._value


# -- graph construction: the pending-range list ------------------------------------------------------------------

PROCESS = 'pycel.excelcompiler:ExcelCompiler._process_gen_graph'


def range_todos_emptied(self, *result):
    return self.range_todos == []


ASSUMED = [
    Contract(EVAL_CTX, 'C09', params=dict(cls=Const(None), evaluate=Const(None), evaluate_range=Const(None),
                                          logger=Const(None), plugins=Const(None)),
             returns=EVAL_CTX_ABSTRACT, klass='PROVED-ELSEWHERE',
             notes='the evaluator it returns raises only the three errors eval_func is proved to raise (contract above)'),
    Contract(EVAL_RANGE, 'C09', params=dict(self=Const(None), address=Str()), returns=Union(NoneT(), Int()),
             raises={e: None for e in PYCEL_ERRORS}, klass='PROVED-ELSEWHERE',
             notes='used by _process_gen_graph through its exceptional exits only (that only these three errors leave an '
                   'evaluation: eval_func, below; what a failed range evaluation leaves behind: _evaluate_range[plain, may fail])'),
]

# a node of the graph as the failure handler of _process_gen_graph looks at it: value / formula present or not
GRAPH_NODE = Record('pycel.excelcompiler:_Cell', {'value': Union(NoneT(), Int()), 'formula': Union(NoneT(), Const('formula'))})

CONTRACTS = [
    Contract(CTX + '.__enter__', 'C09', record=True,
             params=dict(self=Record(CTX, {'_ns': Namespace(ctx_addresses=Union(Tuple(Const(False), kind='list'),
                                                                                 Tuple(Const(False), NoneT(), kind='list')),
                                                            _ctx_address=Union(NoneT(), ObjRef()))})),
             ensures=[enter_pushes]),
    Contract(CTX + '.__exit__', 'C09', record=True,
             params=dict(self=Union(CTXREC([Const(False), NoneT()]), CTXREC([Const(False), ObjRef(), NoneT()])),
                         exc_type=Union(NoneT(), ObjRef()), exc_val=NoneT(), exc_tb=NoneT()),
             ensures=[exit_pops]),
    Contract(EVAL_PROP + '._eval', 'C09', record=True, name='ExcelCompiler.eval._eval[iterative]',
             closure_env=(EVAL_PROP, ['self']), modular=[EVAL_CTX],
             params=dict(self=Record('pycel.excelcompiler:ExcelCompiler',
                                     {'_eval': NoneT(), 'cycles': Const(True), '_evaluate': Const('bound-method'),
                                      '_evaluate_range': Const('bound-method'), 'log': AnyObj(),
                                      '_plugin_modules': NoneT()}),
                         cell=Record(CYCLE_CELL, {'_value': Union(NoneT(), Int()), '_prev_value': Union(NoneT(), Int()),
                                                  'wip': Const(False), 'formula': Const('formula')}),
                         cse_array_address=NoneT()),
             bound_args=lambda names, args: ([args[names.index('cell')], args[names.index('cse_array_address')]], {}),
             ensures=[calc_started], raises={e: calc_abandoned for e in PYCEL_ERRORS}),
    Contract(PROCESS, 'C09', record=True, modular=[EVAL_RANGE],
             params=dict(self=Record('pycel.excelcompiler:ExcelCompiler',
                                     {'graph_todos': Tuple(kind='list'),
                                      'range_todos': Union(Tuple(kind='list'), Tuple(Str(maxlen=4), kind='list'),
                                                           Tuple(Str(maxlen=4), Str(maxlen=4), kind='list')),
                                      'log': AnyObj(),
                                      # on a failed calculation the dependants of the failed node are un-cached
                                      'dep_graph': Namespace(
                                          successors=Abstract('successors', Union(
                                              Tuple(kind='list'), Tuple(ObjRef(), kind='list'),
                                              Tuple(ObjRef(), ObjRef(), kind='list'))),
                                          nodes=Abstract('nodes', Union(
                                              Tuple(kind='list'), Tuple(GRAPH_NODE, kind='list'),
                                              Tuple(GRAPH_NODE, GRAPH_NODE, kind='list')))),
                                      'cycles': Const(False),
                                      '_reset': Abstract('_reset', NoneT()),
                                      'cell_map': AnyObj()})),
             ensures=[range_todos_emptied], raises={e: range_todos_emptied for e in PYCEL_ERRORS},
             notes='no cell is pending (graph_todos empty): the exits of the range / cell calculations; _reset by its '
                   'C01 contract (it does not raise)'),
    Contract(EVAL_CTX + '.eval_func', 'C09', record=True,
             closure_env=(EVAL_CTX, ['cls', 'evaluate', 'evaluate_range', 'logger', 'plugins']),
             prepare=prepare_eval_func,
             params=dict(cls=Ref('pycel.excelformula:ExcelFormula'),
                         evaluate=Abstract('evaluate', Int()), evaluate_range=Abstract('evaluate_range', Int()),
                         logger=AnyObj(), plugins=NoneT(), excel_formula=FORMULA, cse_array_address=NoneT(),
                         in_array_formula_context=Union(CTXREC([Const(False)]), CTXREC([Const(False), NoneT()]),
                                                        CTXREC([Const(False), ObjRef(), NoneT()])),
                         pending=Union(Const(0), Const(1), Const(2))),
             bound_args=lambda names, args: ([args[names.index('excel_formula')], args[names.index('cse_array_address')]], {}),
             ensures=[messages_restored, context_stack_restored, blank_is_zero],
             raises={'UnknownFunction': exits_clean, 'FormulaEvalError': exits_clean, 'RecursionError': exits_clean},
             notes='may raise only pycel\'s own errors; every exit leaves the shared error-message list and the '
                   'array-context stack as on entry'),
]
# -- plain mode: _evaluate / _evaluate_range when the compiled formula (or a nested evaluation) fails ----------------
#
# Heap mode, the vocabulary and preconditions of C01.  The compiled formula is abstract: it evaluates precedents
# (frames of C01) and then either returns F(cell, values) or raises one of the three errors eval_func lets out
# (proved above).  Exceptional postcondition = "the model is not corrupted": no cached value changed, the invariant
# Local still holds (every cached computed node has cached precedents and holds F of them - so what IS cached is still
# the from-scratch value), and the node whose evaluation failed is not cached: a retry evaluates it again and cannot
# answer a value while the failure persists.

from contracts.c01 import (EV_FRAME, EVALUATE, EVALUATE_RANGE, ev_computed_cell_is_cached_and_is_f,  # noqa: E402
                           ev_keeps_cached_values, ev_keeps_local_i, ev_keeps_local_ii, ev_no_dependant_newly_cached,
                           ev_returns_the_cell_value, er_keeps_cached_values, er_keeps_local_i, er_keeps_local_ii,
                           er_range_is_cached_and_is_f, er_returns_the_range_value, mem_done_are_cached_or_blank_constants,
                           mem_keeps_cached_values, mem_keeps_local_i, mem_keeps_local_ii, mem_range_still_uncached,
                           local_precedents_cached, local_values_are_f, pre_evaluate, pre_evaluate_range)
from pyvc.heapspec import cached, cell_at, forall_nodes, old_cached, reads, same_value  # noqa: E402
from pyvc.spec import HeapCompiler, OpaqueV  # noqa: E402


def failed_evaluation_leaves_the_model_intact(self, address):
    c = cell_at(address)
    return (forall_nodes(lambda m: implies(old_cached(m), same_value(m))) and local_precedents_cached()
            and local_values_are_f() and implies(not old_cached(c), not cached(c))
            # none of the nodes that read the failed one was computed on the way (they need its value first)
            and forall_nodes(lambda d: implies(reads(c, d) and cached(d), old_cached(d))))


X_RAISES = {e: failed_evaluation_leaves_the_model_intact for e in PYCEL_ERRORS}

EVALUATE_X = Contract(EVALUATE, 'C09', heap=True, params=dict(self=HeapCompiler(cycles=False), address=Str()),
                      requires=[pre_evaluate],
                      ensures=[ev_returns_the_cell_value, ev_keeps_cached_values, ev_keeps_local_i, ev_keeps_local_ii,
                               ev_computed_cell_is_cached_and_is_f, ev_no_dependant_newly_cached],
                      raises=X_RAISES, returns=OpaqueV(allow_none=True), modifies=('value',),
                      name='ExcelCompiler._evaluate[contract with exceptional exits]')

EVALUATE_RANGE_X = Contract(
    EVALUATE_RANGE, 'C09', heap=True, modular=[EVALUATE_X], modifies=('value',),
    name='ExcelCompiler._evaluate_range[plain, may fail]',
    params=dict(self=HeapCompiler(cycles=False, evaluating=EV_FRAME, eval_raises=PYCEL_ERRORS), address=Str()),
    requires=[pre_evaluate_range],
    ensures=[er_returns_the_range_value, er_keeps_cached_values, er_keeps_local_i, er_keeps_local_ii,
             er_range_is_cached_and_is_f, ev_no_dependant_newly_cached],
    raises=X_RAISES, returns=OpaqueV(),
    invariants={'members': [mem_keeps_cached_values, mem_keeps_local_i, mem_keeps_local_ii,
                            mem_done_are_cached_or_blank_constants, mem_range_still_uncached]},
    notes='a member (or the array formula) may fail: the range is left un-cached, what was cached is untouched')

CONTRACTS.append(EVALUATE_RANGE_X)
CONTRACTS.append(
    Contract(EVALUATE, 'C09', heap=True, modular=[EVALUATE_RANGE_X], modifies=('value',),
             name='ExcelCompiler._evaluate[plain, may fail]',
             params=dict(self=HeapCompiler(cycles=False, evaluating=EV_FRAME, eval_raises=PYCEL_ERRORS), address=Str()),
             requires=[pre_evaluate],
             ensures=[ev_returns_the_cell_value, ev_keeps_cached_values, ev_keeps_local_i, ev_keeps_local_ii,
                      ev_computed_cell_is_cached_and_is_f, ev_no_dependant_newly_cached],
             raises=X_RAISES,
             notes='the compiled formula may raise UnknownFunction / FormulaEvalError / RecursionError after any number of '
                   'nested evaluations: nothing is cached for the cell, nothing cached is changed, Local holds'))

LEMMAS = []


def _plugin():
    import sys
    import types
    name = 'pycel_verif_c09_plugin'
    if name not in sys.modules:
        mod = types.ModuleType(name)
        mod.armed = False
        mod.countdown = None

        def boom(x):
            if mod.countdown is not None:
                mod.countdown -= 1
                if mod.countdown == 0:
                    mod.countdown = None
                    raise ValueError('plugin failed (k-th call)')
            if mod.armed == 'name':
                return x + undefined_name_in_plugin      # noqa: F821  (a plugin bug: NameError)
            if mod.armed:
                raise ValueError('plugin failed')
            return x
        mod.boom = boom
        sys.modules[name] = mod
    return sys.modules[name]


def bounded(tier, seed, R):
    import logging
    import os
    import random
    from contracts import wbgen as W
    from pycel.excelutil import PyCelException
    logging.disable(logging.CRITICAL)
    rnd = random.Random(seed)
    thorough = tier == 'thorough'
    plug = _plugin()
    R.rule = ('every formula cell of the grammar workbooks (chains, diamonds, ranges, nested / unbounded ranges, CSE arrays) and of '
              'small circular systems made to fail in turn - unknown function, plugin that raises while armed, plugin that raises '
              'on its k-th call - in plain and iterative mode: (1) retrying it and each dependant raises a pycel error '
              '(never a value while the failure persists, never a bare internal exception); (2) every cell that does not depend '
              'on it evaluates to its from-scratch value; (3) after set_value(failing cell, constant) every cell evaluates as in '
              'a fresh model with that constant; also with an evaluation of unrelated cells before the failure')
    wbs = W.grammar(rnd, 8 if not thorough else 24) + W.cse_grammar(rnd, 4 if not thorough else 8) + W.random_dags(rnd, 3 if not thorough else 20)
    # formulas that handle an operand error themselves (queued on the shared error-message list), before / around the failure
    wbs += [W.WB({'A1': 0, 'A2': 5}, {'B1': '=IFERROR(1/A1,7)', 'C1': '=A2*2', 'D1': '=IFERROR(1/A1,7)+C1', 'E1': '=D1+B1',
                                     'F1': '=A2+B1'}, 'captured'),
            W.WB({'A1': 'a', 'A2': 5}, {'B1': '=IF(ISERROR(A1+1),3,4)', 'C1': '=A2+1', 'D1': '=IF(ISERROR(A1+1),C1,4)',
                                       'E1': '=SUM(C1:D1)'}, 'captured-value')]
    # a formula cell that is a member of an unbounded range (the range is evaluated through its reference cell)
    wbs += [W.WB({'A1': 1, 'A3': 3}, {'A2': '=A1+1', 'B4': '=MAX(A:A)', 'B5': '=B4+1', 'C1': '=A1*2'}, 'unbounded-member'),
            W.WB({'A1': 1, 'B1': 4}, {'A2': '=A1+1', 'A3': '=A2*B1', 'C4': '=SUM(A:A)+SUM(1:1)', 'C5': '=C4+B1'}, 'unbounded-member2')]
    cyc = [W.WB({'C1': 1}, {'A1': '=0.5*B1+C1', 'B1': '=0.25*A1+2', 'D1': '=C1*3', 'E1': '=A1+D1'}, 'cycle'),
           W.WB({'C1': 2}, {'A1': '=0.25*SUM(B1:B2)+C1', 'B1': '=0.5*A1', 'B2': '=0.5*A1+1', 'D1': '=C1+1'}, 'cycle-range')]
    R.bound = f'{len(wbs)} acyclic + {len(cyc)} circular workbooks x formula cells x 3 failure kinds x 2 modes'

    def fresh_values(wb, cells, cycles):
        comp = W.compile_mem(wb, cycles=cycles or None, plugins=(plug.__name__,))
        kw = dict(iterations=200, tolerance=1e-9) if cycles else {}
        return {c: comp.evaluate(W.addr(c), **kw) for c in cells}

    def close(a, b):
        if isinstance(a, float) or isinstance(b, float):
            try:
                return abs(a - b) <= 1e-6 * max(1.0, abs(a), abs(b))
            except TypeError:
                return False
        return W.same(a, b)

    import shutil
    import tempfile
    tmpdir = tempfile.mkdtemp(prefix='pycel-verif-c09-', dir=os.environ.get('TMPDIR'))
    n_stored = [0]
    for wb, circular in [(w, False) for w in wbs] + [(w, True) for w in cyc]:
        for target in list(wb.formulas):
            orig = wb.formulas[target]
            for kind in ('unknown-function', 'plugin-armed', 'plugin-nameerror', 'plugin-kth', 'unknown-function/stored'):
                for cycles in ((True,) if circular else (False, True)):
                    # '/stored': the model is read from an .xlsx whose formula cells carry stored results, except the
                    # failing one (a formula stored without a result): its dependants start out with a value
                    stored = kind.endswith('/stored')
                    if stored:
                        if cycles or circular or wb.arrays or '!' in ''.join(wb.cells()) or n_stored[0] >= (40 if not thorough else 400):
                            continue
                        n_stored[0] += 1
                    broken = W.WB(wb.inputs, wb.formulas, wb.name, wb.arrays)
                    if kind.startswith('unknown-function'):
                        broken.formulas[target] = f'=nosuchfunction({orig[1:]})'
                    else:
                        broken.formulas[target] = f'=boom({orig[1:]})'
                    dep = W.depends_on(broken, target)
                    others = [c for c in broken.cells() if c not in dep]
                    dependants = [c for c in broken.cells() if c in dep]
                    w = {'workbook': repr(broken), 'failing': target, 'kind': kind, 'iterative': cycles}
                    kw = dict(iterations=200, tolerance=1e-9) if cycles else {}
                    state = {}

                    def setup():
                        plug.armed = False
                        plug.countdown = None
                        state['want_others'] = fresh_values(wb, others, cycles)
                        repaired = W.WB(dict(wb.inputs, **{target: 7}),
                                        {c: f for c, f in wb.formulas.items() if c != target}, wb.name, wb.arrays)
                        state['want_repaired'] = fresh_values(repaired, repaired.cells(), cycles)
                        if stored:
                            from pycel import ExcelCompiler
                            path = os.path.join(tmpdir, f'stored{n_stored[0]}.xlsx')
                            res = W.oracle_values(wb, list(wb.formulas))
                            res[target] = None
                            W.save_xlsx_with_results(broken, path, results=res)
                            comp = ExcelCompiler(filename=path, plugins=(plug.__name__,))
                            if rnd.random() < 0.5:
                                state['comp'] = comp        # nothing evaluated before the failure
                                return True
                        else:
                            comp = W.compile_mem(broken, cycles=cycles or None, plugins=(plug.__name__,))
                        if rnd.random() < 0.5 and others:
                            comp.evaluate(W.addr(rnd.choice(others)), **kw)      # something already cached
                        if rnd.random() < 0.7:
                            for c in others:
                                comp.evaluate(W.addr(c), **kw)
                        if kind == 'plugin-armed':
                            plug.armed = True
                        elif kind == 'plugin-nameerror':
                            plug.armed = 'name'
                        elif kind == 'plugin-kth':
                            plug.countdown = 1
                        state['comp'] = comp
                        return True
                    R.guard('bounded/setup', setup, w)
                    comp = state.get('comp')
                    if comp is None:
                        continue

                    def outcome(cell):
                        try:
                            return ('value', comp.evaluate(W.addr(cell), **kw))
                        except PyCelException as e:
                            return ('pycel-error', type(e).__name__)
                        except RecursionError as e:
                            return ('pycel-error', 'RecursionError') if 'cycles=True' in str(e) else ('internal', repr(e)[:200])
                        except BaseException as e:
                            return ('internal', f'{type(e).__name__}: {e}'[:300])

                    first = outcome(dependants[-1] if stored and dependants and rnd.random() < 0.7 else target)
                    R.check('bounded/failure_is_a_pycel_error', first[0] == 'pycel-error', dict(w, outcome=first))
                    if kind == 'plugin-kth':
                        # transient: a retry may succeed, but only with the right value
                        wantv = fresh_values(wb, dependants, cycles)
                        for c in dependants:
                            o = outcome(c)
                            R.check('bounded/retry_no_stale_value',
                                    o[0] == 'pycel-error' or (o[0] == 'value' and close(o[1], wantv[c])),
                                    dict(w, cell=c, outcome=o, want=wantv[c]))
                    else:
                        for c in dependants + [target]:
                            o = outcome(c)
                            R.check('bounded/retry_fails_again_with_pycel_error', o[0] == 'pycel-error',
                                    dict(w, cell=c, outcome=o))
                    for c in others:
                        o = outcome(c)
                        R.check('bounded/unrelated_cells_unaffected', o[0] == 'value' and close(o[1], state['want_others'][c]),
                                dict(w, cell=c, outcome=o, want=state['want_others'][c]))
                    # repair
                    def repair():
                        comp.set_value(W.addr(target), 7)
                        return True
                    if kind != 'plugin-kth':
                        R.guard('bounded/repair_accepted', repair, w)
                        for c in state['want_repaired']:
                            o = outcome(c)
                            R.check('bounded/repaired_as_fresh', o[0] == 'value' and close(o[1], state['want_repaired'][c]),
                                    dict(w, cell=c, outcome=o, want=state['want_repaired'][c], dependent=c in dep))
                    plug.armed = False
                    plug.countdown = None
    shutil.rmtree(tmpdir, ignore_errors=True)


def kf_iterative_set_value_keeps_formula(w):
    """iterative mode recomputes every formula cell in every pass, so set_value on a formula cell does not replace
    its formula: the failing formula is evaluated again and the cell and its dependants still raise the pycel error"""
    return bool(w.get('iterative')) and w.get('dependent') and w.get('outcome', [None])[0] == 'pycel-error'


LEVEL = 'other'
EXPLANATION = ('Mixed. PROVED by SMT (record mode, exceptional postconditions - every may-raise call is an explicit exit): eval_func '
               '(obtained by running the real factory build_eval_context; the compiled formula is an abstract callable that may queue '
               'operand errors and raise any of 11 exception types; the shared error-message list pre-loaded with 0-2 entries of '
               'enclosing evaluations) raises only UnknownFunction / FormulaEvalError / RecursionError and on every exit leaves the '
               'error-message list and the array-context stack as on entry; _ArrayFormulaContext.__enter__/__exit__ push/pop also when '
               'the block raised; iterative _eval: on an exception the cell is not left work-in-progress and nothing is cached for it; '
               '_process_gen_graph empties range_todos on every exit; plain mode (heap mode, vocabulary and preconditions of C01): when the '
               'compiled formula of a cell, the array formula of a range, a member of a range or any nested evaluation raises one '
               'of those three errors, _evaluate / _evaluate_range (mutually modular) leave every cached value as it was, the '
               'invariant Local intact, the failed node un-cached (a retry evaluates it again) and compute no node that reads '
               'it. BOUNDED (native): every formula cell of the grammar workbooks '
               'and two circular systems made to fail in turn (unknown function, plugin raising ValueError / NameError while armed, '
               'plugin raising on its k-th call; with handled operand errors before / around the failure), plain and iterative: '
               'retries raise pycel errors, unrelated cells keep their from-scratch values, set_value(constant) repairs.')
ASSUMPTIONS = ['A-EVAL', 'A-TRACEBACK: sys.exc_info / traceback.extract_tb / format_exception_only return text (no effect)',
               'logging.getLogger(...) and the logger methods have no effect on the model',
               'the compiled lambda raises subclasses of Exception only (KeyboardInterrupt / SystemExit are out of scope)',
               'nested evaluations leave the error-message list balanced: this is the contract being proved, used inductively for '
               'the abstract compiled lambda (depth induction)',
               'eval_func is verified for cse_array_address None (fit_to_range in array context: C13) and an already loaded '
               'compiled_lambda (load_function: bounded)']
BOUNDED_FUNCTIONS = [
    Contract('pycel.excelformula:ExcelFormula.build_eval_context.load_function', 'C09', params={}, klass='BOUNDED',
             notes='exec of generated code'),
]
