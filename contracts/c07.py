"""C07 - evaluations on different threads are isolated from each other."""
from pyvc.recspec import ghost_obj, has_field, old, set_empty
from pyvc.spec import Bool, Const, Contract, Float, Int, Namespace, NoneT, ObjRef, ObjSet, Record, Tuple, Union, implies

SYMBOLIC_TWINS = {}

# Deductive part.  The two module-level singletons that every compiler shares keep their state in a threading.local()
# namespace.  What contracts can say about isolation is a FRAME: (1) every method of the singletons reads and writes
# thread-local state only - the shared object itself carries no other attribute (closed record: a write to any other
# attribute of `self` fails the obligation frame:only-thread-local-state-written); (2) the namespace of a thread that
# has never used the library is initialised with objects of its own (not shared with another thread's) and every
# method then works; (3) an inventory of every other piece of module- or class-level state written at run time
# (frame scan over src/pycel).  Interleavings themselves are outside what per-call contracts express: bounded stand-in.

TRACKER = 'pycel.excelutil:_IterativeEvalTracker'
CTX = 'pycel.excelutil:_ArrayFormulaContext'


def FRESH(cls):
    """the shared singleton as seen by a thread that never used the library: an empty thread-local namespace"""
    return Record(cls, {'_ns': Namespace()}, closed=True)


def USED_TRACKER():
    return Record(TRACKER, {'_ns': Namespace(todo=ObjSet(), computed=ObjSet(), iteration_number=Int(lo=0), iterations=Int(lo=1),
                                             tolerance=Float(lo=0))}, closed=True)


def USED_CTX():
    return Record(CTX, {'_ns': Namespace(ctx_addresses=Union(Tuple(Const(False), kind='list'),
                                                           Tuple(Const(False), NoneT(), kind='list'),
                                                           Tuple(Const(False), ObjRef(), kind='list')),
                                         _ctx_address=Union(NoneT(), ObjRef()))}, closed=True)


def returns_normally(self, *rest):
    return True


def tracker_ns_complete(self, result):
    """after first use every field the other methods read exists"""
    n = self._ns
    return (has_field(n, 'todo') and has_field(n, 'computed') and has_field(n, 'iteration_number')
            and has_field(n, 'iterations') and has_field(n, 'tolerance') and set_empty(n.todo) and set_empty(n.computed))


def tracker_ns_not_shared(self, result):
    """the sets given to this thread are not the sets given to another thread"""
    other = ghost_obj('other_thread_ns')
    return (self._ns.todo is not other.todo) and (self._ns.computed is not other.computed)


def ctx_ns_complete(self, result):
    n = self._ns
    return has_field(n, 'ctx_addresses') and has_field(n, '_ctx_address') and n.ctx_addresses == [False]


def ctx_ns_not_shared(self, result):
    return self._ns.ctx_addresses is not ghost_obj('other_thread_ns').ctx_addresses


def prepare_other_thread(vr, interp, closure, byname):
    """engine level: another thread (its own empty namespace, the same shared singleton class) initialises first"""
    from pyvc.interp import SObj
    from pyvc import records as REC
    me = byname['self']
    other = SObj(me.cls, {'_ns': SObj(REC.namespace_class(interp.world), {})})
    interp.call_function(closure, [other], {})
    vr.ghost_objs = {'other_thread_ns': other.fields['_ns']}


def _fresh_contracts():
    out = []
    for name, extra in (('__call__', dict(iterations=Int(lo=1), tolerance=Float(lo=0))), ('tolerance@getter', {}),
                        ('done@getter', {}), ('wip', dict(cell=ObjRef())), ('calced', dict(cell=ObjRef())),
                        ('is_calced', dict(cell=ObjRef())), ('inc_iteration_number', {})):
        out.append(Contract(f'{TRACKER}.{name}', 'C07', record=True, name=f'_IterativeEvalTracker.{name}[fresh thread]',
                            params=dict(self=FRESH(TRACKER), **extra), ensures=[returns_normally]))
        out.append(Contract(f'{TRACKER}.{name}', 'C07', record=True, name=f'_IterativeEvalTracker.{name}[frame]',
                            params=dict(self=USED_TRACKER(), **extra), ensures=[returns_normally]))
    for name, extra in (('__bool__', {}), ('__call__', dict(address=Union(NoneT(), ObjRef()))), ('__enter__', {}),
                        ('ctx_address@getter', {})):
        # (fit_to_range is only ever called inside `with in_array_formula_context(...)`: eval_func, C09 / C13)
        out.append(Contract(f'{CTX}.{name}', 'C07', record=True, name=f'_ArrayFormulaContext.{name}[fresh thread]',
                            params=dict(self=FRESH(CTX), **extra), ensures=[returns_normally]))
    for name, extra in (('__bool__', {}), ('__call__', dict(address=Union(NoneT(), ObjRef()))), ('__enter__', {}),
                        ('__exit__', dict(exc_type=NoneT(), exc_val=NoneT(), exc_tb=NoneT())), ('ctx_address@getter', {})):
        out.append(Contract(f'{CTX}.{name}', 'C07', record=True, name=f'_ArrayFormulaContext.{name}[frame]',
                            params=dict(self=USED_CTX(), **extra), ensures=[returns_normally]))
    return out


# -- inventory of shared (module- or class-level) state written at run time ----------------------------------------

MUT = {'append','add','update','clear','pop','setdefault','extend','insert','remove','discard','popitem','sort','reverse'}
def _inventory(src_root):
    import ast
    import os
    found = []
    for dirpath, _, files in os.walk(os.path.join(src_root, 'pycel')):
        for fn in sorted(files):
            if not fn.endswith('.py'): continue
            path = os.path.join(dirpath, fn); rel = os.path.relpath(path, src_root)
            tree = ast.parse(open(path).read())
            mod_mut = {}   # module-level names bound to something mutable
            cls_mut = {}   # class -> names
            def is_mut(v):
                if isinstance(v, (ast.Dict, ast.List, ast.Set, ast.ListComp, ast.DictComp, ast.SetComp)): return True
                if isinstance(v, ast.Call):
                    f = v.func
                    nm = f.id if isinstance(f, ast.Name) else f.attr if isinstance(f, ast.Attribute) else ''
                    return nm in ('dict','list','set','defaultdict','OrderedDict','local','deque','Counter') or nm[:1].isupper() or nm.startswith('_') and nm[1:2].isupper()
                return False
            for st in tree.body:
                if isinstance(st, ast.Assign) and is_mut(st.value):
                    for t in st.targets:
                        if isinstance(t, ast.Name): mod_mut[t.id] = st.lineno
                if isinstance(st, ast.ClassDef):
                    for cs in st.body:
                        if isinstance(cs, ast.Assign) and is_mut(cs.value):
                            for t in cs.targets:
                                if isinstance(t, ast.Name): cls_mut.setdefault(st.name, {})[t.id] = cs.lineno
            classes = {st.name for st in ast.walk(tree) if isinstance(st, ast.ClassDef)}
            def visit(node, owner, in_func):
                for ch in ast.iter_child_nodes(node):
                    o, f = owner, in_func
                    if isinstance(ch, ast.ClassDef): o = (owner + '.' if owner else '') + ch.name
                    if isinstance(ch, (ast.FunctionDef, ast.Lambda)):
                        o = (owner + '.' if owner else '') + getattr(ch, 'name', '<lambda>'); f = True
                    if in_func:
                        if isinstance(ch, ast.Global):
                            found.append((rel, owner, 'global ' + ','.join(ch.names), ch.lineno))
                        tg = []
                        if isinstance(ch, ast.Assign): tg = ch.targets
                        elif isinstance(ch, (ast.AugAssign, ast.AnnAssign)): tg = [ch.target]
                        elif isinstance(ch, ast.Delete): tg = ch.targets
                        for t in tg:
                            base = t
                            while isinstance(base, ast.Subscript): base = base.value
                            if isinstance(base, ast.Attribute) and isinstance(base.value, ast.Name) and (base.value.id == 'cls' or base.value.id in classes):
                                found.append((rel, owner, f'class attribute {base.value.id}.{base.attr} written', ch.lineno))
                            if isinstance(base, ast.Attribute) and isinstance(base.value, ast.Attribute) and base.value.attr == '__class__':
                                found.append((rel, owner, f'class attribute via __class__.{base.attr} written', ch.lineno))
                            if isinstance(t, ast.Subscript) and isinstance(base, ast.Name) and base.id in mod_mut:
                                found.append((rel, owner, f'module object {base.id}[...] written', ch.lineno))
                        if isinstance(ch, ast.Call) and isinstance(ch.func, ast.Attribute) and ch.func.attr in MUT:
                            b = ch.func.value
                            if isinstance(b, ast.Name) and b.id in mod_mut:
                                found.append((rel, owner, f'module object {b.id}.{ch.func.attr}()', ch.lineno))
                            if isinstance(b, ast.Attribute) and isinstance(b.value, ast.Name) and b.value.id in ('self','cls'):
                                for cn, names in cls_mut.items():
                                    if b.attr in names and owner.startswith(cn + '.') or (b.attr in names and ('.' + cn + '.') in ('.' + owner + '.')):
                                        found.append((rel, owner, f'class-level object {cn}.{b.attr}.{ch.func.attr}()', ch.lineno))
                    visit(ch, o, f)
            visit(tree, '', False)
    return found


SHARED_STATE_ALLOWED = {
    ('pycel/excelcompiler.py', '_Cell.next_id', 'class attribute cls.ctr written'):
        'serial number of a cell object: never read by evaluation (only unique-ish ids); a lost update under a race is harmless',
    ('pycel/lib/function_helpers.py', 'excel_helper.mark', 'module object star_args.add()'):
        'function metadata registered when a library module is imported (decoration time), not during evaluation',
}
PROCESS_WIDE_PATCHES_ALLOWED = {
    ('pycel/excelwrapper.py', 'ExcelOpxWrapper.load'), ('pycel/excelwrapper.py', 'ExcelOpxWrapper.get_range'),
}


def shared_state_scan(src_root):
    """frame (3): apart from the two thread-local namespaces, which module- or class-level objects does code under
    src/pycel write at run time?  Every item found must be in the reviewed list above; a new one leaves the isolation
    frame unestablished (undecided).  mock.patch sites (process-wide monkey patches) are listed separately."""
    import ast
    import os
    found = _inventory(src_root)
    unknown = [f for f in found if (f[0], f[1], f[2]) not in SHARED_STATE_ALLOWED]
    patches = []
    for dirpath, _, files in os.walk(os.path.join(src_root, 'pycel')):
        for fn in files:
            if fn.endswith('.py'):
                path = os.path.join(dirpath, fn)
                tree = ast.parse(open(path).read())

                def visit(node, owner):
                    for ch in ast.iter_child_nodes(node):
                        o = owner
                        if isinstance(ch, (ast.ClassDef, ast.FunctionDef)):
                            o = (owner + '.' if owner else '') + ch.name
                        if isinstance(ch, ast.Call) and isinstance(ch.func, ast.Attribute) and ch.func.attr == 'patch':
                            patches.append((os.path.relpath(path, src_root), owner))
                        visit(ch, o)
                visit(tree, '')
    bad_p = [p for p in patches if p not in PROCESS_WIDE_PATCHES_ALLOWED]
    # the singletons' classes keep their state in threading.local() and nowhere else at class level
    util = ast.parse(open(os.path.join(src_root, 'pycel', 'excelutil.py')).read())
    cls_state = []
    for st in util.body:
        if isinstance(st, ast.ClassDef) and st.name in ('_IterativeEvalTracker', '_ArrayFormulaContext'):
            for cs in st.body:
                if isinstance(cs, (ast.Assign, ast.AnnAssign)):
                    v = cs.value
                    is_local = (isinstance(v, ast.Call) and isinstance(v.func, ast.Attribute) and v.func.attr == 'local')
                    if not is_local:
                        cls_state.append((st.name, ast.unparse(cs)[:80]))
    return [
        dict(name='no_unreviewed_shared_state_written_at_run_time', ok=not unknown, detail=repr(unknown[:4]), function='src/pycel'),
        dict(name='no_unreviewed_process_wide_patch', ok=not bad_p, detail=repr(bad_p[:4]), function='src/pycel'),
        dict(name='singletons_hold_only_a_thread_local_namespace', ok=not cls_state, detail=repr(cls_state[:4]),
             function='_IterativeEvalTracker / _ArrayFormulaContext'),
    ]


FRAME_SCANS = [shared_state_scan]

CONTRACTS = [
    Contract(TRACKER + '.ns@getter', 'C07', record=True, name='_IterativeEvalTracker.ns[fresh thread]',
             params=dict(self=FRESH(TRACKER)), prepare=prepare_other_thread,
             ensures=[tracker_ns_complete, tracker_ns_not_shared]),
    Contract(CTX + '.ns@getter', 'C07', record=True, name='_ArrayFormulaContext.ns[fresh thread]',
             params=dict(self=FRESH(CTX)), prepare=prepare_other_thread,
             ensures=[ctx_ns_complete, ctx_ns_not_shared]),
] + _fresh_contracts()
LEMMAS = []


# ---------------------------------------------------------------------------------------------------------
# bounded stand-in: systematic preemption at every log record of the first workload

def _workloads(W):
    """name -> (build() -> model, run(model) -> result); each build gives a fresh model whose run does real work"""
    from openpyxl import Workbook
    from openpyxl.worksheet.formula import ArrayFormula
    from pycel import ExcelCompiler

    def iterative(scale, its, tol):
        def build():
            wb = W.WB({'C1': scale}, {'A1': '=0.5*B1+C1', 'B1': '=0.5*A1+1', 'D1': '=A1+B1'}, 'cyc')
            return W.compile_mem(wb, cycles=True)

        def run(m):
            return tuple(round(v, 9) for v in m.evaluate(['S!A1', 'S!B1', 'S!D1'], iterations=its, tolerance=tol))
        return build, run

    def array():
        def build():
            wb = Workbook()
            ws = wb.active
            ws.title = 'S'
            ws['A1'], ws['A2'], ws['A3'] = 1, '=1/0', 3
            ws['B1'], ws['B2'], ws['B3'] = '=A1*1', '=A2*1', '=A3*1'
            ws['C1'] = ArrayFormula('C1:C3', '=IFERROR(B1:B3,-1)')
            ws['D1'] = '=IFERROR(B1:B3,7)'
            ws['E1'] = ArrayFormula('E1:E3', '=A1:A3*2+D1')
            c = ExcelCompiler(excel=wb)
            c.evaluate('S!C1:C3')
            c.evaluate('S!A1')
            c.set_value('S!A1', 5)            # B1, B1:B3, C1:C3 are to be calculated again
            return c

        def run(m):
            return (m.evaluate('S!C1:C3'), m.evaluate('S!D1'), m.evaluate('S!E1:E3'))
        return build, run

    def plain():
        def build():
            wb = W.WB({'A1': 20, 'A2': 2}, {'B1': '=A1+A2', 'B2': '=SUM(A1:A2)*B1', 'C1': '=IF(B2>10,B1,A1)'}, 'plain')
            return W.compile_mem(wb)

        def run(m):
            return tuple(m.evaluate(W.addr(c)) for c in ('C1', 'B2'))
        return build, run

    return {'iterative-a': iterative(10, 50, 1e-6), 'iterative-b': iterative(1000, 3, 0.5), 'array': array(),
            'plain': plain()}


def bounded(tier, seed, R):
    import logging
    import threading
    from contracts import wbgen as W
    thorough = tier == 'thorough'
    logger = logging.getLogger('pycel')
    R.rule = ('pairs of workloads {iterative(10, 50 passes, 1e-6), iterative(1000, 3 passes, 0.5), array-formula, plain} on two '
              'threads: workload 1 is stopped at its j-th log record (every record the library emits while it evaluates: cell '
              'evaluations, range evaluations, graph construction) and workload 2 runs to completion on another thread (fresh or '
              'warmed up) before workload 1 continues; for every j both results must equal the results of running alone; also '
              'every public operation (compile, evaluate, set_value, trim_graph, save / load) on a thread that never used the '
              'library')
    works = _workloads(W)
    names = list(works)
    alone = {}
    old_level = logger.level
    logging.disable(logging.NOTSET)
    logger.setLevel(logging.DEBUG)
    nh = logging.NullHandler()
    logger.addHandler(nh)
    try:
        for n in names:
            b, r = works[n]
            alone[n] = r(b())

        class Counter(logging.Filter):
            def __init__(self):
                super().__init__()
                self.n = 0

            def filter(self, record):
                if threading.current_thread().name == 'W1':
                    self.n += 1
                return True

        pairs = [(a, b) for a in names for b in names if a != b or a.startswith('iter')]
        total = 0
        for n1, n2 in pairs:
            # how many preemption points does workload 1 offer?
            cnt = Counter()
            logger.addFilter(cnt)
            m_count = works[n1][0]()
            t = threading.Thread(target=lambda: works[n1][1](m_count), name='W1')
            t.start(); t.join()
            logger.removeFilter(cnt)
            points = list(range(1, cnt.n + 1))
            if not thorough and len(points) > 14:
                step = len(points) / 14.0
                points = sorted({points[int(i * step)] for i in range(14)} | {points[-1]})
            for j in points:
                for warm in ((False,) if not thorough else (False, True)):
                    total += 1
                    res = {}
                    m1 = works[n1][0]()
                    m2 = works[n2][0]()

                    class Preempt(logging.Filter):
                        def __init__(self):
                            super().__init__()
                            self.n = 0
                            self.fired = False

                        def filter(self, record):
                            if threading.current_thread().name == 'W1':
                                self.n += 1
                                if self.n == j and not self.fired:
                                    self.fired = True

                                    def w2():
                                        try:
                                            if warm:
                                                works[n2][1](works[n2][0]())
                                            res['w2'] = works[n2][1](m2)
                                        except Exception as e:      # noqa
                                            res['w2'] = f'raised {type(e).__name__}: {e}'[:200]
                                    t2 = threading.Thread(target=w2, name='W2')
                                    t2.start()
                                    t2.join(60)
                            return True
                    pre = Preempt()
                    logger.addFilter(pre)

                    def w1():
                        try:
                            res['w1'] = works[n1][1](m1)
                        except Exception as e:      # noqa
                            res['w1'] = f'raised {type(e).__name__}: {e}'[:200]
                    t1 = threading.Thread(target=w1, name='W1')
                    t1.start(); t1.join(120)
                    logger.removeFilter(pre)
                    w = {'workload_1': n1, 'workload_2': n2, 'preempt_at_record': j, 'warmed_up': warm,
                         'got': repr((res.get('w1'), res.get('w2')))[:300], 'alone': repr((alone[n1], alone[n2]))[:300]}
                    R.check('bounded/interleaved_equals_alone', pre.fired and res.get('w1') == alone[n1] and res.get('w2') == alone[n2], w)
        # crossed schedules: W1 runs to its j-th record and parks, W2 runs to ITS k-th record and parks, W1 finishes,
        # W2 finishes - the two evaluations overlap without one being nested in the other (a shared stack that is
        # pushed and popped in step survives the nested schedule, not this one)
        def record_count(name):
            cnt = Counter()
            logger.addFilter(cnt)
            m_ = works[name][0]()
            t_ = threading.Thread(target=lambda: works[name][1](m_), name='W1')
            t_.start(); t_.join()
            logger.removeFilter(cnt)
            return cnt.n

        def pick(n_, k_):
            pts = list(range(1, n_ + 1))
            if len(pts) <= k_:
                return pts
            step = len(pts) / float(k_)
            return sorted({pts[int(i * step)] for i in range(k_)} | {pts[-1]})

        crossed_pairs = [('array', 'array'), ('array', 'plain'), ('plain', 'array'), ('array', 'iterative-a'),
                         ('iterative-a', 'array'), ('iterative-a', 'iterative-b')]
        counts = {n: record_count(n) for n in names}
        n_cross = 0
        for n1, n2 in crossed_pairs:
            for j in pick(counts[n1], 6 if not thorough else 16):
                for k in pick(counts[n2], 5 if not thorough else 16):
                    n_cross += 1
                    res = {}
                    m1, m2 = works[n1][0](), works[n2][0]()
                    w1_parked, w2_parked, w1_done = threading.Event(), threading.Event(), threading.Event()

                    class Cross(logging.Filter):
                        def __init__(self):
                            super().__init__()
                            self.n = {'W1': 0, 'W2': 0}

                        def filter(self, record):
                            who = threading.current_thread().name
                            if who in self.n:
                                self.n[who] += 1
                                if who == 'W1' and self.n[who] == j:
                                    w1_parked.set()
                                    w2_parked.wait(60)       # W2 runs up to its k-th record (or to its end)
                                elif who == 'W2' and self.n[who] == k:
                                    w2_parked.set()
                                    w1_done.wait(60)         # W1 finishes first
                            return True
                    cross = Cross()
                    logger.addFilter(cross)

                    def w1():
                        try:
                            res['w1'] = works[n1][1](m1)
                        except Exception as e:      # noqa
                            res['w1'] = f'raised {type(e).__name__}: {e}'[:200]
                        finally:
                            w1_parked.set()
                            w1_done.set()

                    def w2():
                        w1_parked.wait(60)
                        try:
                            res['w2'] = works[n2][1](m2)
                        except Exception as e:      # noqa
                            res['w2'] = f'raised {type(e).__name__}: {e}'[:200]
                        finally:
                            w2_parked.set()
                    t1 = threading.Thread(target=w1, name='W1')
                    t2 = threading.Thread(target=w2, name='W2')
                    t1.start(); t2.start()
                    t1.join(120); t2.join(120)
                    logger.removeFilter(cross)
                    w = {'workload_1': n1, 'workload_2': n2, 'w1_parks_at_record': j, 'w2_parks_at_record': k,
                         'got': repr((res.get('w1'), res.get('w2')))[:300], 'alone': repr((alone[n1], alone[n2]))[:300]}
                    R.check('bounded/crossed_equals_alone', res.get('w1') == alone[n1] and res.get('w2') == alone[n2], w)
        R.bound = f'{len(pairs)} workload pairs, {total} nested + {n_cross} crossed interleavings'
    finally:
        logger.removeHandler(nh)
        logger.setLevel(old_level)
        logging.disable(logging.CRITICAL)

    # every public operation on a thread that has never used the library
    def on_fresh_thread(fn):
        out = {}

        def run():
            try:
                out['v'] = fn()
            except Exception as e:      # noqa
                out['e'] = f'{type(e).__name__}: {e}'[:300]
        t = threading.Thread(target=run)
        t.start(); t.join(120)
        return out

    import os
    with W.TmpDir() as tmp:
        cyc = W.WB({'C1': 1}, {'A1': '=0.5*B1+C1', 'B1': '=0.5*A1+1'}, 'cyc')
        arr = W.cse_grammar(__import__('random').Random(0), 1)[0]
        ops = {
            'compile+evaluate plain': lambda: W.compile_mem(arr).evaluate('S!D1'),
            'compile+evaluate iterative': lambda: W.compile_mem(cyc, cycles=True).evaluate('S!A1'),
            'set_value iterative': lambda: (lambda m: (m.evaluate('S!A1'), m.set_value('S!C1', 2), m.evaluate('S!A1'))[2])(
                W.compile_mem(cyc, cycles=True)),
            'trim_graph': lambda: (lambda m: (m.trim_graph(['S!A1'], ['S!D1']), m.evaluate('S!D1'))[1])(W.compile_mem(arr)),
            'save+load iterative': lambda: _save_load(W, cyc, tmp),
            'validate_calcs iterative': lambda: _quiet(lambda: W.compile_mem(cyc, cycles=True).validate_calcs(['S!A1'])),
            'value_tree_str': lambda: (lambda m: (m.evaluate('S!D1'), list(m.value_tree_str('S!D1')))[1][:1])(W.compile_mem(arr)),
        }
        for name, fn in ops.items():
            out = on_fresh_thread(fn)
            R.check('bounded/works_on_a_fresh_thread', 'v' in out, {'operation': name, 'outcome': repr(out)[:300]})


def _save_load(W, wb, tmp):
    import os
    from pycel import ExcelCompiler
    m = W.compile_mem(wb, cycles=True)
    m.evaluate('S!A1')
    base = os.path.join(tmp, 'c7_model')
    m.to_file(base, file_types=('yml',))
    return ExcelCompiler.from_file(base + '.yml').evaluate('S!A1')


def _quiet(fn):
    import contextlib
    import io
    with contextlib.redirect_stdout(io.StringIO()):
        return fn()


LEVEL = 'other'
EXPLANATION = ('Mixed - and largely outside what per-call contracts can express. PROVED by SMT / symbolic execution (record mode): '
               'FRAME obligations on the two module-level singletons shared by all compilers (_IterativeEvalTracker, '
               '_ArrayFormulaContext): every method, on a used and on a never-used thread namespace, writes thread-local state only '
               '(closed record: any other attribute written on the shared object fails frame:only-thread-local-state-written) and '
               'raises nothing; the namespace of a thread that never used the library is initialised completely and with objects '
               'that are not shared with another thread\'s namespace. Frame scan of src/pycel on every run: the inventory of '
               'module- / class-level state written at run time contains only reviewed items, the singleton classes hold nothing '
               'but a threading.local(), no unreviewed process-wide patch. NOT decided deductively: that the results under every '
               'interleaving equal the results alone - BOUNDED (native): workload pairs {2 iterative with different settings, '
               'array-formula, plain} with workload 1 stopped at every log record it emits while workload 2 runs to completion on '
               'another (fresh or warmed-up) thread, and seven public operations on a thread that never used the library.')
ASSUMPTIONS = ['threading.local() gives each thread its own attribute namespace (CPython): TRUSTED',
               'per-compiler state (cells, graph, eval context, error-message list) is not shared between different compiled '
               'workbooks: by construction (instance attributes), not verified here',
               'functools.lru_cache wrappers are thread-safe and their functions pure (C10 / C11 / C17 contracts)',
               'process-wide mock.patch of openpyxl.worksheet._reader.from_excel inside ExcelOpxWrapper.load / get_range is NOT '
               'thread-local: two threads loading workbooks at the same moment can see each other\'s patch (date coercion while '
               'openpyxl parses cells); reviewed, outside the stand-in (needs statement-level preemption inside openpyxl)',
               '_Cell.ctr (id counter) is shared and unsynchronised: ids are never read by evaluation',
               'preemption granularity of the stand-in is the log record, not the bytecode']
BOUNDED_FUNCTIONS = [
    Contract('pycel.excelcompiler:ExcelCompiler._evaluate_iterative', 'C07', params={}, klass='BOUNDED',
             notes='isolation of two concurrent pass loops: interleaving stand-in only (its sequential contract is C06)'),
    Contract('pycel.excelformula:ExcelFormula.build_eval_context.eval_func', 'C07', params={}, klass='BOUNDED',
             notes='context pushed around every formula evaluation: sequential contract in C09; interleavings bounded'),
]
