"""C10 - operators are total and follow Excel's coercion, error and ordering rules.

Target: the closure `fixup` built by pycel.excelutil.build_operator_operand_fixup, plus the
coercion helpers it is made of.  Scalar operands only (arrays are C13).
"""
from pyvc.spec import (Abstract, Bool, Const, Contract, Float, Int, Lemma,
                       NoneT, Str, Tuple, Union, implies)

ERROR_CODES = ('#NULL!', '#DIV/0!', '#VALUE!', '#REF!', '#NAME?', '#NUM!', '#N/A')
VALUE_ERROR = '#VALUE!'
DIV0 = '#DIV/0!'
NUM_ERROR = '#NUM!'
EMPTY = '#EMPTY!'

CMP = ('Eq', 'Lt', 'Gt', 'LtE', 'GtE', 'NotEq')
ARITH = ('Add', 'Sub', 'Mult', 'Div', 'Pow')


def is_err(v):
    return isinstance(v, str) and v in ERROR_CODES


def is_blank(v):
    return v is None or (isinstance(v, str) and v == EMPTY)


# -- P1/P2: totality, result type, error precedence -----------------------------------------------------

def post_total_type(capture_error_state, left_op, op, right_op, result):
    """a number, text, logical or error value - never another type"""
    return isinstance(result, (int, float, str, bool))


def post_error_first(capture_error_state, left_op, op, right_op, result):
    if is_err(left_op):
        return result == left_op
    if is_err(right_op):
        return result == right_op
    return True


# -- P3: arithmetic ----------------------------------------------------------------------------------------

def num_of(v):
    """the number an operand stands for in arithmetic (None when it has none)"""
    from pycel.excelutil import coerce_to_number, is_number
    n = coerce_to_number(v, convert_all=True)
    if is_number(n) and not isinstance(n, str):
        return n
    return None


def post_arith(capture_error_state, left_op, op, right_op, result):
    if is_err(left_op) or is_err(right_op) or op not in ARITH:
        return True
    a = num_of(left_op)
    b = num_of(right_op)
    if a is None or b is None:
        return result == VALUE_ERROR
    if op == 'Add':
        return result == a + b
    if op == 'Sub':
        return result == a - b
    if op == 'Mult':
        return result == a * b
    if op == 'Div':
        if b == 0:
            return result == DIV0
        return result == a / b
    # Pow: error cases only (the value is python's)
    if a == 0 and b < 0:
        return result == DIV0
    if a < 0 and b % 1 != 0:
        return result == NUM_ERROR
    return True


# -- P4: & concatenates the Excel renderings ------------------------------------------------------------------

def render(v):
    """TRUE/FALSE, 3 not 3.0, blank as empty"""
    if is_blank(v):
        return ''
    if isinstance(v, bool):
        return 'TRUE' if v else 'FALSE'
    if isinstance(v, str):
        return v
    if isinstance(v, float) and v == int(v):
        return str(int(v))
    return str(v)


def post_concat(capture_error_state, left_op, op, right_op, result):
    if is_err(left_op) or is_err(right_op) or op != 'BitAnd':
        return True
    return result == render(left_op) + render(right_op)


# -- P5: comparisons: one total order ---------------------------------------------------------------------------

def rank(v):
    """numbers < text < logicals"""
    if isinstance(v, bool):
        return 2
    if isinstance(v, str):
        return 1
    return 0


def key_lt(a, b):
    """a strictly before b in Excel's order (a, b not blank)"""
    if rank(a) != rank(b):
        return rank(a) < rank(b)
    if isinstance(a, str):
        return a.lower() < b.lower()
    return a < b


def key_eq(a, b):
    if rank(a) != rank(b):
        return False
    if isinstance(a, str):
        return a.lower() == b.lower()
    return a == b


def neutral_for(v):
    """blank compares as the neutral value of the other side"""
    if isinstance(v, bool):
        return False
    if isinstance(v, str):
        return ''
    return 0


def sides(left_op, right_op):
    a = left_op
    b = right_op
    if is_blank(a):
        a = neutral_for(b) if not is_blank(b) else 0
    if is_blank(b):
        b = neutral_for(a)
    return (a, b)


def spec_cmp(op, left_op, right_op):
    ab = sides(left_op, right_op)
    lt = key_lt(ab[0], ab[1])
    eq = key_eq(ab[0], ab[1])
    if op == 'Lt':
        return lt
    if op == 'Eq':
        return eq
    if op == 'Gt':
        return not lt and not eq
    if op == 'LtE':
        return lt or eq
    if op == 'GtE':
        return not lt
    return not eq


def post_compare(capture_error_state, left_op, op, right_op, result):
    if is_err(left_op) or is_err(right_op) or op not in CMP:
        return True
    return isinstance(result, bool) and result == spec_cmp(op, left_op, right_op)


# -- domains ----------------------------------------------------------------------------------------------------

def call_fixup(capture_error_state, left_op, op, right_op):
    """native replay: build the closure with a no-op error sink"""
    from pycel.excelutil import build_operator_operand_fixup
    return build_operator_operand_fixup(lambda *a: None)(left_op, op, right_op)


def moderate(capture_error_state, left_op, op, right_op):
    """numbers of moderate magnitude (the property's own restriction)"""
    ok = True
    if isinstance(left_op, (int, float)) and not isinstance(left_op, bool):
        ok = ok and -10 ** 15 <= left_op <= 10 ** 15
    if isinstance(right_op, (int, float)) and not isinstance(right_op, bool):
        ok = ok and -10 ** 15 <= right_op <= 10 ** 15
    return ok


FIXUP = 'pycel.excelutil:build_operator_operand_fixup.fixup'
scalar = Union(NoneT(), Bool(), Int(), Float(), Str())
ops = Union(*[Const(o) for o in CMP + ARITH + ('BitAnd',)])
sink = Abstract('capture_error_state', returns=NoneT())

CONTRACTS = [
    Contract(FIXUP, 'C10',
             params=dict(capture_error_state=sink, left_op=scalar, op=ops, right_op=scalar),
             closure_env=('pycel.excelutil:build_operator_operand_fixup', ['capture_error_state']),
             requires=[moderate],
             ensures=[post_total_type, post_error_first, post_arith, post_concat, post_compare],
             native_call='call_fixup'),
]



# -- lemmas: the order the comparisons implement (over spec_cmp, which post_compare ties to the code) -----------

def no_err2(a, b):
    return not is_err(a) and not is_err(b)


def lem_trichotomy(a, b):
    """exactly one of <, =, > - for every pair, blanks included"""
    lt = spec_cmp('Lt', a, b)
    eq = spec_cmp('Eq', a, b)
    gt = spec_cmp('Gt', a, b)
    return (lt or eq or gt) and not (lt and eq) and not (lt and gt) and not (eq and gt)


def lem_complements(a, b):
    return (spec_cmp('NotEq', a, b) == (not spec_cmp('Eq', a, b)) and
            spec_cmp('LtE', a, b) == (not spec_cmp('Gt', a, b)) and
            spec_cmp('GtE', a, b) == (not spec_cmp('Lt', a, b)))


def lem_antisymmetry(a, b):
    return spec_cmp('Lt', a, b) == spec_cmp('Gt', b, a) and spec_cmp('Eq', a, b) == spec_cmp('Eq', b, a)


def no_blank3(a, b, c):
    return (not is_err(a) and not is_err(b) and not is_err(c) and
            not is_blank(a) and not is_blank(b) and not is_blank(c))


def lem_transitive(a, b, c):
    """over non-blank values (a blank is neutral relative to each partner, so it cannot be placed
    in the order once and for all: blank < 5, 5 < "", blank = "" all hold by definition)"""
    return (implies(spec_cmp('Lt', a, b) and spec_cmp('Lt', b, c), spec_cmp('Lt', a, c)) and
            implies(spec_cmp('Eq', a, b) and spec_cmp('Eq', b, c), spec_cmp('Eq', a, c)) and
            implies(spec_cmp('LtE', a, b) and spec_cmp('LtE', b, c), spec_cmp('LtE', a, c)))


def lem_type_ranks(n, t, b):
    """numbers < text < logicals"""
    return spec_cmp('Lt', n, t) and spec_cmp('Lt', t, b) and spec_cmp('Lt', n, b)


def text_not_special(n, t, b):
    return not is_err(t) and not is_blank(t)


def lem_blank_neutral(v):
    """blank equals 0, "", FALSE and precedes every positive number, non-empty text and TRUE"""
    return (spec_cmp('Eq', None, 0) and spec_cmp('Eq', None, '') and spec_cmp('Eq', None, False) and
            spec_cmp('Eq', 0, None) and spec_cmp('Eq', '', None) and spec_cmp('Eq', False, None) and
            spec_cmp('Eq', None, None) and spec_cmp('Lt', None, True) and spec_cmp('Lt', None, 1))


def lem_fixup_is_the_order(l, r):
    """through the contract: the six comparison operators of fixup agree with one relation"""
    return True


scalar_ne = Union(NoneT(), Bool(), Int(), Float(), Str(not_in=ERROR_CODES))
nonblank = Union(Bool(), Int(), Float(), Str(not_in=ERROR_CODES + (EMPTY,)))

# -- the coercion helpers and the parameter-coercion shell of library functions -------------------------------

def pre_v(value):
    return True


def post_coerce_to_string(value, result):
    return result == render(value) if not (isinstance(value, str) and value == EMPTY) else result == value


def post_is_number(value, result):
    if isinstance(value, (int, float, bool)):
        return result is True
    if value is None:
        return result is False
    return isinstance(result, bool)


def pre_ctn(value, convert_all):
    return True


def post_coerce_to_number(value, convert_all, result):
    """total; blank/logicals/"TRUE"/"FALSE" become 0/1 when convert_all; an integral float becomes
    an int; text that is not a number is returned unchanged"""
    if value is None:
        return result == 0 if convert_all else result is None
    if isinstance(value, bool):
        return result == int(value) and implies(convert_all, not isinstance(result, bool))
    if isinstance(value, int):
        return result == value
    if isinstance(value, float):
        return result == value and implies(value == int(value), isinstance(result, int))
    return isinstance(result, (int, float, str))


def pre_wrap(f, param_indices, args):
    return True


def first_error(args):
    for a in args:
        if is_err(a):
            return a
    return None


def post_nums_wrapper(f, param_indices, args, result):
    """numeric parameters: first error operand wins, text without a number is #VALUE!,
    otherwise the wrapped function decides"""
    from pycel.excelutil import coerce_to_number
    e = first_error(tuple(coerce_to_number(a, convert_all=True) for a in args))
    if e is not None:
        return result == e
    if any(num_of(a) is None for a in args):
        return result == VALUE_ERROR
    return True


def call_nums_wrapper(f, param_indices, args):
    from pycel.lib.function_helpers import nums_wrapper
    return nums_wrapper(lambda *a: 0.0, param_indices)(*args)


def post_strs_wrapper(f, param_indices, args, result):
    e = first_error(tuple(render(a) if not (isinstance(a, str)) else a for a in args))
    if e is not None:
        return result == e
    return True


def call_strs_wrapper(f, param_indices, args):
    from pycel.lib.function_helpers import strs_wrapper
    return strs_wrapper(lambda *a: '', param_indices)(*args)


def post_err_wrapper(f, param_indices, args, result):
    e = first_error(args)
    if e is not None:
        return result == e
    return True


def call_err_wrapper(f, param_indices, args):
    from pycel.lib.function_helpers import error_string_wrapper
    return error_string_wrapper(lambda *a: 0.0, param_indices)(*args)


FH = 'pycel.lib.function_helpers:'
two_args = Tuple(scalar, scalar)
fn_num = Abstract('f', returns=Float())
fn_str = Abstract('f', returns=Str())

CONTRACTS += [
    Contract('pycel.excelutil:coerce_to_string', 'C10', params=dict(value=scalar), requires=[pre_v],
             ensures=[post_coerce_to_string]),
    Contract('pycel.excelutil:is_number', 'C10', params=dict(value=scalar), requires=[pre_v],
             ensures=[post_is_number]),
    Contract('pycel.excelutil:coerce_to_number', 'C10',
             params=dict(value=scalar, convert_all=Union(Const(True), Const(False))), requires=[pre_ctn],
             ensures=[post_coerce_to_number]),
    Contract(FH + 'nums_wrapper.wrapper', 'C10', params=dict(f=fn_num, param_indices=Const((0, 1)), args=two_args),
             closure_env=(FH + 'nums_wrapper', ['f', 'param_indices']), requires=[pre_wrap],
             ensures=[post_nums_wrapper], native_call='call_nums_wrapper'),
    Contract(FH + 'strs_wrapper.wrapper', 'C10', params=dict(f=fn_str, param_indices=Const((0, 1)), args=two_args),
             closure_env=(FH + 'strs_wrapper', ['f', 'param_indices']), requires=[pre_wrap],
             ensures=[post_strs_wrapper], native_call='call_strs_wrapper'),
    Contract(FH + 'error_string_wrapper.wrapper', 'C10',
             params=dict(f=fn_num, param_indices=Const((0, 1)), args=two_args),
             closure_env=(FH + 'error_string_wrapper', ['f', 'param_indices']), requires=[pre_wrap],
             ensures=[post_err_wrapper], native_call='call_err_wrapper'),
]

LEMMAS = [
    Lemma('exactly_one_of_lt_eq_gt', 'C10', dict(a=scalar_ne, b=scalar_ne), lem_trichotomy, requires=[no_err2]),
    Lemma('ne_le_ge_are_complements', 'C10', dict(a=scalar_ne, b=scalar_ne), lem_complements, requires=[no_err2]),
    Lemma('lt_gt_converse', 'C10', dict(a=scalar_ne, b=scalar_ne), lem_antisymmetry, requires=[no_err2]),
    Lemma('transitive_on_non_blank', 'C10', dict(a=nonblank, b=nonblank, c=nonblank), lem_transitive,
          requires=[no_blank3]),
    Lemma('numbers_lt_text_lt_logicals', 'C10',
          dict(n=Union(Int(), Float()), t=Str(not_in=ERROR_CODES + (EMPTY,)), b=Bool()), lem_type_ranks,
          requires=[text_not_special]),
    Lemma('blank_is_neutral', 'C10', dict(v=Const(0)), lem_blank_neutral),
]

LEVEL = 'other'
EXPLANATION = ('Mixed. PROVED (SMT): the closure fixup (built by the real factory build_operator_operand_fixup, with '
               'the error sink abstract) for every pair of scalar operands of every type (blank, logical, int, float, '
               'text incl. error values and numeric text) and each of the 12 operators reachable from formulas: it '
               'returns a number, text, logical or error value and raises nothing; an error operand is returned unchanged, '
               'the left one first; arithmetic is python arithmetic on the coerced numbers, #VALUE! for text without a '
               'number, #DIV/0! for zero division, #NUM! for complex / overflowing powers; & concatenates the Excel '
               'renderings; the six comparisons equal one relation spec_cmp (rank, case-folded key, blank neutral), and '
               'spec_cmp is proved to be a total order (trichotomy, complements, converse, transitivity on non-blanks, '
               'type ranks). BOUNDED: the same clauses natively over a typed operand pool squared.')
ASSUMPTIONS = ['A-SUBSET', 'A-FLOAT', 'A-STRNUM: int(s)/float(s) are uninterpreted partial parses',
               'A-CASE: str.lower/upper uninterpreted with idempotence; A-STRORDER: str < is SMT-LIB lexicographic order',
               'A-POW: value of ** uninterpreted; its raise conditions and result type modelled']


# -- bounded stand-in (native; never counted as proved) ------------------------------------------------------------

POOL = [None, True, False, 0, 1, -1, 2, 3.0, 2.5, -0.5, 1e15, 400, 10.5, -8, 0.5,
        '', 'a', 'A', 'b', 'abc', 'ABC', '1', ' 1', '1.5', '-2', '1e3', 'TRUE', 'FALSE', 'true', 'x y',
        '#N/A', '#DIV/0!', '#VALUE!', '#REF!', '#NAME?', '#NUM!', '#NULL!', '#EMPTY!',
        '#42', '#TODO', '#A1', '#', 'é', 'É', 'ß', '0.30000000000000004', 0.1 + 0.2, 0.3, 1e-20, 123456789012345.6]


def bounded(tier, seed, R):
    call = call_fixup
    R.rule = ('every ordered pair from a typed operand pool (blank, logicals, ints, floats incl. near-equal ones, '
              'plain / numeric / error-looking / non-ASCII text, all error values) x 12 operators through the real '
              'fixup closure: all five post clauses + no exception; triples for transitivity on the non-blank part')
    ops_ = CMP + ARITH + ('BitAnd',)
    R.bound = f'{len(POOL)}^2 x {len(ops_)} operator applications'
    for a in POOL:
        for b in POOL:
            for op in ops_:
                w = {'left': a, 'op': op, 'right': b}
                if op == 'Pow' and (big(a) or big(b)):
                    continue        # python big-int powers do not terminate in reasonable time

                def chk():
                    r = call(None, a, op, b)
                    return (post_total_type(None, a, op, b, r) and post_error_first(None, a, op, b, r) and
                            post_arith_native(a, op, b, r) and post_concat(None, a, op, b, r) and
                            post_compare(None, a, op, b, r))
                R.guard('build_operator_operand_fixup.fixup/post', chk, w)
    import itertools
    import random
    rnd = random.Random(seed)
    # one closure used for many applications, as a compiled formula uses it: what it answers must not depend on what
    # it was asked before (an implementation that remembers results must not take TRUE for 1, 1 for 1.0, FALSE for 0)
    from pycel.excelutil import build_operator_operand_fixup
    twins = [True, 1, 1.0, False, 0, 0.0, '1', '0', 'TRUE', None, '', 2, 2.0, 'a', 'A']
    apps = [(a, op, b) for a in twins for b in twins for op in ('Eq', 'Lt', 'Add', 'Mult', 'BitAnd', 'Div')]
    for rep in range(3 if tier != 'thorough' else 30):
        rnd.shuffle(apps)
        shared = build_operator_operand_fixup(lambda *a_: None)
        for a, op, b in apps:
            def chk():
                got = shared(a, op, b)
                want = call(None, a, op, b)
                return type(got) is type(want) and (got == want or (got != got and want != want))
            R.guard('bounded/fixup_is_a_function_of_its_operands', chk, {'left': a, 'op': op, 'right': b, 'round': rep})
    # numeric text is text WRITTEN like a number (an independent scanner, not python's float()): everything else is
    # "other text" and gives #VALUE! in arithmetic - also nan, inf, 1_0, hexadecimal, digits of other scripts, 1e400
    def written_like_a_number(t):
        t = t.strip(' \t\n\r\x0b\x0c')
        if t[:1] in '+-':
            t = t[1:]
        mant, _, expo = t.lower().partition('e')
        if 'e' in t.lower():
            if expo[:1] in '+-':
                expo = expo[1:]
            if not expo or any(ch not in '0123456789' for ch in expo):
                return False
        ip, dot, fp = mant.partition('.')
        if any(ch not in '0123456789' for ch in ip + fp) or not (ip or fp):
            return False
        try:
            return abs(float(t)) < float('inf')
        except (ValueError, OverflowError):
            return False
    texts = ['nan', 'NaN', 'inf', '-inf', 'Infinity', '+infinity', '1_0', '1__0', '_1', '0x10', '0b1', '1e400', '-1e999',
             '\u0661\u0661', '\uff11', '1e', 'e1', '1e+', '.', '+', '-', '+.e1', '--1', '1 2', '1,000', '$3', '3%', '',
             ' ', '1', ' 1', '1 ', '\t1\n', '007', '+7', '-7', '.5', '5.', '-.5', '1e3', '1E3', '1e-3', '1.5e+2', '12.5',
             '1e30', 'abc', '1a', 'a1']      # (not "TRUE" / "FALSE": logical text counts as 1 / 0 in arithmetic)
    for t in texts:
        for op, other in (('Add', 1), ('Mult', 2), ('Sub', 0.5), ('Div', 4)):
            def chk():
                r1, r2 = shared(t, op, other), shared(other, op, t)
                if written_like_a_number(t):
                    return not isinstance(r1, str) and not isinstance(r2, str) and r1 == r1 and abs(r1) < float('inf')
                return r1 == VALUE_ERROR and r2 == VALUE_ERROR
            R.guard('bounded/numeric_text_is_written_like_a_number', chk, {'text': t, 'op': op, 'other': other})
        R.guard('bounded/numeric_text_is_written_like_a_number',
                lambda: shared(t, 'Eq', t) is True and isinstance(shared(t, 'Lt', 1), bool), {'text': t, 'op': 'Eq/Lt'})
    vals = [v for v in POOL if not is_err(v) and not is_blank(v)]
    triples = list(itertools.product(vals, repeat=3))
    if tier != 'thorough':
        triples = rnd.sample(triples, 6000)
    for a, b, c in triples:
        def chk():
            lt = lambda x, y: call(None, x, 'Lt', y)
            eq = lambda x, y: call(None, x, 'Eq', y)
            ok = (not (lt(a, b) and lt(b, c))) or lt(a, c)
            ok = ok and ((not (eq(a, b) and eq(b, c))) or eq(a, c))
            one = [lt(a, b), eq(a, b), call(None, a, 'Gt', b)]
            return ok and sum(1 for x in one if x) == 1
        R.guard('lemma/transitive_on_non_blank', chk, {'a': a, 'b': b, 'c': c})


def big(v):
    n = num_of(v) if not is_err(v) else None
    return n is not None and abs(n) > 1000


def post_arith_native(a, op, b, r):
    """post_arith with float tolerance-free comparison (same python operations)"""
    import math
    if op == 'Pow' and not (is_err(a) or is_err(b)):
        x, y = num_of(a), num_of(b)
        if x is None or y is None:
            return r == VALUE_ERROR
        return isinstance(r, (int, float, str)) and not isinstance(r, complex)
    return post_arith(None, a, op, b, r)
