"""C19 - rounding family (pycel.excellib)."""
from pyvc.spec import (Bool, Const, Contract, Float, Int, Lemma, NoneT, Str,
                       Tuple, Union, implies)

DIV0 = '#DIV/0!'
NUM_ERROR = '#NUM!'

SYMBOLIC_TWINS = {
    'decimal_of': 'pyvc.decimal_model:sx_decimal_of',
    'pow10': 'pyvc.decimal_model:sx_pow10',
    'to_float': 'pyvc.decimal_model:sx_to_float',
    'floor_': 'pyvc.builtins_model:b_floor',
    'ceil_': 'pyvc.builtins_model:b_ceil',
    'is_multiple': 'pyvc.decimal_model:sx_is_multiple',
}


# -- spec primitives ---------------------------------------------------------------------------

def decimal_of(x):
    """exact rational value of the shortest decimal rendering of x"""
    import decimal
    import fractions
    return fractions.Fraction(decimal.Decimal(repr(x)))


def pow10(d):
    import fractions
    return fractions.Fraction(10) ** d


def to_float(q):
    return float(q)


def floor_(q):
    import math
    return math.floor(q)


def ceil_(q):
    import math
    return math.ceil(q)


def q_round(x, d, mode):
    """the multiple of 10^-d selected by mode for the decimal rendering of x"""
    v = decimal_of(x)
    s = pow10(d)
    a = abs(v) * s
    n = floor_(a)
    if mode == 'half_up':
        if a - n >= pow10(0) / 2:     # ties go away from zero
            n = n + 1
    elif mode == 'up':
        if a - n > 0:
            n = n + 1
    r = n / s
    return to_float(-r if v < 0 else r)


def moderate(number, num_digits):
    return -10 ** 15 <= number <= 10 ** 15


def post_round(number, num_digits, result):
    return result == q_round(number, num_digits, 'half_up')


def post_rounddown(number, num_digits, result):
    return result == q_round(number, num_digits, 'down')


def post_roundup(number, num_digits, result):
    return result == q_round(number, num_digits, 'up')


def pre_int(value1):
    return True


def post_int(value1, result):
    return result <= value1 < result + 1 and result == floor_(value1)


def pre_mod(number, divisor):
    return True


def post_mod(number, divisor, result):
    if divisor == 0:
        return result == DIV0
    # sign of the divisor (or zero) and n = d*INT(n/d) + MOD(n, d)
    sign_ok = (result == 0) or ((result > 0) == (divisor > 0))
    return sign_ok and abs(result) < abs(divisor) and number == divisor * floor_(number / divisor) + result


def pre2(number, significance):
    return True


def is_multiple(result, s):
    """result = s * k for an integer k (exact rational arithmetic on the renderings)"""
    import fractions
    q = fractions.Fraction(result) / fractions.Fraction(s)
    return q.denominator == 1


def post_ceiling(number, significance, result):
    if significance < 0 < number:
        return result == NUM_ERROR
    if number == 0 or significance == 0:
        return result == 0
    s = abs(significance)
    # adjacent multiple at or above x (for negative x with negative significance: at or below,
    # i.e. away from zero, as Excel documents)
    if number < 0 and significance < 0:
        return is_multiple(result, s) and result <= number < result + s
    return is_multiple(result, s) and result - s < number <= result


def post_floor(number, significance, result):
    if significance < 0 < number:
        return result == NUM_ERROR
    if number == 0:
        return result == 0
    if significance == 0:
        return result == DIV0
    s = abs(significance)
    if number < 0 and significance < 0:
        return is_multiple(result, s) and result - s < number <= result
    return is_multiple(result, s) and result <= number < result + s


def pre3(number, significance, mode):
    return True


def post_ceiling_math(number, significance, mode, result):
    if significance == 0:
        return result == 0
    s = abs(significance)
    if mode and number < 0:
        return is_multiple(result, s) and result <= number < result + s     # away from zero
    return is_multiple(result, s) and result - s < number <= result


def post_floor_math(number, significance, mode, result):
    if significance == 0:
        return result == 0
    s = abs(significance)
    if mode and number < 0:
        return is_multiple(result, s) and result - s < number <= result     # toward zero
    return is_multiple(result, s) and result <= number < result + s


def post_ceiling_precise(number, significance, result):
    if significance == 0:
        return result == 0
    s = abs(significance)
    return is_multiple(result, s) and result - s < number <= result


def post_floor_precise(number, significance, result):
    if significance == 0:
        return result == 0
    s = abs(significance)
    return is_multiple(result, s) and result <= number < result + s


def pre1(value):
    return True


def post_even(value, result):
    """smallest even integer with |result| >= |value|, sign of value"""
    a = abs(value)
    r = abs(result)
    return (r == 2 * floor_(r / 2) and r >= a and r - 2 < a and
            implies(value > 0, result >= 0) and implies(value < 0, result <= 0))


def post_odd(value, result):
    a = abs(value)
    r = abs(result)
    return (r == 2 * floor_((r - 1) / 2) + 1 and r >= a and (r - 2 < a or r == 1) and
            implies(value > 0, result > 0) and implies(value < 0, result < 0))


X = 'pycel.excellib:'
num = Union(Int(), Float())

# CEILING / FLOOR work on the numbers AS WRITTEN through two helpers (Fraction(repr(x))): they are executed inline; in the
# real-number model of the proofs (A-FLOAT, A-REPR: the shortest rendering of x denotes x) Fraction(repr(x)) is x, so the
# clauses are about real division / multiplication; that the helpers are decimal-exact in binary floating point is what
# the stand-in checks on decimal grids
HELPERS = []
digits = Union(*[Const(d) for d in range(-4, 7)])

CONTRACTS = [
    Contract(X + 'round_', 'C19', params=dict(number=num, num_digits=digits), requires=[moderate],
             ensures=[post_round]),
    Contract(X + 'rounddown', 'C19', params=dict(number=num, num_digits=digits), requires=[moderate],
             ensures=[post_rounddown]),
    Contract(X + 'roundup', 'C19', params=dict(number=num, num_digits=digits), requires=[moderate],
             ensures=[post_roundup]),
    Contract(X + 'trunc', 'C19', params=dict(number=num, num_digits=digits), requires=[moderate],
             ensures=[post_rounddown]),
    Contract(X + 'int_', 'C19', params=dict(value1=num), requires=[pre_int], ensures=[post_int]),
    Contract(X + 'mod', 'C19', params=dict(number=num, divisor=num), requires=[pre_mod], ensures=[post_mod]),
    Contract(X + 'ceiling', 'C19', params=dict(number=num, significance=num), requires=[pre2],
             ensures=[post_ceiling], modular=HELPERS),
    Contract(X + 'floor', 'C19', params=dict(number=num, significance=num), requires=[pre2],
             ensures=[post_floor], modular=HELPERS),
    Contract(X + 'ceiling_math', 'C19',
             params=dict(number=num, significance=num, mode=Union(Const(0), Const(1), Int())),
             requires=[pre3], ensures=[post_ceiling_math], modular=HELPERS),
    Contract(X + 'floor_math', 'C19',
             params=dict(number=num, significance=num, mode=Union(Const(0), Const(1), Int())),
             requires=[pre3], ensures=[post_floor_math], modular=HELPERS),
    Contract(X + 'ceiling_precise', 'C19', params=dict(number=num, significance=num), requires=[pre2],
             ensures=[post_ceiling_precise], modular=HELPERS),
    Contract(X + 'floor_precise', 'C19', params=dict(number=num, significance=num), requires=[pre2],
             ensures=[post_floor_precise], modular=HELPERS),
    Contract(X + 'even', 'C19', params=dict(value=num), requires=[pre1], ensures=[post_even]),
    Contract(X + 'odd', 'C19', params=dict(value=num), requires=[pre1], ensures=[post_odd]),
]



# -- lemmas over the contracts ------------------------------------------------------------------------

def lem_bracket(x, d):
    """ROUNDDOWN <= |x| <= ROUNDUP in magnitude, ROUND lies between them"""
    from pycel.excellib import round_, rounddown, roundup
    lo = abs(rounddown(x, d))
    hi = abs(roundup(x, d))
    mid = abs(round_(x, d))
    v = abs(decimal_of(x))
    return lo <= v <= hi and lo <= mid <= hi and hi - lo <= pow10(-d)


def lem_fixed_points(x, d):
    """exact multiples of 10^-d are fixed by all three"""
    from pycel.excellib import round_, rounddown, roundup
    v = decimal_of(x)
    a = v * pow10(d)
    if a != floor_(a):
        return True
    return round_(x, d) == to_float(v) and rounddown(x, d) == to_float(v) and roundup(x, d) == to_float(v)


def lem_round_is_nearest(x, d):
    """ROUND is within half a unit of x; at exactly half a unit it is the one away from zero"""
    from pycel.excellib import round_
    v = decimal_of(x)
    r = round_(x, d)
    u = pow10(-d)
    diff = abs(r - v)
    return diff * 2 <= u and implies(diff * 2 == u, abs(r) > abs(v))


RD = 'pycel.excellib:rounddown'
RU = 'pycel.excellib:roundup'
RN = 'pycel.excellib:round_'

LEMMAS = [
    Lemma('rounddown_le_x_le_roundup', 'C19', dict(x=num, d=digits), lem_bracket, requires=[moderate],
          modular=[RD, RU, RN]),
    Lemma('exact_multiples_are_fixed', 'C19', dict(x=num, d=digits), lem_fixed_points, requires=[moderate],
          modular=[RD, RU, RN]),
    Lemma('round_is_nearest_ties_away', 'C19', dict(x=num, d=digits), lem_round_is_nearest, requires=[moderate],
          modular=[RN]),
]

LEVEL = 'other'
EXPLANATION = ('Mixed, reported separately. PROVED (SMT; for every real x with |x| <= 1e15 and every digit count '
               '-4..6 as separate scenarios): ROUND/ROUNDDOWN/ROUNDUP/TRUNC equal the decimal rounding of the shortest '
               'rendering of x in the stated mode (over the trusted Decimal model A-DEC/A-REPR), INT, MOD (sign and '
               'division identity), CEILING/FLOOR and their .MATH/.PRECISE variants (adjacent multiple on the documented '
               'side, error cases), EVEN/ODD, and the lemmas bracket / fixed points / nearest-with-ties-away over the '
               'contracts; all under A-FLOAT (floats as reals). BOUNDED (native, never counted as proved): the same '
               'contracts in binary floating point on decimal grids around ties and on dyadic grids, which is where '
               'A-FLOAT could hide a defect.')
ASSUMPTIONS = ['A-SUBSET', 'A-FLOAT: float arithmetic is real arithmetic in the proved part']
for _c in CONTRACTS[:3]:
    _c.returns = Float()


# -- bounded stand-in (native, binary floating point) ---------------------------------------------------

def bounded(tier, seed, R):
    import fractions
    import random
    from pycel import excellib as X
    F = fractions.Fraction
    rnd = random.Random(seed)
    thorough = tier == 'thorough'
    R.rule = ('decimal grid x = k/10^j (k near ties, near-ties and random, j = 0..6, both signs) x digits -6..6 '
              'for ROUND/ROUNDDOWN/ROUNDUP/TRUNC against the rational oracle; awkward floats (0.1+0.2, 1e15+0.3, '
              '16/17 digit reprs); MOD on decimal and integer pairs in exact rational arithmetic of the binary values; '
              'CEILING/FLOOR family, INT, EVEN, ODD on dyadic grids (exact float arithmetic) and the CEILING/FLOOR family on decimal grids '
              '(numbers as written, Fraction(repr(.)) of operands and result)')
    ks = set()
    for base in (0, 1, 2, 5, 15, 25, 45, 125, 995, 1005, 12345, 99995, 100005, 250000, 999999):
        for dlt in (-1, 0, 1):
            ks.add(base + dlt)
    ks |= {rnd.randint(0, 10 ** 7) for _ in range(400 if not thorough else 20000)}
    xs = []
    for k in sorted(ks):
        for j in range(0, 7):
            xs.append(k / 10 ** j)
    xs += [0.1 + 0.2, 0.30000000000000004, 0.7999999999999999, 1e15 + 0.3, 1234567890123456.0, 2.675, 1.005,
           0.5, 1.5, 2.5, 0.05, 0.15, 0.25, 0.35, 8.9, 0.29, 0.57, 1.15, 4.35, 1e-7, 123456789.987654321]
    ints = [0, 1, 5, 15, 25, 35, 45, 55, 149, 150, 151, 1234567, 10 ** 15, 4503599627370497]
    R.bound = f'{len(xs) * 2} decimal inputs x 13 digit counts; {len(ints) * 2} integers'
    fns = (('round_/post#0:post_round', X.round_, 'half_up'), ('rounddown/post#0:post_rounddown', X.rounddown, 'down'),
           ('roundup/post#0:post_roundup', X.roundup, 'up'), ('trunc/post#0:post_rounddown', X.trunc, 'down'))
    for x0 in xs + ints:
        for x in (x0, -x0):
            for d in range(-6, 7):
                for name, f, mode in fns:
                    R.guard(name, lambda: f(x, d) == q_round(x, d, mode), {'x': x, 'digits': d})
    # MOD: exact arithmetic on the binary values
    pairs = [(1.7, 0.1), (6.3, 2.1), (-1.7, -0.1), (10, 4), (-10, 4), (10, -4), (2.2, 1), (2, 1.1), (5.5, 0.5),
             (10 ** 17 + 1, 7), (1e-9, 3), (7, 7), (0, 5), (0.3, 0.1), (-0.3, 0.1), (1e15, 0.7)]
    # exact multiples and near-multiples on a dyadic grid (exact in binary), all four sign combinations
    for d_ in (0.25, 0.5, 1.5, 2.5, 1.0, 3.0):
        for k_ in range(-6, 7):
            for sgn in (1, -1):
                pairs += [(k_ * d_, sgn * d_), (k_ * d_ + 0.125, sgn * d_), (float(k_), sgn * d_), (k_, sgn * d_)]
    pairs += [(rnd.randint(-10 ** 6, 10 ** 6) / 100, rnd.randint(1, 10 ** 4) / 100 * rnd.choice((1, -1)))
              for _ in range(300 if not thorough else 20000)]
    for n, d in pairs:
        def chk():
            # the contract is over reals (A-FLOAT); natively the result of a float `%` whose operands differ in sign is
            # rounded once (fmod + divisor), so the identity n = d * INT(n / d) + MOD(n, d) is checked to within that rounding
            import math
            r = X.mod(n, d)
            if post_mod(F(n), F(d), F(r)):
                return True
            fn, fd, fr = F(n), F(d), F(r)
            sign_ok = (fr == 0) or ((fr > 0) == (fd > 0))
            err = abs(fn - (fd * math.floor(fn / fd) + fr))
            return sign_ok and abs(fr) <= abs(fd) and err <= F(math.ulp(max(abs(n), abs(d), abs(r))))
        R.guard('mod/post#0:post_mod', chk, {'number': n, 'divisor': d})
    R.guard('mod/post#0:post_mod', lambda: X.mod(5, 0) == DIV0, {'number': 5, 'divisor': 0})
    # dyadic grids: float arithmetic is exact there
    dy = [i / 8 for i in range(-64, 65)]
    sig = [i / 4 for i in range(-12, 13)]
    for x in dy:
        R.guard('int_/post#0:post_int', lambda: post_int(x, X.int_(x)), {'x': x})
        R.guard('even/post#0:post_even', lambda: post_even(F(x), F(X.even(x))), {'x': x})
        R.guard('odd/post#0:post_odd', lambda: post_odd(F(x), F(X.odd(x))), {'x': x})
        for s_ in sig:
            w = {'x': x, 'significance': s_}

            def wrap(post, f, *extra):
                def chk():
                    r = f(x, s_, *extra)
                    if isinstance(r, str):
                        return post(x, s_, *extra, r)
                    return post(F(x), F(s_), *extra, F(r))
                return chk
            R.guard('ceiling/post#0:post_ceiling', wrap(post_ceiling, X.ceiling), w)
            R.guard('floor/post#0:post_floor', wrap(post_floor, X.floor), w)
            R.guard('ceiling_precise/post#0:post_ceiling_precise', wrap(post_ceiling_precise, X.ceiling_precise), w)
            R.guard('floor_precise/post#0:post_floor_precise', wrap(post_floor_precise, X.floor_precise), w)
            for mode in (0, 1, -1):
                R.guard('ceiling_math/post#0:post_ceiling_math', wrap(post_ceiling_math, X.ceiling_math, mode), w)
                R.guard('floor_math/post#0:post_floor_math', wrap(post_floor_math, X.floor_math, mode), w)
    # decimal grids: the numbers AS WRITTEN (0.3 is three tenths): the same clauses over Fraction(repr(.)) of operands and result
    D = lambda v: F(repr(v)) if isinstance(v, float) else F(v)
    dsig = [0.1, 0.2, 0.05, 0.25, 0.5, 0.3, 0.01, 1, 2, 3, 0.7]
    dxs = sorted({k / 10 ** j for k in list(range(0, 60)) + [299, 435, 2999, 4350, 12345] for j in (1, 2)}
                 | {rnd.randint(0, 10 ** 5) / 100 for _ in range(60 if not thorough else 3000)})
    for x0 in dxs:
        for x in (x0, -x0):
            for s0 in dsig:
                for s_ in (s0, -s0):
                    w = {'x': x, 'significance': s_}

                    def dwrap(post, f, *extra):
                        def chk():
                            r = f(x, s_, *extra)
                            if isinstance(r, str):
                                return post(x, s_, *extra, r)
                            return post(D(x), D(s_), *extra, D(r))
                        return chk
                    R.guard('ceiling/post#0:post_ceiling', dwrap(post_ceiling, X.ceiling), w)
                    R.guard('floor/post#0:post_floor', dwrap(post_floor, X.floor), w)
                    R.guard('ceiling_precise/post#0:post_ceiling_precise', dwrap(post_ceiling_precise, X.ceiling_precise), w)
                    R.guard('floor_precise/post#0:post_floor_precise', dwrap(post_floor_precise, X.floor_precise), w)
                    for mode in (0, 1):
                        R.guard('ceiling_math/post#0:post_ceiling_math', dwrap(post_ceiling_math, X.ceiling_math, mode), w)
                        R.guard('floor_math/post#0:post_floor_math', dwrap(post_floor_math, X.floor_math, mode), w)
