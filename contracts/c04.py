"""C04 - declared precedents cover every cell a formula actually reads."""
from pyvc.heapspec import (computed, edge, forall_nodes, in_done, in_set, local, old_edge, old_in_set, reads, same_formula,
                           same_node, same_value)
from pyvc.spec import Const, Contract, HeapAddr, HeapCompiler, Lemma, NoneT, implies

SYMBOLIC_TWINS = {}

# -- _process_gen_graph: every declared precedent of a node that was queued gets its edge ------------------------
#
# heap mode, graph construction: cell_map membership, the work list graph_todos and the edge relation are mutable
# heap state; reads(p, d) is "p is one of d.needed_addresses" (what the formula / range declares).

PROCESS = 'pycel.excelcompiler:ExcelCompiler._process_gen_graph'
GEN = 'pycel.excelcompiler:ExcelCompiler._gen_graph'
M, Q = 'cell_map', 'graph_todos'


def linked(d):
    """every address d declares is in the model and has its edge to d"""
    return forall_nodes(lambda p: implies(reads(p, d), in_set(M, p) and edge(p, d)))


def grows_only():
    return (forall_nodes(lambda m: implies(old_in_set(M, m), in_set(M, m)))
            and forall_nodes(lambda p: forall_nodes(lambda d: implies(old_edge(p, d), edge(p, d)))))


def queued_or_linked(d):
    return in_set(Q, d) or linked(d)


def new_computed(d):
    return in_set(M, d) and not old_in_set(M, d) and computed(d)


# contract of _gen_graph(seed, recursed=True) as used here (its body is bounded only): it adds cells, queues every
# computed cell it adds, touches no edge and no existing cell

def gg_post(self, seed, recursed, result):
    return (in_set(M, seed)
            and forall_nodes(lambda m: implies(old_in_set(M, m), in_set(M, m) and same_value(m) and same_formula(m)))
            and forall_nodes(lambda m: implies(old_in_set(Q, m), in_set(Q, m)))
            and forall_nodes(lambda n: implies(new_computed(n), in_set(Q, n)))
            and forall_nodes(lambda p: forall_nodes(lambda d: edge(p, d) == old_edge(p, d))))


def gg_raise_frame(self, seed, recursed):
    """when building a precedent fails nothing already there is lost"""
    return (forall_nodes(lambda m: implies(old_in_set(M, m), in_set(M, m) and same_value(m) and same_formula(m)))
            and forall_nodes(lambda m: implies(old_in_set(Q, m), in_set(Q, m)))
            and forall_nodes(lambda n: implies(new_computed(n), in_set(Q, n)))
            and forall_nodes(lambda p: forall_nodes(lambda d: edge(p, d) == old_edge(p, d))))


BUILD_ERRORS = ('NotImplementedError', 'ValueError', 'FormulaParserError', 'KeyError', 'AttributeError')


def pg_all_linked(self, result):
    """normal exit: nothing is left queued; every node queued on entry and every computed node added on the way
    has all its declared precedents in the model and linked"""
    return (forall_nodes(lambda d: not in_set(Q, d))
            and forall_nodes(lambda d: implies(old_in_set(Q, d) or new_computed(d), linked(d))))


def pg_grows_only(self, result):
    return grows_only()


def lost(d):
    return (old_in_set(Q, d) or new_computed(d)) and not in_set(Q, d) and not linked(d)


def pg_failure_loses_at_most_the_node_in_progress(self):
    """exceptional exit: every node that still needs connecting is still queued - except, at most, the one node
    whose precedent could not be built"""
    return (grows_only()
            and forall_nodes(lambda a: forall_nodes(lambda b: implies(lost(a) and lost(b), same_node(a, b)))))


def pg_heap_havoc(vr, interp):
    from pyvc import heapmodel as HM
    interp.ex.heap = HM.fresh_heap(interp.ex, 'while')


# loop 0: while self.graph_todos
def w_grows_only(self):
    return grows_only()


def w_pending_are_queued_or_linked(self):
    return forall_nodes(lambda d: implies(old_in_set(Q, d) or new_computed(d), queued_or_linked(d)))


# loop 1: for precedent_address in dependant.needed_addresses
def f_grows_only(self):
    return grows_only()


def f_done_are_linked(self):
    d = local('dependant')
    return forall_nodes(lambda p: implies(in_done(p), in_set(M, p) and edge(p, d)))


def f_others_queued_or_linked(self):
    d = local('dependant')
    return forall_nodes(lambda x: implies((old_in_set(Q, x) or new_computed(x)) and not same_node(x, d),
                                          queued_or_linked(x)))


ASSUMED = [
    Contract(GEN, 'C04', heap=True, params=dict(self=HeapCompiler(building=True), seed=HeapAddr(), recursed=Const(True)),
             ensures=[gg_post], raises={e: gg_raise_frame for e in BUILD_ERRORS}, returns=NoneT(), klass='BOUNDED',
             notes='_gen_graph / _make_cells (openpyxl, formula parsing): bounded only; used by _process_gen_graph through '
                   'this frame: cells are only added, every computed cell added is queued, no edge is touched'),
]

CONTRACTS = [
    Contract(PROCESS, 'C04', heap=True, modular=[GEN],
             params=dict(self=HeapCompiler(cycles=False, building=True)),
             ensures=[pg_all_linked, pg_grows_only],
             raises={e: pg_failure_loses_at_most_the_node_in_progress for e in BUILD_ERRORS},
             returns=NoneT(),
             invariants={0: dict(inv=[w_grows_only, w_pending_are_queued_or_linked], havoc=pg_heap_havoc),
                         1: [f_grows_only, f_done_are_linked, f_others_queued_or_linked]}),    # (ordinals: breadth-first)
]
LEMMAS = []


def _reference_forms():
    """(cell, formula) lists over sheets S and T covering the written reference forms of the supported grammar"""
    inputs = {f'{c}{r}': (ord(c) - 64) * 10 + r for c in 'ABC' for r in (1, 2, 3)}
    inputs.update({f'T!{c}{r}': (ord(c) - 64) * 100 + r for c in 'ABC' for r in (1, 2, 3)})
    forms = {
        'E1': '=A1+B2',                         # plain
        'E2': '=T!A2*2',                        # sheet-qualified
        'E3': '=$A$1+A$2+$B3',                  # absolute
        'E4': '=SUM(A1:B2)',                    # range
        'E5': '=SUM(A1:A3)+T!A2',               # range + cell of another sheet at an overlapping coordinate
        'E6': '=SUM(A1:B3 B2:C3)',              # intersection
        'E7': '=SUM((A1:A2,C1:C2))',            # union
        'E8': '=SUM(A1:B2:C3)',                 # multi-colon
        'E9': '=SUM(T!A1:B2)+SUM(T!A:A)',       # sheet-qualified range, whole column
        'E10': '=INDEX(A1:C3,2,3)+ROW(B2)+COLUMN(C3)',
        'E11': '=SUM(myname)+onecell',          # defined names
        'E12': '=IF(A1>0,B1,C1)+IFERROR(A2/B2,C2)',
        'E13': '=E1+E4+E12',                    # formulas over formulas
        'T!E1': '=A1+S!B1',                     # unqualified on T, qualified back to S
        'T!E2': '=SUM(A1:A3)+S!A2',
        'E14': '=SUM(1:1)',                     # whole row
        'E15': '=VLOOKUP(A2,A1:C3,2,FALSE)',
        'E16': '=MAX(A1:A3,T!B1:B3,C2)',
    }
    # E14 reads the whole of row 1 of S including E1 ... make sure E1 is not circular with it: fine (E1 reads A1, B2)
    return inputs, forms


def _build(W, inputs, forms, arrays=None):
    wb = W.WB(inputs, forms, 'reference-forms', arrays)
    book = W.to_openpyxl(wb)
    from openpyxl.workbook.defined_name import DefinedName
    try:
        book.defined_names['myname'] = DefinedName('myname', attr_text='S!$B$1:$B$3')
        book.defined_names['onecell'] = DefinedName('onecell', attr_text='T!$C$3')
    except TypeError:
        book.defined_names.append(DefinedName('myname', attr_text='S!$B$1:$B$3'))
        book.defined_names.append(DefinedName('onecell', attr_text='T!$C$3'))
    return wb, book


class Tracer:
    """records (reader, address read) for every _C_ / _R_ call made while a cell's formula is being evaluated"""

    def __init__(self, comp):
        self.comp = comp
        self.stack = []
        self.reads = []
        ev, evr = comp._evaluate, comp._evaluate_range

        def t_evaluate(address):
            if self.stack:
                self.reads.append((self.stack[-1], str(address)))
            return ev(address)

        def t_evaluate_range(address):
            if self.stack:
                self.reads.append((self.stack[-1], str(address)))
            return evr(address)
        comp._evaluate, comp._evaluate_range = t_evaluate, t_evaluate_range
        inner = comp.eval          # builds the evaluation context with the traced readers

        def t_eval(cell, cse_array_address=None):
            self.stack.append(cell)
            try:
                return inner(cell, cse_array_address)
            finally:
                self.stack.pop()
        comp._eval = t_eval


def uncovered_reads(comp, tracer):
    """reads that are neither declared nor linked.  A read of address a by node d is covered when a is a needed
    address of d with the edge a -> d, or - cell by cell - when every cell of a lies inside a range r that is a needed
    address of d, with the edges cell -> r -> d (a computed sub-range of declared ranges, e.g. an intersection)"""
    from pycel.excelutil import AddressRange
    bad = []
    g = comp.dep_graph
    for reader, a in tracer.reads:
        declared = [x.address for x in reader.needed_addresses]
        addr = AddressRange(a)
        node_a = comp.cell_map.get(a)
        direct = (a in declared and node_a is not None and node_a in g and reader in g and g.has_edge(node_a, reader))
        if direct:
            continue
        members = [addr] if not addr.is_range else [c for row in addr.rows for c in row]
        why = None
        for m in members:
            ok = False
            cm = comp.cell_map.get(m.address)
            for r in declared:
                ra = AddressRange(r)
                if ra.is_range and ra.sheet == m.sheet and m in ra:
                    rn = comp.cell_map.get(r)
                    if cm is not None and rn is not None and g.has_edge(cm, rn) and g.has_edge(rn, reader):
                        ok = True
            if not ok:
                why = m.address
                break
        if why is not None:
            bad.append((str(reader.address), a, 'declared' if a in declared else 'not declared', f'no edge path for {why}'))
    return bad


def bounded(tier, seed, R):
    import logging
    import os
    import random
    from contracts import wbgen as W
    from pycel import ExcelCompiler
    logging.disable(logging.CRITICAL)
    rnd = random.Random(seed)
    thorough = tier == 'thorough'
    R.rule = ('a two-sheet workbook with every written reference form (plain, sheet-qualified, absolute, range, intersection, '
              'union, multi-colon, whole row / column, defined names, INDEX / ROW / COLUMN / VLOOKUP forms, formulas over '
              'formulas, CSE members) plus the grammar workbooks: every _C_ / _R_ call made while a formula is evaluated is '
              'traced; each read must be a declared precedent (or inside a declared range) and have its edge in dep_graph '
              '(directly or through that range node); then for every input cell: set_value and compare every formula with a '
              'from-scratch compile (an unlinked read shows as a stale value); also after a failed graph build (external link / '
              'unparsable precedent) the cells queued with it still get their edges')
    inputs, forms = _reference_forms()
    arrays = {'G1': ('G1:G3', '=A1:A3*T!B1:B3'), 'H1': ('H1:I1', '=$A$1:$B$1*2')}
    cases = [(inputs, forms, arrays)]
    for wb in W.grammar(rnd, 9 if not thorough else 27) + W.cse_grammar(rnd, 4):
        cases.append((wb.inputs, wb.formulas, wb.arrays))
    R.bound = f'{len(cases)} workbooks x evaluation orders x every input changed in turn'
    with W.TmpDir() as tmp:
        for ci, (ins, fs, arrs) in enumerate(cases):
            wb, book = _build(W, ins, fs, arrs)
            cells = list(fs) + wb.array_cells()
            for trial in range(2 if not thorough else 5):
                order = cells[:]
                rnd.shuffle(order)
                w = {'workbook': repr(wb)[:600], 'order': order}

                def traced():
                    comp = ExcelCompiler(excel=_build(W, ins, fs, arrs)[1])
                    tr = Tracer(comp)
                    for c in order:
                        comp.evaluate(W.addr(c))
                    bad = uncovered_reads(comp, tr)
                    if bad:
                        w['uncovered'] = bad[:6]
                    w['reads_traced'] = len(tr.reads)
                    return not bad and len(tr.reads) > 0
                R.guard('bounded/every_read_is_declared_and_linked', traced, w)
            # consequence: changing any input reaches every formula that reads it
            input_cells = [c for c in ins if isinstance(ins[c], (int, float)) and not isinstance(ins[c], bool)]
            for c in input_cells if thorough or ci == 0 else input_cells[:4]:
                w = {'workbook': repr(wb)[:600], 'changed': c}

                def stale():
                    comp = ExcelCompiler(excel=_build(W, ins, fs, arrs)[1])
                    for f in cells:
                        comp.evaluate(W.addr(f))
                    comp.evaluate(W.addr(c))
                    comp.set_value(W.addr(c), 777)
                    ins2 = dict(ins)
                    ins2[c] = 777
                    ref = ExcelCompiler(excel=_build(W, ins2, fs, arrs)[1])
                    diff = []
                    for f in cells:
                        got, want = comp.evaluate(W.addr(f)), ref.evaluate(W.addr(f))
                        if not W.same(got, want):
                            diff.append((f, got, want))
                    if diff:
                        w['stale'] = diff[:4]
                    return not diff
                R.guard('bounded/changed_input_reaches_its_readers', stale, w)
        # a failed graph build must not lose the edges of the cells queued with it
        ins = {'A1': 1, 'A2': 2, 'A3': 3}
        for top in ('=B3+B2', '=B2+B3', '=SUM(B1:B3)', '=B1+B2+B3'):
            fs = {'B1': '=A1+1', 'B2': '=A2+[1]Other!A1', 'B3': '=A3*2', 'C1': '=B1+B3', 'D1': top}
            w = {'workbook': repr(fs), 'failing_top': top}

            def after_failure():
                wb, book = _build(W, ins, fs)
                comp = ExcelCompiler(excel=book)
                tr = Tracer(comp)
                try:
                    comp.evaluate('S!D1')      # needs the external link: cannot be built
                    return False
                except Exception as e:
                    w['first_error'] = type(e).__name__
                ok = True
                for c, want in (('B1', 2), ('B3', 6), ('C1', 8)):
                    ok = ok and comp.evaluate(W.addr(c)) == want
                bad = uncovered_reads(comp, tr)
                comp.evaluate('S!A1'); comp.set_value('S!A1', 10)
                comp.evaluate('S!A3'); comp.set_value('S!A3', 30)
                vals = [comp.evaluate(W.addr(c)) for c in ('B1', 'B3', 'C1')]
                if bad or vals != [11, 60, 71]:
                    w['uncovered'] = bad[:4]
                    w['after_set'] = vals
                return ok and not bad and vals == [11, 60, 71]
            R.guard('bounded/edges_survive_a_failed_build', after_failure, w)


LEVEL = 'other'
EXPLANATION = ('Mixed. PROVED by SMT (heap mode with mutable cell_map membership, work list and edge relation; while-loop cut at an '
               'invariant, inner loop over the abstract set of needed addresses with a ghost visited set; modular _gen_graph '
               'with exceptional exits): ExcelCompiler._process_gen_graph - on normal exit nothing is left queued and every node '
               'queued on entry or added on the way has all its declared precedents in the model and linked by an edge; edges and '
               'cells are only added; when building a precedent raises, every node that still needs connecting is still queued, '
               'except at most the one node in progress. The link between what a formula READS at run time and what it DECLARES '
               '(code generator vs. token scanner over the generated text, tokenize module) is out of reach of the prover: BOUNDED '
               '(native) by tracing every _C_ / _R_ call while evaluating a two-sheet workbook with every written reference form '
               '(plain, sheet-qualified, absolute, range, intersection, union, multi-colon, whole row / column, defined names, '
               'INDEX / ROW / COLUMN / VLOOKUP, formulas over formulas, CSE members) and the grammar workbooks, in random '
               'evaluation orders; each read must be declared (or inside declared ranges) and linked; every input changed in turn '
               'against a from-scratch compile; failed graph builds.')
ASSUMPTIONS = ['A-NX', 'A-EVAL', 'address text <-> node is a bijection', 'reads(p, d) abstracts d.needed_addresses (ExcelFormula.needed_addresses '
               '/ _CellRange.needed_addresses): their content is bounded only',
               '_gen_graph contract (cells only added, every computed cell added is queued, no edge touched, also on failure): '
               'ASSUMED, its body (_make_cells, openpyxl) is bounded only']
BOUNDED_FUNCTIONS = [
    Contract('pycel.excelformula:ExcelFormula.needed_addresses', 'C04', params={}, klass='BOUNDED',
             notes='token scan of generated python text (tokenize): no SMT model of the tokenizer'),
    Contract('pycel.excelformula:RangeNode._emit', 'C04', params={}, klass='BOUNDED', notes='emission shape _C_/_R_("addr")'),
    Contract('pycel.excelcompiler:ExcelCompiler._make_cells', 'C04', params={}, klass='BOUNDED', notes='openpyxl access'),
]
