"""C13 - array (CSE) formulas: pointwise lifting and exact target shape."""
from pyvc.spec import (Abstract, Array, Bool, Const, Contract, Float, Int, Lemma,
                       NoneT, Record, Str, Tuple, Union, forall_range, implies)

NA_ERROR = '#N/A'


# -- fit_to_range: exact target shape ----------------------------------------------------------------------------

def mk_size(height=1, width=1):
    from pycel.excelutil import AddressSize
    return AddressSize(height, width)


def mk_ctx_addr(size=None):
    import types
    return types.SimpleNamespace(size=size)


def mk_ctx(ctx_address=None):
    """native: the real context object with the target pushed (as `with ctx(address):` does)"""
    from pycel.excelutil import _ArrayFormulaContext
    c = _ArrayFormulaContext()
    c.ns.ctx_addresses = [False, ctx_address]
    return c


size_dom = Record('pycel.excelutil:AddressSize', dict(height=Int(1), width=Int(1)), build=mk_size)
ctx_dom = Record('pycel.excelutil:_ArrayFormulaContext',
                 dict(ctx_address=Record('pycel.excelutil:AddressRange', dict(size=size_dom), build=mk_ctx_addr)),
                 build=mk_ctx)


def pre_fit(self, result):
    return True


def post_fit_array(self, result, out):
    """result is an h x w array, the target is H x W: the fitted value is exactly H x W; a covered
    position holds the element of the same index (a single row / column / cell is repeated), every
    uncovered position is #N/A"""
    H = self.ctx_address.size.height
    W = self.ctx_address.size.width
    h = len(result)
    w = len(result[0])
    return len(out) == H and forall_range(0, H, lambda i: len(out[i]) == W and forall_range(
        0, W, lambda j: out[i][j] == expected_cell(result, h, w, i, j)))


def expected_cell(result, h, w, i, j):
    si = 0 if h == 1 else i          # one row is repeated down
    sj = 0 if w == 1 else j          # one column is repeated across
    if si < h and sj < w:
        return result[si][sj]
    return NA_ERROR


def post_fit_scalar(self, result, out):
    H = self.ctx_address.size.height
    W = self.ctx_address.size.width
    return len(out) == H and forall_range(0, H, lambda i: len(out[i]) == W and forall_range(
        0, W, lambda j: out[i][j] == result))


FIT = 'pycel.excelutil:_ArrayFormulaContext.fit_to_range'
scalar = Union(NoneT(), Bool(), Int(), Float(), Str())


# -- cse_array_wrapper: pointwise lifting ----------------------------------------------------------------------------

def pre_cse(f, param_indices, args):
    return True


def post_cse_pointwise(f, param_indices, args, result):
    """two equally shaped arrays: an h x w result whose (r, c) element is f of the (r, c) elements"""
    a = args[0]
    b = args[1]
    h = len(a)
    w = len(a[0])
    return len(result) == h and forall_range(0, h, lambda r: len(result[r]) == w and forall_range(
        0, w, lambda c: result[r][c] == f(a[r][c], b[r][c])))


def post_cse_scalar_and_array(f, param_indices, args, result):
    a = args[0]
    s = args[1]
    h = len(a)
    w = len(a[0])
    return len(result) == h and forall_range(0, h, lambda r: len(result[r]) == w and forall_range(
        0, w, lambda c: result[r][c] == f(a[r][c], s)))


def post_cse_scalars(f, param_indices, args, result):
    return result == f(args[0], args[1])


def same_shape(f, param_indices, args):
    return len(args[0]) == len(args[1]) and len(args[0][0]) == len(args[1][0])


def call_cse(f, param_indices, args):
    from pycel.lib.function_helpers import cse_array_wrapper
    return cse_array_wrapper(f, param_indices)(*args)


def native_f(a, b):
    return ('f', a, b)


FH = 'pycel.lib.function_helpers:'
fn2 = Abstract('f', returns=Float())

CONTRACTS = [
    Contract(FIT, 'C13', params=dict(self=ctx_dom, result=Array(2)), requires=[pre_fit],
             ensures=[post_fit_array]),
    Contract(FIT, 'C13', name='fit_to_range[scalar]', params=dict(self=ctx_dom, result=scalar), requires=[pre_fit],
             ensures=[post_fit_scalar]),
    Contract(FH + 'cse_array_wrapper.wrapper', 'C13', name='cse_array_wrapper.wrapper[array,array]',
             params=dict(f=fn2, param_indices=Const((0, 1)), args=Tuple(Array(2), Array(2))),
             closure_env=(FH + 'cse_array_wrapper', ['f', 'param_indices']), requires=[same_shape],
             ensures=[post_cse_pointwise], native_call='call_cse'),
    Contract(FH + 'cse_array_wrapper.wrapper', 'C13', name='cse_array_wrapper.wrapper[array,scalar]',
             params=dict(f=fn2, param_indices=Const((0, 1)), args=Tuple(Array(2), scalar)),
             closure_env=(FH + 'cse_array_wrapper', ['f', 'param_indices']), requires=[pre_cse],
             ensures=[post_cse_scalar_and_array], native_call='call_cse'),
    Contract(FH + 'cse_array_wrapper.wrapper', 'C13', name='cse_array_wrapper.wrapper[scalar,scalar]',
             params=dict(f=fn2, param_indices=Const((0, 1)), args=Tuple(scalar, scalar)),
             closure_env=(FH + 'cse_array_wrapper', ['f', 'param_indices']), requires=[pre_cse],
             ensures=[post_cse_scalars], native_call='call_cse'),
]

LEMMAS = []
LEVEL = 'other'
EXPLANATION = 'C13'
ASSUMPTIONS = ['A-SUBSET']


# -- bounded stand-in -----------------------------------------------------------------------------------------------

def bounded(tier, seed, R):
    import itertools
    import os
    import random
    import tempfile
    from pycel.excelutil import build_operator_operand_fixup, in_array_formula_context, AddressRange
    from pycel.lib.function_helpers import cse_array_wrapper
    rnd = random.Random(seed)
    thorough = tier == 'thorough'
    R.rule = ('operators on every pair of shapes up to 3x3 incl. scalar / single row / single column broadcasting through '
              'the real array_fixup (numpy); cse_array_wrapper on equally shaped arrays and scalars; fit_to_range for every '
              'result shape x target shape up to 4x4; member cells of array formulas through a saved workbook')
    fix = build_operator_operand_fixup(lambda *a: None)
    shapes = [None] + [(r, c) for r in (1, 2, 3) for c in (1, 2, 3)]

    def mk(shape, base):
        if shape is None:
            return base
        return tuple(tuple(base + 10 * i + j for j in range(shape[1])) for i in range(shape[0]))

    def cell(a, shape, i, j):
        if shape is None:
            return a
        return a[0 if shape[0] == 1 else i][0 if shape[1] == 1 else j]
    n = 0
    for sa in shapes:
        for sb in shapes:
            if sa is None and sb is None:
                continue
            dims = [s for s in (sa, sb) if s is not None]
            h = max(d[0] for d in dims)
            w = max(d[1] for d in dims)
            compatible = all(d[0] in (1, h) and d[1] in (1, w) for d in dims)
            if not compatible:
                continue
            a, b = mk(sa, 1), mk(sb, 100)
            for op in ('Add', 'Mult', 'Lt', 'BitAnd'):
                def chk():
                    out = fix(a, op, b)
                    return len(out) == h and all(len(out[i]) == w and all(
                        out[i][j] == fix(cell(a, sa, i, j), op, cell(b, sb, i, j)) for j in range(w)) for i in range(h))
                R.guard('bounded/operator_broadcast', chk, {'left_shape': sa, 'right_shape': sb, 'op': op})
                n += 1
    # element values of every kind, error values and text included - also as the scalar operand
    epool = [1, 2.5, 0, 'a', '7', None, True, '#N/A', '#DIV/0!', '#VALUE!']
    for sa in shapes:
        for sb in shapes:
            if sa is None and sb is None:
                continue
            dims = [s_ for s_ in (sa, sb) if s_ is not None]
            h = max(d[0] for d in dims)
            w = max(d[1] for d in dims)
            if not all(d[0] in (1, h) and d[1] in (1, w) for d in dims):
                continue
            for _ in range(6 if not thorough else 60):
                fill = lambda sh_: (rnd.choice(epool) if sh_ is None else
                                    tuple(tuple(rnd.choice(epool) for _ in range(sh_[1])) for _ in range(sh_[0])))
                a, b = fill(sa), fill(sb)
                op = rnd.choice(('Add', 'Mult', 'Div', 'Lt', 'Eq', 'BitAnd'))

                def chk():
                    out = fix(a, op, b)
                    return isinstance(out, tuple) and len(out) == h and all(len(out[i]) == w and all(
                        out[i][j] == fix(cell(a, sa, i, j), op, cell(b, sb, i, j)) for j in range(w)) for i in range(h))
                R.guard('bounded/operator_broadcast', chk, {'left': a, 'right': b, 'op': op})
    f2 = cse_array_wrapper(lambda x, y: (x, y), (0, 1))
    for sh in shapes[1:]:
        a, b = mk(sh, 1), mk(sh, 500)
        R.guard('cse_array_wrapper.wrapper[array,array]/post#0:post_cse_pointwise',
                lambda: post_cse_pointwise(lambda x, y: (x, y), (0, 1), (a, b), f2(a, b)), {'shape': sh})
        R.guard('cse_array_wrapper.wrapper[array,scalar]/post#0:post_cse_scalar_and_array',
                lambda: post_cse_scalar_and_array(lambda x, y: (x, y), (0, 1), (a, 7), f2(a, 7)), {'shape': sh})
    mx = 4 if not thorough else 5
    for h in range(1, mx + 1):
        for w in range(1, mx + 1):
            res = mk((h, w), 1)
            for H in range(1, mx + 1):
                for W in range(1, mx + 1):
                    ctx = mk_ctx(mk_ctx_addr(mk_size(H, W)))
                    R.guard('_ArrayFormulaContext.fit_to_range/post#0:post_fit_array',
                            lambda: post_fit_array(ctx, res, ctx.fit_to_range(res)),
                            {'result_shape': (h, w), 'target': (H, W)})
    for H in range(1, mx + 1):
        for W in range(1, mx + 1):
            ctx = mk_ctx(mk_ctx_addr(mk_size(H, W)))
            R.guard('fit_to_range[scalar]/post#0:post_fit_scalar', lambda: post_fit_scalar(ctx, 5, ctx.fit_to_range(5)),
                    {'target': (H, W)})
    # member cells of array formulas, through a real workbook file
    import openpyxl
    from openpyxl.worksheet.formula import ArrayFormula
    from pycel import ExcelCompiler
    tmpdir = tempfile.mkdtemp(prefix='pycel-verif-c13-', dir=os.environ.get('TMPDIR'))
    try:
        cases = [('E1:F2', '=A1:B2*2', lambda i, j, A: A[i][j] * 2),
                 ('E1:G3', '=A1:B2+10', lambda i, j, A: A[i][j] + 10 if i < 2 and j < 2 else NA_ERROR),
                 ('E1:E3', '=A1:A3+C1:C3', lambda i, j, A: A[i][0] + A[i][2]),
                 ('E1:F1', '=A1:B2*2', lambda i, j, A: A[i][j] * 2),
                 ('E1:F3', '=A1:A3*2', lambda i, j, A: A[i][0] * 2),
                 ('E1:G2', '=A1:C1+1', lambda i, j, A: A[0][j] + 1)]
        for k, (target, formula, exp) in enumerate(cases):
            wb = openpyxl.Workbook()
            ws = wb.active
            A = [[1, 2, 3], [4, 5, 6], [7, 8, 9]]
            for i in range(3):
                for j in range(3):
                    ws.cell(row=i + 1, column=j + 1, value=A[i][j])
            ws['E1'] = ArrayFormula(target, formula)
            path = os.path.join(tmpdir, f'c13_{k}.xlsx')
            wb.save(path)

            def chk():
                comp = ExcelCompiler(filename=path)
                addr = AddressRange('Sheet!' + target)
                rows = addr.resolve_range
                whole = comp.evaluate('Sheet!' + target)
                whole = whole if isinstance(whole, tuple) else ((whole,),)
                if not isinstance(whole[0], tuple):
                    whole = (whole,) if len(rows) == 1 else tuple((x,) for x in whole)
                ok = True
                for i, row in enumerate(rows):
                    for j, a in enumerate(row):
                        want = exp(i, j, A)
                        ok = ok and comp.evaluate(a.address) == want and whole[i][j] == want
                return ok
            R.guard('bounded/array_formula_members', chk, {'target': target, 'formula': formula})
    finally:
        import shutil
        shutil.rmtree(tmpdir, ignore_errors=True)
    R.bound = f'{n} operator/shape combinations; fit_to_range {mx}^4 shape pairs; {len(cases)} array-formula workbooks'


LEVEL = 'other'
EXPLANATION = ('Mixed. PROVED (SMT, arrays of ANY size): _ArrayFormulaContext.fit_to_range returns exactly the target shape '
               'H x W for every result shape h x w: a covered position holds the element of the same index, a single row / '
               'column / cell is repeated, every uncovered position is #N/A, larger results are trimmed (all nine width/height '
               'branch combinations, the scalar case separately); cse_array_wrapper lifts an abstract function pointwise over '
               'equally shaped arrays and scalars (element (r,c) of the result is f of the (r,c) elements, proved for a '
               'symbolic position). BOUNDED (native): operator broadcasting through numpy (array_fixup) on all shape pairs up '
               'to 3x3, and member cells of array formulas read through openpyxl from saved workbooks.')
ASSUMPTIONS = ['A-SUBSET', 'A-NPBCAST: numpy.array / numpy.broadcast (bounded only)',
               'openpyxl array-formula expansion to CSE_INDEX members (bounded only)']
BOUNDED_FUNCTIONS = [
    Contract('pycel.excelutil:build_operator_operand_fixup.array_fixup', 'C13', params={}, klass='BOUNDED',
             notes='numpy.array / numpy.broadcast'),
    Contract('pycel.excelwrapper:_OpxRange.cell_to_formula', 'C13', params={}, klass='BOUNDED',
             notes='openpyxl cell objects and %-formatted CSE_INDEX strings; exercised through saved workbooks'),
]
