"""C11 - Address algebra: contracts on pycel.excelutil address classes.

Abstraction: an address is (sheet, c0, r0, c1, r1); pycel stores an unbounded
row/column range with 0 in the open coordinate, *meaning* 1..MAX.  Spec
functions below are the set-theoretic reading (`ext` = widened extent).
"""
from pyvc.spec import (Const, Contract, Int, Lemma, NoneT, Record, Ref, Str,
                       Tuple, Union, forall_range, implies)

MAX_COL = 16384
MAX_ROW = 1048576
VALUE_ERROR = '#VALUE!'
NULL_ERROR = '#NULL!'

CELL_CLS = 'pycel.excelutil:AddressCell'
RANGE_CLS = 'pycel.excelutil:AddressRange'


# -- native builders (replay) ------------------------------------------------

def mk_cell(address=None, sheet='', col_idx=0, row=0, coordinate=None):
    from pycel.excelutil import AddressCell
    return AddressCell((col_idx, row, col_idx, row), sheet=sheet)


def mk_range(address=None, sheet='', start=None, end=None, coordinate=None):
    from pycel.excelutil import AddressRange
    return AddressRange((start.col_idx or None, start.row or None,
                         end.col_idx or None, end.row or None), sheet=sheet)


def cell_dom():
    return Record(CELL_CLS, dict(address=Str(), sheet=Str(), col_idx=Int(), row=Int(),
                                 coordinate=Str()), build=mk_cell)


def range_dom():
    return Record(RANGE_CLS, dict(address=Str(), sheet=Str(), start=cell_dom(), end=cell_dom(),
                                  coordinate=Str()), build=mk_range)


def addr_dom():
    return Union(cell_dom(), range_dom())


# -- spec functions ------------------------------------------------------------

def is_cell(a):
    return not isinstance(a, str) and not a.is_range


def is_rng(a):
    return not isinstance(a, str) and a.is_range


def valid_cell(a):
    """A bounded single cell on the sheet grid."""
    return 1 <= a.col_idx <= MAX_COL and 1 <= a.row <= MAX_ROW


def valid_range(a):
    """start/end corners as pycel stores them: both 0 for an open axis, else
    ordered and on the grid; a range is never a single bounded cell."""
    s = a.start
    e = a.end
    if not (s.sheet == a.sheet and e.sheet == a.sheet):
        return False
    cols_ok = (s.col_idx == 0 and e.col_idx == 0) or (1 <= s.col_idx <= e.col_idx <= MAX_COL)
    rows_ok = (s.row == 0 and e.row == 0) or (1 <= s.row <= e.row <= MAX_ROW)
    not_all = not (s.col_idx == 0 and s.row == 0)
    not_single = not (s.col_idx == e.col_idx and s.row == e.row and s.col_idx != 0 and s.row != 0)
    return cols_ok and rows_ok and not_all and not_single


def valid_addr(a):
    if a.is_range:
        return valid_range(a)
    return valid_cell(a)


def ext(a):
    """Widened extent (c0, r0, c1, r1) of an address: the cells it denotes."""
    s = a.start
    e = a.end
    c0 = s.col_idx if s.col_idx != 0 else 1
    r0 = s.row if s.row != 0 else 1
    c1 = e.col_idx if e.col_idx != 0 else MAX_COL
    r1 = e.row if e.row != 0 else MAX_ROW
    return (c0, r0, c1, r1)


def stored(c0, r0, c1, r1):
    """How pycel stores the extent: full axis -> 0 ... no: pycel results of
    & and ** are always stored bounded (explicit numbers)."""
    return (c0, r0, c1, r1)


def in_ext(c, r, x):
    return x[0] <= c <= x[2] and x[1] <= r <= x[3]


def pre_ui(self, other, min_, max_):
    return valid_addr(self) and valid_addr(other)


def post_intersection(self, other, min_, max_, result):
    if self.sheet and other.sheet and self.sheet != other.sheet:
        return result == VALUE_ERROR
    a = ext(self)
    b = ext(other)
    c0 = max(a[0], b[0])
    r0 = max(a[1], b[1])
    c1 = min(a[2], b[2])
    r1 = min(a[3], b[3])
    if c1 < c0 or r1 < r0:
        return result == NULL_ERROR
    if isinstance(result, str):
        return False
    return (ext(result) == (c0, r0, c1, r1) and
            result.sheet == (self.sheet or other.sheet) and
            result.is_range == (not (c0 == c1 and r0 == r1)))


def post_union(self, other, min_, max_, result):
    if self.sheet and other.sheet and self.sheet != other.sheet:
        return result == VALUE_ERROR
    a = ext(self)
    b = ext(other)
    c0 = min(a[0], b[0])
    r0 = min(a[1], b[1])
    c1 = max(a[2], b[2])
    r1 = max(a[3], b[3])
    if isinstance(result, str):
        return False
    return (ext(result) == (c0, r0, c1, r1) and
            result.sheet == (self.sheet or other.sheet) and
            result.is_range == (not (c0 == c1 and r0 == r1)))


def post_result_valid(self, other, min_, max_, result):
    return isinstance(result, str) or valid_addr(result)


UI = 'pycel.excelutil:AddressMixin._union_instersection'

ui_result = Union(Const(VALUE_ERROR), Const(NULL_ERROR), cell_dom(), range_dom())

def post_ui(self, other, min_, max_, result):
    """`&` is called with (max, min), `**` with (min, max)."""
    if min_ is max:
        return post_intersection(self, other, min_, max_, result)
    return post_union(self, other, min_, max_, result)


# -- constructors (tuple branch) ------------------------------------------------

def col_letters(col):
    from openpyxl.utils import get_column_letter
    return get_column_letter(col)


def coord_of(col, row):
    """Printed coordinate of a (possibly open) corner: letters then digits."""
    c = col_letters(col) if col else ''
    r = str(row) if row else ''
    return c + r


def full_address(sheet, coordinate):
    return sheet + '!' + coordinate if sheet else coordinate


def when_tuple(cls, address, sheet):
    """the contract covers the plain-tuple branch of the constructor only"""
    return isinstance(address, tuple) and not hasattr(address, 'sheet')


def pre_cell_new(cls, address, sheet):
    c = address[0]
    r = address[1]
    return ((c is None or 0 <= c <= MAX_COL) and (r is None or 0 <= r <= MAX_ROW) and
            (None not in address or (address[0] == address[2] and address[1] == address[3])))


def post_cell_new(cls, address, sheet, result):
    c = address[0] or 0
    r = address[1] or 0
    return (result.col_idx == c and result.row == r and result.sheet == sheet and
            result.coordinate == coord_of(c, r) and
            result.address == full_address(sheet, result.coordinate) and
            not result.is_range)


def pre_range_new(cls, address, sheet):
    return (all(a is None or 0 <= a <= MAX_ROW for a in address) and
            (address[0] is None or address[0] <= MAX_COL) and
            (address[2] is None or address[2] <= MAX_COL) and
            (None in address or address[0] != address[2] or address[1] != address[3]))


def post_range_new(cls, address, sheet, result):
    return (result.start.col_idx == (address[0] or 0) and result.start.row == (address[1] or 0) and
            result.end.col_idx == (address[2] or 0) and result.end.row == (address[3] or 0) and
            result.sheet == sheet and result.start.sheet == sheet and result.end.sheet == sheet and
            result.coordinate == result.start.coordinate + ':' + result.end.coordinate and
            result.start.coordinate == coord_of(result.start.col_idx, result.start.row) and
            result.end.coordinate == coord_of(result.end.col_idx, result.end.row) and
            result.address == full_address(sheet, result.coordinate) and
            result.is_range)


CELL_NEW = 'pycel.excelutil:AddressCell.__new__'
RANGE_NEW = 'pycel.excelutil:AddressRange.__new__'

coord = Union(Int(), NoneT())
tuple4 = Tuple(Int(), Int(), Int(), Int())

CONTRACTS = [
    Contract(CELL_NEW, 'C11',
             params=dict(cls=Ref(CELL_CLS), address=Tuple(coord, coord, coord, coord), sheet=Str()),
             when=when_tuple, requires=[pre_cell_new], ensures=[post_cell_new],
             returns=cell_dom()),
    Contract(RANGE_NEW, 'C11',
             params=dict(cls=Ref(RANGE_CLS), address=Tuple(coord, coord, coord, coord), sheet=Str()),
             when=when_tuple, requires=[pre_range_new], ensures=[post_range_new],
             returns=range_dom(), modular=[CELL_NEW]),
    Contract(UI, 'C11', modular=[CELL_NEW, RANGE_NEW],
             params=[dict(self=addr_dom(), other=addr_dom(),
                          min_=Ref('builtins:max'), max_=Ref('builtins:min')),
                     dict(self=addr_dom(), other=addr_dom(),
                          min_=Ref('builtins:min'), max_=Ref('builtins:max'))],
             requires=[pre_ui], ensures=[post_ui, post_result_valid],
             returns=ui_result),
]


# -- offsets ----------------------------------------------------------------------

def pre_cell(self, inc):
    return valid_cell(self)


def post_inc_col(self, inc, result):
    return (1 <= result <= MAX_COL and (result - (self.col_idx + inc)) % MAX_COL == 0 and
            implies(inc == 0, result == self.col_idx))


def post_inc_row(self, inc, result):
    return (1 <= result <= MAX_ROW and (result - (self.row + inc)) % MAX_ROW == 0 and
            implies(inc == 0, result == self.row))


def pre_offset(self, row_inc, col_inc):
    return valid_cell(self)


def post_offset(self, row_inc, col_inc, result):
    return (valid_cell(result) and not result.is_range and result.sheet == self.sheet and
            (result.col_idx - (self.col_idx + col_inc)) % MAX_COL == 0 and
            (result.row - (self.row + row_inc)) % MAX_ROW == 0)


def pre_range_offset(self, row_inc, col_inc):
    return valid_range(self) and self.start.row != 0 and self.start.col_idx != 0


def post_range_offset(self, row_inc, col_inc, result):
    return (valid_cell(result) and result.sheet == self.sheet and
            (result.col_idx - (self.start.col_idx + col_inc)) % MAX_COL == 0 and
            (result.row - (self.start.row + row_inc)) % MAX_ROW == 0)


# -- size / containment / enumeration ------------------------------------------------

def pre_range(self):
    return valid_range(self)


def post_size(self, result):
    x = ext(self)
    return result.height == x[3] - x[1] + 1 and result.width == x[2] - x[0] + 1


def bounded_range(a):
    return valid_range(a) and a.start.row != 0 and a.start.col_idx != 0


def pre_contains(self, address):
    return bounded_range(self) and valid_cell(address)


def post_contains(self, address, result):
    return result == in_ext(address.col_idx, address.row, ext(self))


def pre_cell_contains(self, address):
    return valid_cell(self) and valid_cell(address)


def post_cell_contains(self, address, result):
    return result == (self.col_idx == address.col_idx and self.row == address.row and
                      self.sheet == address.sheet and self.address == address.address and
                      self.coordinate == address.coordinate)


def enumerable(self):
    """bounded and smaller than a whole row/column (resolve_range's own assert)"""
    x = ext(self)
    return bounded_range(self) and x[3] - x[1] + 1 < MAX_ROW and x[2] - x[0] + 1 < MAX_COL


def cell_at(c, col, row, sheet):
    return (not c.is_range and c.col_idx == col and c.row == row and c.sheet == sheet)


def post_resolve_range(self, result):
    x = ext(self)
    h = x[3] - x[1] + 1
    w = x[2] - x[0] + 1
    return (len(result) == h and
            forall_range(0, h, lambda i: len(result[i]) == w and forall_range(
                0, w, lambda j: cell_at(result[i][j], x[0] + j, x[1] + i, self.sheet) and
                in_ext(result[i][j].col_idx, result[i][j].row, x))))


def post_rows(self, result):
    x = ext(self)
    h = x[3] - x[1] + 1
    w = x[2] - x[0] + 1
    rows = tuple(tuple(r) for r in result)
    return (len(rows) == h and
            forall_range(0, h, lambda i: len(rows[i]) == w and forall_range(
                0, w, lambda j: cell_at(rows[i][j], x[0] + j, x[1] + i, self.sheet))))


def post_cols(self, result):
    x = ext(self)
    h = x[3] - x[1] + 1
    w = x[2] - x[0] + 1
    cols = tuple(tuple(c) for c in result)
    return (len(cols) == w and
            forall_range(0, w, lambda j: len(cols[j]) == h and forall_range(
                0, h, lambda i: cell_at(cols[j][i], x[0] + j, x[1] + i, self.sheet))))


CONTRACTS += [
    Contract('pycel.excelutil:AddressCell.inc_col', 'C11', params=dict(self=cell_dom(), inc=Int()),
             requires=[pre_cell], ensures=[post_inc_col], returns=Int()),
    Contract('pycel.excelutil:AddressCell.inc_row', 'C11', params=dict(self=cell_dom(), inc=Int()),
             requires=[pre_cell], ensures=[post_inc_row], returns=Int()),
    Contract('pycel.excelutil:AddressCell.address_at_offset', 'C11',
             params=dict(self=cell_dom(), row_inc=Int(), col_inc=Int()),
             requires=[pre_offset], ensures=[post_offset], returns=cell_dom(), modular=[CELL_NEW]),
    Contract('pycel.excelutil:AddressRange.address_at_offset', 'C11',
             params=dict(self=range_dom(), row_inc=Int(), col_inc=Int()),
             requires=[pre_range_offset], ensures=[post_range_offset], returns=cell_dom(),
             modular=[CELL_NEW]),
    Contract('pycel.excelutil:AddressRange.size', 'C11', params=dict(self=range_dom()),
             requires=[pre_range], ensures=[post_size]),
    Contract('pycel.excelutil:AddressRange.__contains__', 'C11',
             params=dict(self=range_dom(), address=cell_dom()),
             requires=[pre_contains], ensures=[post_contains]),
    Contract('pycel.excelutil:AddressCell.__contains__', 'C11',
             params=dict(self=cell_dom(), address=cell_dom()),
             requires=[pre_cell_contains], ensures=[post_cell_contains]),
    Contract('pycel.excelutil:AddressRange.resolve_range', 'C11', params=dict(self=range_dom()),
             requires=[enumerable], ensures=[post_resolve_range], modular=[CELL_NEW]),
    Contract('pycel.excelutil:AddressRange.rows', 'C11', params=dict(self=range_dom()),
             requires=[enumerable], ensures=[post_rows], modular=[CELL_NEW]),
    Contract('pycel.excelutil:AddressRange.cols', 'C11', params=dict(self=range_dom()),
             requires=[enumerable], ensures=[post_cols], modular=[CELL_NEW]),
]


# -- R1C1 relative/absolute decoding (closure of r1c1_boundaries) -----------------------

def r2a_shape(r1_or_c1, cell, n):
    """What the regex R(\\[-?\\d+\\]|\\d+)? / C(...)? can hand over (A-RE, trusted):
    the bare letter, letter + digits, or letter + [signed digits]; n is the
    number written (ghost parameter)."""
    letter = r1_or_c1[0:1]
    return (valid_cell(cell) and (letter == 'R' or letter == 'C') and
            (r1_or_c1 == letter or
             (n >= 0 and r1_or_c1 == letter + str(n)) or
             r1_or_c1 == letter + '[' + str(n) + ']'))


def post_r2a(r1_or_c1, cell, n, result):
    letter = r1_or_c1[0:1]
    is_row = letter == 'R'
    anchor = cell.row if is_row else cell.col_idx
    limit = MAX_ROW if is_row else MAX_COL
    if r1_or_c1 == letter:
        return result == anchor
    if r1_or_c1.endswith(']'):
        # relative: same as the offset functions inc_row / inc_col
        return 1 <= result <= limit and (result - (anchor + n)) % limit == 0
    return result == n


def call_r2a(r1_or_c1, cell, n, pos='min'):
    """native replay: reach the closure through the enclosing function, as
    the first corner (pos='min') or as the second corner of a range ('max')"""
    from pycel.excelutil import r1c1_boundaries
    if pos == 'min':
        if r1_or_c1[0] == 'R':
            return r1c1_boundaries(r1_or_c1 + 'C1', cell=cell)[0][1]
        return r1c1_boundaries('R1' + r1_or_c1, cell=cell)[0][0]
    if r1_or_c1[0] == 'R':
        return r1c1_boundaries('R1C1:' + r1_or_c1 + 'C1', cell=cell)[0][3]
    return r1c1_boundaries('R1C1:R1' + r1_or_c1, cell=cell)[0][2]


# -- sheet names -------------------------------------------------------------------------

def sheet_ok(sheet):
    return True


def post_quote_unquote(sheet, result):
    """unquote_sheetname inverts quote_sheet"""
    return unquote(result) == sheet


def unquote(s):
    from pycel.excelutil import unquote_sheetname
    return unquote_sheetname(s)


# The closure contract (r2a_shape / post_r2a) is NOT discharged deductively: the
# obligation mixes str.substr with int(str) and stays `unknown` in z3 5.1, cvc5
# and z3 4.8 (8 minutes, no answer).  It is therefore checked by the bounded
# stand-in below (labelled bounded, never counted as proved).
R2A_BOUNDED = Contract('pycel.excelutil:r1c1_boundaries.from_relative_to_absolute', 'C11',
                       params=dict(r1_or_c1=Str(), cell=cell_dom(), n=Int()), free_vars=['cell'],
                       requires=[r2a_shape], ensures=[post_r2a], native_call='call_r2a',
                       klass='BOUNDED',
                       notes='str.substr + int(str) obligation unknown in z3 5.1 / cvc5 / z3 4.8 after 8 min')


# -- property lemmas (over the contracts only; callee bodies are not used) ------------

def same(x, y):
    """Two results of & / ** denote the same thing."""
    if isinstance(x, str) or isinstance(y, str):
        return isinstance(x, str) and isinstance(y, str) and x == y
    return ext(x) == ext(y) and x.sheet == y.sheet and x.is_range == y.is_range


def both_valid(a, b):
    return valid_addr(a) and valid_addr(b)


def three_valid(a, b, c):
    return valid_addr(a) and valid_addr(b) and valid_addr(c)


def lem_inter_comm(a, b):
    return same(a & b, b & a)


def lem_union_comm(a, b):
    return same(a ** b, b ** a)


def one_valid(a):
    return valid_addr(a)


def lem_inter_idem(a):
    return same(a & a, a)


def lem_union_idem(a):
    return same(a ** a, a)


def lem_inter_assoc(a, b, c):
    ab = a & b
    bc = b & c
    # an error value cannot be chained further (it is not an address); the
    # law is stated for the cases pycel can evaluate, and emptiness must agree
    if isinstance(ab, str):
        return isinstance(bc, str) or isinstance(a & bc, str)
    if isinstance(bc, str):
        return isinstance(ab & c, str)
    return same(ab & c, a & bc)


def lem_union_assoc(a, b, c):
    ab = a ** b
    bc = b ** c
    if isinstance(ab, str):
        return isinstance(bc, str) or isinstance(a ** bc, str)
    if isinstance(bc, str):
        return isinstance(ab ** c, str)
    return same(ab ** c, a ** bc)


def ext_within(x, y):
    """extent x lies inside extent y"""
    return y[0] <= x[0] and x[2] <= y[2] and y[1] <= x[1] and x[3] <= y[3]


def lem_inter_is_glb(a, b, c0, r0, c1, r1):
    """a & b is inside both operands, and any rectangle inside both is inside it."""
    m = a & b
    x = (c0, r0, c1, r1)
    inside_both = ext_within(x, ext(a)) and ext_within(x, ext(b))
    if isinstance(m, str):
        return m == VALUE_ERROR or not inside_both
    return (ext_within(ext(m), ext(a)) and ext_within(ext(m), ext(b)) and
            implies(inside_both, ext_within(x, ext(m))))


def lem_union_is_hull(a, b, c0, r0, c1, r1):
    """both operands are inside a ** b, which is inside any rectangle holding both."""
    u = a ** b
    x = (c0, r0, c1, r1)
    if isinstance(u, str):
        return u == VALUE_ERROR and a.sheet != b.sheet
    return (ext_within(ext(a), ext(u)) and ext_within(ext(b), ext(u)) and
            implies(ext_within(ext(a), x) and ext_within(ext(b), x), ext_within(ext(u), x)))


def rect_ok(a, b, c0, r0, c1, r1):
    return both_valid(a, b) and 1 <= c0 <= c1 <= MAX_COL and 1 <= r0 <= r1 <= MAX_ROW


def offsets_pre(a, r1, c1, r2, c2):
    return valid_cell(a)


def lem_offset_compose(a, r1, c1, r2, c2):
    x = a.address_at_offset(r1, c1).address_at_offset(r2, c2)
    y = a.address_at_offset(r1 + r2, c1 + c2)
    return x.col_idx == y.col_idx and x.row == y.row and x.sheet == y.sheet


def lem_offset_zero(a, r1, c1, r2, c2):
    z = a.address_at_offset(0, 0)
    return z.col_idx == a.col_idx and z.row == a.row and z.sheet == a.sheet


def lem_offset_wraps(a, r1, c1, r2, c2):
    """a full turn around the sheet comes back to the same cell"""
    z = a.address_at_offset(MAX_ROW, MAX_COL)
    w = a.address_at_offset(-MAX_ROW, -MAX_COL)
    return (z.col_idx == a.col_idx and z.row == a.row and
            w.col_idx == a.col_idx and w.row == a.row)


OFFSET = 'pycel.excelutil:AddressCell.address_at_offset'

LEMMAS = [
    Lemma('inter_commutative', 'C11', dict(a=addr_dom(), b=addr_dom()), lem_inter_comm,
          requires=[both_valid], modular=[UI]),
    Lemma('union_commutative', 'C11', dict(a=addr_dom(), b=addr_dom()), lem_union_comm,
          requires=[both_valid], modular=[UI]),
    Lemma('inter_idempotent', 'C11', dict(a=addr_dom()), lem_inter_idem,
          requires=[one_valid], modular=[UI]),
    Lemma('union_idempotent', 'C11', dict(a=addr_dom()), lem_union_idem,
          requires=[one_valid], modular=[UI]),
    Lemma('inter_associative', 'C11', dict(a=addr_dom(), b=addr_dom(), c=addr_dom()), lem_inter_assoc,
          requires=[three_valid], modular=[UI]),
    Lemma('union_associative', 'C11', dict(a=addr_dom(), b=addr_dom(), c=addr_dom()), lem_union_assoc,
          requires=[three_valid], modular=[UI]),
    Lemma('inter_is_greatest_common_rectangle', 'C11',
          dict(a=addr_dom(), b=addr_dom(), c0=Int(), r0=Int(), c1=Int(), r1=Int()), lem_inter_is_glb,
          requires=[rect_ok], modular=[UI]),
    Lemma('union_is_minimal_bounding_rectangle', 'C11',
          dict(a=addr_dom(), b=addr_dom(), c0=Int(), r0=Int(), c1=Int(), r1=Int()), lem_union_is_hull,
          requires=[rect_ok], modular=[UI]),
    Lemma('offsets_compose', 'C11', dict(a=cell_dom(), r1=Int(), c1=Int(), r2=Int(), c2=Int()),
          lem_offset_compose, requires=[offsets_pre], modular=[OFFSET]),
    Lemma('offset_zero_is_identity', 'C11', dict(a=cell_dom(), r1=Int(), c1=Int(), r2=Int(), c2=Int()),
          lem_offset_zero, requires=[offsets_pre], modular=[OFFSET]),
    Lemma('offset_full_turn', 'C11', dict(a=cell_dom(), r1=Int(), c1=Int(), r2=Int(), c2=Int()),
          lem_offset_wraps, requires=[offsets_pre], modular=[OFFSET]),
]


# -- bounded stand-in (native; never counted as proved) -----------------------------------

def bounded(tier, seed, R):
    import random
    from pycel.excelutil import AddressCell, AddressRange
    rnd = random.Random(seed)
    R.rule = ('parse/print round trip: every column 1..16384 x boundary rows x {plain, quoted sheet, '
              'absolute} for cells, boundary rectangles for ranges; R1C1 decode: boundary offsets x '
              'boundary anchor cells against post_r2a; distinct = distinct (obligation, input)')
    rows = [1, 2, 9, 10, 99, 1048575, 1048576]
    cols = range(1, MAX_COL + 1) if tier == 'thorough' else \
        sorted(set(list(range(1, 800)) + [MAX_COL, MAX_COL - 1, 16383, 702, 703, 18278 // 2] +
                   [rnd.randint(1, MAX_COL) for _ in range(300)]))
    sheets = ['', 'Sheet1', 'My Sheet', "O'Brien s", 'a!b', "it's"]
    R.bound = f'columns={len(cols)} rows={rows} sheets={sheets}'
    for col in cols:
        for row in rows:
            for sheet in (sheets if col % 97 == 1 or tier == 'thorough' and col % 7 == 0 else sheets[:2]):
                w = {'col': col, 'row': row, 'sheet': sheet}

                def chk():
                    a = AddressCell((col, row, col, row), sheet=sheet)
                    ok = AddressRange.create(a.address) == a if '!' not in sheet and "'" not in sheet else True
                    ok = ok and AddressRange.create(a.quoted_address) == a
                    ok = ok and AddressRange.create(a.abs_address) == a
                    ok = ok and AddressCell(a.coordinate, sheet=sheet) == a
                    ok = ok and a.col_idx == col and a.row == row
                    return ok
                R.guard('bounded/print_parse_roundtrip[cell]', chk, w)
    # ranges: boundary rectangles
    edges_c = [1, 2, 26, 27, 702, 703, MAX_COL - 1, MAX_COL]
    edges_r = [1, 2, 10, 1048575, MAX_ROW]
    for c0 in edges_c:
        for c1 in edges_c:
            for r0 in edges_r:
                for r1 in edges_r:
                    if c0 > c1 or r0 > r1 or (c0 == c1 and r0 == r1):
                        continue
                    for sheet in ('', 'My Sheet'):
                        w = {'rect': [c0, r0, c1, r1], 'sheet': sheet}

                        def chk():
                            a = AddressRange((c0, r0, c1, r1), sheet=sheet)
                            return (AddressRange.create(a.quoted_address) == a and
                                    AddressRange.create(a.abs_address) == a and
                                    AddressRange(a.coordinate, sheet=sheet) == a and
                                    a.size == (r1 - r0 + 1, c1 - c0 + 1))
                        R.guard('bounded/print_parse_roundtrip[range]', chk, w)
    # unbounded forms print and parse back
    for text in ('A:A', 'A:C', '1:1', '3:7', 'XFD:XFD', '1048576:1048576'):
        for sheet in ('', 'My Sheet'):
            def chk():
                a = AddressRange(text, sheet=sheet)
                return AddressRange.create(a.quoted_address) == a and a.is_unbounded_range
            R.guard('bounded/print_parse_roundtrip[unbounded]', chk, {'text': text, 'sheet': sheet})
    # R1C1 decode against the closure contract, and A1 / R1C1 / tuple agreement
    offs = [0, 1, -1, 2, 7, 16383, 16384, -16384, 1048575, 1048576, -1048576, 1048577, 99999999, -99999999]
    anchors = [(1, 1), (2, 3), (MAX_COL, MAX_ROW), (MAX_COL, 1), (1, MAX_ROW), (27, 100)]
    for (ac, ar) in anchors:
        cell = AddressCell((ac, ar, ac, ar), sheet='s')
        for letter in 'RC':
            forms = [letter] + [f'{letter}{n}' for n in (1, 2, 10, 16384, 1048576)] + \
                    [f'{letter}[{n}]' for n in offs]
            for f in forms:
                n = int(f[2:-1]) if f.endswith(']') else (int(f[1:]) if len(f) > 1 else 0)
                if not f.endswith(']') and len(f) > 1 and n > (MAX_ROW if letter == 'R' else MAX_COL):
                    continue
                for pos in ('min', 'max'):
                    w = {'r1_or_c1': f, 'anchor': [ac, ar], 'n': n, 'pos': pos}
                    R.guard('r1c1_boundaries.from_relative_to_absolute/post#0:post_r2a',
                            lambda: post_r2a(f, cell, n, call_r2a(f, cell, n, pos)), w)
        for (c, r) in [(1, 1), (5, 9), (MAX_COL, MAX_ROW)]:
            def chk():
                t = AddressCell((c, r, c, r), sheet='s')
                a1 = AddressCell(t.coordinate, sheet='s')
                rc = AddressRange.create(f'R{r}C{c}', sheet='s', cell=cell)
                rel = AddressRange.create(f'R[{r - ar}]C[{c - ac}]', sheet='s', cell=cell)
                return t == a1 == rc == rel
            R.guard('bounded/a1_r1c1_tuple_agree', chk, {'cell': [c, r], 'anchor': [ac, ar]})


# -- witness classes of known findings (see /verif/known_findings.json) -------------------

def kf_sheet_with_bang(w):
    return '!' in w.get('sheet', '')


BOUNDED_FUNCTIONS = [R2A_BOUNDED]
LEVEL = 'proof'
EXPLANATION = ('Contracts on the address classes of pycel.excelutil, discharged path by path by z3 over the real '
               'source text (constructors, size, containment, enumeration, offsets, intersection/union) plus '
               'property lemmas proved from the contracts alone (lattice laws, offset composition). The A1 text '
               'parser (openpyxl range_boundaries / get_column_letter, regex based) is trusted (A-COLLETTER) and '
               'covered by the bounded stand-in; the R1C1 closure is bounded only.')
ASSUMPTIONS = ['A-SUBSET: pyvc encoding of the accepted Python subset is faithful (cross-checked by replay of '
               'counterexamples and by the mutation corpus)']
