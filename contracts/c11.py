"""C11 - Address algebra: contracts on pycel.excelutil address classes.

Abstraction: an address is (sheet, c0, r0, c1, r1); pycel stores an unbounded
row/column range with 0 in the open coordinate, *meaning* 1..MAX.  Spec
functions below are the set-theoretic reading (`ext` = widened extent).
"""
from pyvc.spec import (Const, Contract, Int, Lemma, NoneT, Record, Ref, Str,
                       Tuple, Union, forall_range, implies)

MAX_COL = 16384
MAX_ROW = 1048576
VALUE_ERROR = '#VALUE!'
NULL_ERROR = '#NULL!'

CELL_CLS = 'pycel.excelutil:AddressCell'
RANGE_CLS = 'pycel.excelutil:AddressRange'


# -- native builders (replay) ------------------------------------------------

def mk_cell(address=None, sheet='', col_idx=0, row=0, coordinate=None):
    from pycel.excelutil import AddressCell
    return AddressCell((col_idx, row, col_idx, row), sheet=sheet)


def mk_range(address=None, sheet='', start=None, end=None, coordinate=None):
    from pycel.excelutil import AddressRange
    return AddressRange((start.col_idx or None, start.row or None,
                         end.col_idx or None, end.row or None), sheet=sheet)


def cell_dom():
    return Record(CELL_CLS, dict(address=Str(), sheet=Str(), col_idx=Int(), row=Int(),
                                 coordinate=Str()), build=mk_cell)


def range_dom():
    return Record(RANGE_CLS, dict(address=Str(), sheet=Str(), start=cell_dom(), end=cell_dom(),
                                  coordinate=Str()), build=mk_range)


def addr_dom():
    return Union(cell_dom(), range_dom())


# -- spec functions ------------------------------------------------------------

def is_cell(a):
    return not isinstance(a, str) and not a.is_range


def is_rng(a):
    return not isinstance(a, str) and a.is_range


def valid_cell(a):
    """A bounded single cell on the sheet grid."""
    return 1 <= a.col_idx <= MAX_COL and 1 <= a.row <= MAX_ROW


def valid_range(a):
    """start/end corners as pycel stores them: both 0 for an open axis, else
    ordered and on the grid; a range is never a single bounded cell."""
    s = a.start
    e = a.end
    if not (s.sheet == a.sheet and e.sheet == a.sheet):
        return False
    cols_ok = (s.col_idx == 0 and e.col_idx == 0) or (1 <= s.col_idx <= e.col_idx <= MAX_COL)
    rows_ok = (s.row == 0 and e.row == 0) or (1 <= s.row <= e.row <= MAX_ROW)
    not_all = not (s.col_idx == 0 and s.row == 0)
    not_single = not (s.col_idx == e.col_idx and s.row == e.row and s.col_idx != 0 and s.row != 0)
    return cols_ok and rows_ok and not_all and not_single


def valid_addr(a):
    if a.is_range:
        return valid_range(a)
    return valid_cell(a)


def ext(a):
    """Widened extent (c0, r0, c1, r1) of an address: the cells it denotes."""
    s = a.start
    e = a.end
    c0 = s.col_idx if s.col_idx != 0 else 1
    r0 = s.row if s.row != 0 else 1
    c1 = e.col_idx if e.col_idx != 0 else MAX_COL
    r1 = e.row if e.row != 0 else MAX_ROW
    return (c0, r0, c1, r1)


def stored(c0, r0, c1, r1):
    """How pycel stores the extent: full axis -> 0 ... no: pycel results of
    & and ** are always stored bounded (explicit numbers)."""
    return (c0, r0, c1, r1)


def in_ext(c, r, x):
    return x[0] <= c <= x[2] and x[1] <= r <= x[3]


def pre_ui(self, other, min_, max_):
    return valid_addr(self) and valid_addr(other)


def post_intersection(self, other, min_, max_, result):
    if self.sheet and other.sheet and self.sheet != other.sheet:
        return result == VALUE_ERROR
    a = ext(self)
    b = ext(other)
    c0 = max(a[0], b[0])
    r0 = max(a[1], b[1])
    c1 = min(a[2], b[2])
    r1 = min(a[3], b[3])
    if c1 < c0 or r1 < r0:
        return result == NULL_ERROR
    if isinstance(result, str):
        return False
    return (ext(result) == (c0, r0, c1, r1) and
            result.sheet == (self.sheet or other.sheet) and
            result.is_range == (not (c0 == c1 and r0 == r1)))


def post_union(self, other, min_, max_, result):
    if self.sheet and other.sheet and self.sheet != other.sheet:
        return result == VALUE_ERROR
    a = ext(self)
    b = ext(other)
    c0 = min(a[0], b[0])
    r0 = min(a[1], b[1])
    c1 = max(a[2], b[2])
    r1 = max(a[3], b[3])
    if isinstance(result, str):
        return False
    return (ext(result) == (c0, r0, c1, r1) and
            result.sheet == (self.sheet or other.sheet) and
            result.is_range == (not (c0 == c1 and r0 == r1)))


def post_result_valid(self, other, min_, max_, result):
    return isinstance(result, str) or valid_addr(result)


UI = 'pycel.excelutil:AddressMixin._union_instersection'

ui_result = Union(Const(VALUE_ERROR), Const(NULL_ERROR), cell_dom(), range_dom())

def post_ui(self, other, min_, max_, result):
    """`&` is called with (max, min), `**` with (min, max)."""
    if min_ is max:
        return post_intersection(self, other, min_, max_, result)
    return post_union(self, other, min_, max_, result)


# -- constructors (tuple branch) ------------------------------------------------

def col_letters(col):
    from openpyxl.utils import get_column_letter
    return get_column_letter(col)


def coord_of(col, row):
    """Printed coordinate of a (possibly open) corner: letters then digits."""
    c = col_letters(col) if col else ''
    r = str(row) if row else ''
    return c + r


def full_address(sheet, coordinate):
    return sheet + '!' + coordinate if sheet else coordinate


def when_tuple(cls, address, sheet):
    """the contract covers the plain-tuple branch of the constructor only"""
    return isinstance(address, tuple) and not hasattr(address, 'sheet')


def pre_cell_new(cls, address, sheet):
    c = address[0]
    r = address[1]
    return ((c is None or 0 <= c <= MAX_COL) and (r is None or 0 <= r <= MAX_ROW) and
            (None not in address or (address[0] == address[2] and address[1] == address[3])))


def post_cell_new(cls, address, sheet, result):
    c = address[0] or 0
    r = address[1] or 0
    return (result.col_idx == c and result.row == r and result.sheet == sheet and
            result.coordinate == coord_of(c, r) and
            result.address == full_address(sheet, result.coordinate) and
            not result.is_range)


def pre_range_new(cls, address, sheet):
    return (all(a is None or 0 <= a <= MAX_ROW for a in address) and
            (address[0] is None or address[0] <= MAX_COL) and
            (address[2] is None or address[2] <= MAX_COL) and
            (None in address or address[0] != address[2] or address[1] != address[3]))


def post_range_new(cls, address, sheet, result):
    return (result.start.col_idx == (address[0] or 0) and result.start.row == (address[1] or 0) and
            result.end.col_idx == (address[2] or 0) and result.end.row == (address[3] or 0) and
            result.sheet == sheet and result.start.sheet == sheet and result.end.sheet == sheet and
            result.coordinate == result.start.coordinate + ':' + result.end.coordinate and
            result.start.coordinate == coord_of(result.start.col_idx, result.start.row) and
            result.end.coordinate == coord_of(result.end.col_idx, result.end.row) and
            result.address == full_address(sheet, result.coordinate) and
            result.is_range)


CELL_NEW = 'pycel.excelutil:AddressCell.__new__'
RANGE_NEW = 'pycel.excelutil:AddressRange.__new__'

coord = Union(Int(), NoneT())
tuple4 = Tuple(Int(), Int(), Int(), Int())

CONTRACTS = [
    Contract(CELL_NEW, 'C11',
             params=dict(cls=Ref(CELL_CLS), address=Tuple(coord, coord, coord, coord), sheet=Str()),
             when=when_tuple, requires=[pre_cell_new], ensures=[post_cell_new],
             returns=cell_dom()),
    Contract(RANGE_NEW, 'C11',
             params=dict(cls=Ref(RANGE_CLS), address=Tuple(coord, coord, coord, coord), sheet=Str()),
             when=when_tuple, requires=[pre_range_new], ensures=[post_range_new],
             returns=range_dom(), modular=[CELL_NEW]),
    Contract(UI, 'C11', modular=[CELL_NEW, RANGE_NEW],
             params=[dict(self=addr_dom(), other=addr_dom(),
                          min_=Ref('builtins:max'), max_=Ref('builtins:min')),
                     dict(self=addr_dom(), other=addr_dom(),
                          min_=Ref('builtins:min'), max_=Ref('builtins:max'))],
             requires=[pre_ui], ensures=[post_ui, post_result_valid],
             returns=ui_result),
]


# -- offsets ----------------------------------------------------------------------

def pre_cell(self, inc):
    return valid_cell(self)


def post_inc_col(self, inc, result):
    return (1 <= result <= MAX_COL and (result - (self.col_idx + inc)) % MAX_COL == 0 and
            implies(inc == 0, result == self.col_idx))


def post_inc_row(self, inc, result):
    return (1 <= result <= MAX_ROW and (result - (self.row + inc)) % MAX_ROW == 0 and
            implies(inc == 0, result == self.row))


def pre_offset(self, row_inc, col_inc):
    return valid_cell(self)


def post_offset(self, row_inc, col_inc, result):
    return (valid_cell(result) and not result.is_range and result.sheet == self.sheet and
            (result.col_idx - (self.col_idx + col_inc)) % MAX_COL == 0 and
            (result.row - (self.row + row_inc)) % MAX_ROW == 0)


def pre_range_offset(self, row_inc, col_inc):
    return valid_range(self) and self.start.row != 0 and self.start.col_idx != 0


def post_range_offset(self, row_inc, col_inc, result):
    return (valid_cell(result) and result.sheet == self.sheet and
            (result.col_idx - (self.start.col_idx + col_inc)) % MAX_COL == 0 and
            (result.row - (self.start.row + row_inc)) % MAX_ROW == 0)


# -- size / containment / enumeration ------------------------------------------------

def pre_range(self):
    return valid_range(self)


def post_size(self, result):
    x = ext(self)
    return result.height == x[3] - x[1] + 1 and result.width == x[2] - x[0] + 1


def bounded_range(a):
    return valid_range(a) and a.start.row != 0 and a.start.col_idx != 0


def pre_contains(self, address):
    return bounded_range(self) and valid_cell(address)


def post_contains(self, address, result):
    return result == in_ext(address.col_idx, address.row, ext(self))


def pre_cell_contains(self, address):
    return valid_cell(self) and valid_cell(address)


def post_cell_contains(self, address, result):
    return result == (self.col_idx == address.col_idx and self.row == address.row and
                      self.sheet == address.sheet and self.address == address.address and
                      self.coordinate == address.coordinate)


def enumerable(self):
    """bounded and smaller than a whole row/column (resolve_range's own assert)"""
    x = ext(self)
    return bounded_range(self) and x[3] - x[1] + 1 < MAX_ROW and x[2] - x[0] + 1 < MAX_COL


def cell_at(c, col, row, sheet):
    return (not c.is_range and c.col_idx == col and c.row == row and c.sheet == sheet)


def post_resolve_range(self, result):
    x = ext(self)
    h = x[3] - x[1] + 1
    w = x[2] - x[0] + 1
    return (len(result) == h and
            forall_range(0, h, lambda i: len(result[i]) == w and forall_range(
                0, w, lambda j: cell_at(result[i][j], x[0] + j, x[1] + i, self.sheet) and
                in_ext(result[i][j].col_idx, result[i][j].row, x))))


def post_rows(self, result):
    x = ext(self)
    h = x[3] - x[1] + 1
    w = x[2] - x[0] + 1
    rows = tuple(tuple(r) for r in result)
    return (len(rows) == h and
            forall_range(0, h, lambda i: len(rows[i]) == w and forall_range(
                0, w, lambda j: cell_at(rows[i][j], x[0] + j, x[1] + i, self.sheet))))


def post_cols(self, result):
    x = ext(self)
    h = x[3] - x[1] + 1
    w = x[2] - x[0] + 1
    cols = tuple(tuple(c) for c in result)
    return (len(cols) == w and
            forall_range(0, w, lambda j: len(cols[j]) == h and forall_range(
                0, h, lambda i: cell_at(cols[j][i], x[0] + j, x[1] + i, self.sheet))))


CONTRACTS += [
    Contract('pycel.excelutil:AddressCell.inc_col', 'C11', params=dict(self=cell_dom(), inc=Int()),
             requires=[pre_cell], ensures=[post_inc_col], returns=Int()),
    Contract('pycel.excelutil:AddressCell.inc_row', 'C11', params=dict(self=cell_dom(), inc=Int()),
             requires=[pre_cell], ensures=[post_inc_row], returns=Int()),
    Contract('pycel.excelutil:AddressCell.address_at_offset', 'C11',
             params=dict(self=cell_dom(), row_inc=Int(), col_inc=Int()),
             requires=[pre_offset], ensures=[post_offset], returns=cell_dom(), modular=[CELL_NEW]),
    Contract('pycel.excelutil:AddressRange.address_at_offset', 'C11',
             params=dict(self=range_dom(), row_inc=Int(), col_inc=Int()),
             requires=[pre_range_offset], ensures=[post_range_offset], returns=cell_dom(),
             modular=[CELL_NEW]),
    Contract('pycel.excelutil:AddressRange.size', 'C11', params=dict(self=range_dom()),
             requires=[pre_range], ensures=[post_size]),
    Contract('pycel.excelutil:AddressRange.__contains__', 'C11',
             params=dict(self=range_dom(), address=cell_dom()),
             requires=[pre_contains], ensures=[post_contains]),
    Contract('pycel.excelutil:AddressCell.__contains__', 'C11',
             params=dict(self=cell_dom(), address=cell_dom()),
             requires=[pre_cell_contains], ensures=[post_cell_contains]),
    Contract('pycel.excelutil:AddressRange.resolve_range', 'C11', params=dict(self=range_dom()),
             requires=[enumerable], ensures=[post_resolve_range], modular=[CELL_NEW]),
    Contract('pycel.excelutil:AddressRange.rows', 'C11', params=dict(self=range_dom()),
             requires=[enumerable], ensures=[post_rows], modular=[CELL_NEW]),
    Contract('pycel.excelutil:AddressRange.cols', 'C11', params=dict(self=range_dom()),
             requires=[enumerable], ensures=[post_cols], modular=[CELL_NEW]),
]


# -- property lemmas (over the contracts only; callee bodies are not used) ------------

def same(x, y):
    """Two results of & / ** denote the same thing."""
    if isinstance(x, str) or isinstance(y, str):
        return isinstance(x, str) and isinstance(y, str) and x == y
    return ext(x) == ext(y) and x.sheet == y.sheet and x.is_range == y.is_range


def both_valid(a, b):
    return valid_addr(a) and valid_addr(b)


def three_valid(a, b, c):
    return valid_addr(a) and valid_addr(b) and valid_addr(c)


def lem_inter_comm(a, b):
    return same(a & b, b & a)


def lem_union_comm(a, b):
    return same(a ** b, b ** a)


def one_valid(a):
    return valid_addr(a)


def lem_inter_idem(a):
    return same(a & a, a)


def lem_union_idem(a):
    return same(a ** a, a)


def lem_inter_assoc(a, b, c):
    ab = a & b
    bc = b & c
    # an error value cannot be chained further (it is not an address); the
    # law is stated for the cases pycel can evaluate, and emptiness must agree
    if isinstance(ab, str):
        return isinstance(bc, str) or isinstance(a & bc, str)
    if isinstance(bc, str):
        return isinstance(ab & c, str)
    return same(ab & c, a & bc)


def lem_union_assoc(a, b, c):
    ab = a ** b
    bc = b ** c
    if isinstance(ab, str):
        return isinstance(bc, str) or isinstance(a ** bc, str)
    if isinstance(bc, str):
        return isinstance(ab ** c, str)
    return same(ab ** c, a ** bc)


def ext_within(x, y):
    """extent x lies inside extent y"""
    return y[0] <= x[0] and x[2] <= y[2] and y[1] <= x[1] and x[3] <= y[3]


def lem_inter_is_glb(a, b, c0, r0, c1, r1):
    """a & b is inside both operands, and any rectangle inside both is inside it."""
    m = a & b
    x = (c0, r0, c1, r1)
    inside_both = ext_within(x, ext(a)) and ext_within(x, ext(b))
    if isinstance(m, str):
        return m == VALUE_ERROR or not inside_both
    return (ext_within(ext(m), ext(a)) and ext_within(ext(m), ext(b)) and
            implies(inside_both, ext_within(x, ext(m))))


def lem_union_is_hull(a, b, c0, r0, c1, r1):
    """both operands are inside a ** b, which is inside any rectangle holding both."""
    u = a ** b
    x = (c0, r0, c1, r1)
    if isinstance(u, str):
        return u == VALUE_ERROR and a.sheet != b.sheet
    return (ext_within(ext(a), ext(u)) and ext_within(ext(b), ext(u)) and
            implies(ext_within(ext(a), x) and ext_within(ext(b), x), ext_within(ext(u), x)))


def rect_ok(a, b, c0, r0, c1, r1):
    return both_valid(a, b) and 1 <= c0 <= c1 <= MAX_COL and 1 <= r0 <= r1 <= MAX_ROW


def offsets_pre(a, r1, c1, r2, c2):
    return valid_cell(a)


def lem_offset_compose(a, r1, c1, r2, c2):
    x = a.address_at_offset(r1, c1).address_at_offset(r2, c2)
    y = a.address_at_offset(r1 + r2, c1 + c2)
    return x.col_idx == y.col_idx and x.row == y.row and x.sheet == y.sheet


def lem_offset_zero(a, r1, c1, r2, c2):
    z = a.address_at_offset(0, 0)
    return z.col_idx == a.col_idx and z.row == a.row and z.sheet == a.sheet


def lem_offset_wraps(a, r1, c1, r2, c2):
    """a full turn around the sheet comes back to the same cell"""
    z = a.address_at_offset(MAX_ROW, MAX_COL)
    w = a.address_at_offset(-MAX_ROW, -MAX_COL)
    return (z.col_idx == a.col_idx and z.row == a.row and
            w.col_idx == a.col_idx and w.row == a.row)


OFFSET = 'pycel.excelutil:AddressCell.address_at_offset'

LEMMAS = [
    Lemma('inter_commutative', 'C11', dict(a=addr_dom(), b=addr_dom()), lem_inter_comm,
          requires=[both_valid], modular=[UI]),
    Lemma('union_commutative', 'C11', dict(a=addr_dom(), b=addr_dom()), lem_union_comm,
          requires=[both_valid], modular=[UI]),
    Lemma('inter_idempotent', 'C11', dict(a=addr_dom()), lem_inter_idem,
          requires=[one_valid], modular=[UI]),
    Lemma('union_idempotent', 'C11', dict(a=addr_dom()), lem_union_idem,
          requires=[one_valid], modular=[UI]),
    Lemma('inter_associative', 'C11', dict(a=addr_dom(), b=addr_dom(), c=addr_dom()), lem_inter_assoc,
          requires=[three_valid], modular=[UI]),
    Lemma('union_associative', 'C11', dict(a=addr_dom(), b=addr_dom(), c=addr_dom()), lem_union_assoc,
          requires=[three_valid], modular=[UI]),
    Lemma('inter_is_greatest_common_rectangle', 'C11',
          dict(a=addr_dom(), b=addr_dom(), c0=Int(), r0=Int(), c1=Int(), r1=Int()), lem_inter_is_glb,
          requires=[rect_ok], modular=[UI]),
    Lemma('union_is_minimal_bounding_rectangle', 'C11',
          dict(a=addr_dom(), b=addr_dom(), c0=Int(), r0=Int(), c1=Int(), r1=Int()), lem_union_is_hull,
          requires=[rect_ok], modular=[UI]),
    Lemma('offsets_compose', 'C11', dict(a=cell_dom(), r1=Int(), c1=Int(), r2=Int(), c2=Int()),
          lem_offset_compose, requires=[offsets_pre], modular=[OFFSET]),
    Lemma('offset_zero_is_identity', 'C11', dict(a=cell_dom(), r1=Int(), c1=Int(), r2=Int(), c2=Int()),
          lem_offset_zero, requires=[offsets_pre], modular=[OFFSET]),
    Lemma('offset_full_turn', 'C11', dict(a=cell_dom(), r1=Int(), c1=Int(), r2=Int(), c2=Int()),
          lem_offset_wraps, requires=[offsets_pre], modular=[OFFSET]),
]
