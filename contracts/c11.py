"""C11 - Address algebra: contracts on pycel.excelutil address classes.

Abstraction: an address is (sheet, c0, r0, c1, r1); pycel stores an unbounded
row/column range with 0 in the open coordinate, *meaning* 1..MAX.  Spec
functions below are the set-theoretic reading (`ext` = widened extent).
"""
from pyvc.spec import (Const, Contract, Int, Lemma, NoneT, Record, Ref, Str,
                       Tuple, Union, implies)

MAX_COL = 16384
MAX_ROW = 1048576
VALUE_ERROR = '#VALUE!'
NULL_ERROR = '#NULL!'

CELL_CLS = 'pycel.excelutil:AddressCell'
RANGE_CLS = 'pycel.excelutil:AddressRange'


# -- native builders (replay) ------------------------------------------------

def mk_cell(address=None, sheet='', col_idx=0, row=0, coordinate=None):
    from pycel.excelutil import AddressCell
    return AddressCell((col_idx, row, col_idx, row), sheet=sheet)


def mk_range(address=None, sheet='', start=None, end=None, coordinate=None):
    from pycel.excelutil import AddressRange
    return AddressRange((start.col_idx or None, start.row or None,
                         end.col_idx or None, end.row or None), sheet=sheet)


def cell_dom():
    return Record(CELL_CLS, dict(address=Str(), sheet=Str(), col_idx=Int(), row=Int(),
                                 coordinate=Str()), build=mk_cell)


def range_dom():
    return Record(RANGE_CLS, dict(address=Str(), sheet=Str(), start=cell_dom(), end=cell_dom(),
                                  coordinate=Str()), build=mk_range)


def addr_dom():
    return Union(cell_dom(), range_dom())


# -- spec functions ------------------------------------------------------------

def is_cell(a):
    return not isinstance(a, str) and not a.is_range


def is_rng(a):
    return not isinstance(a, str) and a.is_range


def valid_cell(a):
    """A bounded single cell on the sheet grid."""
    return 1 <= a.col_idx <= MAX_COL and 1 <= a.row <= MAX_ROW


def valid_range(a):
    """start/end corners as pycel stores them: both 0 for an open axis, else
    ordered and on the grid; a range is never a single bounded cell."""
    s = a.start
    e = a.end
    if not (s.sheet == a.sheet and e.sheet == a.sheet):
        return False
    cols_ok = (s.col_idx == 0 and e.col_idx == 0) or (1 <= s.col_idx <= e.col_idx <= MAX_COL)
    rows_ok = (s.row == 0 and e.row == 0) or (1 <= s.row <= e.row <= MAX_ROW)
    not_all = not (s.col_idx == 0 and s.row == 0)
    not_single = not (s.col_idx == e.col_idx and s.row == e.row and s.col_idx != 0 and s.row != 0)
    return cols_ok and rows_ok and not_all and not_single


def valid_addr(a):
    if a.is_range:
        return valid_range(a)
    return valid_cell(a)


def ext(a):
    """Widened extent (c0, r0, c1, r1) of an address: the cells it denotes."""
    s = a.start
    e = a.end
    c0 = s.col_idx if s.col_idx != 0 else 1
    r0 = s.row if s.row != 0 else 1
    c1 = e.col_idx if e.col_idx != 0 else MAX_COL
    r1 = e.row if e.row != 0 else MAX_ROW
    return (c0, r0, c1, r1)


def stored(c0, r0, c1, r1):
    """How pycel stores the extent: full axis -> 0 ... no: pycel results of
    & and ** are always stored bounded (explicit numbers)."""
    return (c0, r0, c1, r1)


def in_ext(c, r, x):
    return x[0] <= c <= x[2] and x[1] <= r <= x[3]


def pre_ui(self, other, min_, max_):
    return valid_addr(self) and valid_addr(other)


def post_intersection(self, other, min_, max_, result):
    if self.sheet and other.sheet and self.sheet != other.sheet:
        return result == VALUE_ERROR
    a = ext(self)
    b = ext(other)
    c0 = max(a[0], b[0])
    r0 = max(a[1], b[1])
    c1 = min(a[2], b[2])
    r1 = min(a[3], b[3])
    if c1 < c0 or r1 < r0:
        return result == NULL_ERROR
    if isinstance(result, str):
        return False
    return (ext(result) == (c0, r0, c1, r1) and
            result.sheet == (self.sheet or other.sheet) and
            result.is_range == (not (c0 == c1 and r0 == r1)))


def post_union(self, other, min_, max_, result):
    if self.sheet and other.sheet and self.sheet != other.sheet:
        return result == VALUE_ERROR
    a = ext(self)
    b = ext(other)
    c0 = min(a[0], b[0])
    r0 = min(a[1], b[1])
    c1 = max(a[2], b[2])
    r1 = max(a[3], b[3])
    if isinstance(result, str):
        return False
    return (ext(result) == (c0, r0, c1, r1) and
            result.sheet == (self.sheet or other.sheet) and
            result.is_range == (not (c0 == c1 and r0 == r1)))


def post_result_valid(self, other, min_, max_, result):
    return isinstance(result, str) or valid_addr(result)


UI = 'pycel.excelutil:AddressMixin._union_instersection'

ui_result = Union(Const(VALUE_ERROR), Const(NULL_ERROR), cell_dom(), range_dom())

def post_ui(self, other, min_, max_, result):
    """`&` is called with (max, min), `**` with (min, max)."""
    if min_ is max:
        return post_intersection(self, other, min_, max_, result)
    return post_union(self, other, min_, max_, result)


# -- constructors (tuple branch) ------------------------------------------------

def col_letters(col):
    from openpyxl.utils import get_column_letter
    return get_column_letter(col)


def coord_of(col, row):
    """Printed coordinate of a (possibly open) corner: letters then digits."""
    c = col_letters(col) if col else ''
    r = str(row) if row else ''
    return c + r


def full_address(sheet, coordinate):
    return sheet + '!' + coordinate if sheet else coordinate


def when_tuple(cls, address, sheet):
    """the contract covers the plain-tuple branch of the constructor only"""
    return isinstance(address, tuple) and not hasattr(address, 'sheet')


def pre_cell_new(cls, address, sheet):
    c = address[0]
    r = address[1]
    return ((c is None or 0 <= c <= MAX_COL) and (r is None or 0 <= r <= MAX_ROW) and
            (None not in address or (address[0] == address[2] and address[1] == address[3])))


def post_cell_new(cls, address, sheet, result):
    c = address[0] or 0
    r = address[1] or 0
    return (result.col_idx == c and result.row == r and result.sheet == sheet and
            result.coordinate == coord_of(c, r) and
            result.address == full_address(sheet, result.coordinate) and
            not result.is_range)


def pre_range_new(cls, address, sheet):
    return (all(a is None or 0 <= a <= MAX_ROW for a in address) and
            (address[0] is None or address[0] <= MAX_COL) and
            (address[2] is None or address[2] <= MAX_COL) and
            (None in address or address[0] != address[2] or address[1] != address[3]))


def post_range_new(cls, address, sheet, result):
    return (result.start.col_idx == (address[0] or 0) and result.start.row == (address[1] or 0) and
            result.end.col_idx == (address[2] or 0) and result.end.row == (address[3] or 0) and
            result.sheet == sheet and result.start.sheet == sheet and result.end.sheet == sheet and
            result.coordinate == result.start.coordinate + ':' + result.end.coordinate and
            result.start.coordinate == coord_of(result.start.col_idx, result.start.row) and
            result.end.coordinate == coord_of(result.end.col_idx, result.end.row) and
            result.address == full_address(sheet, result.coordinate) and
            result.is_range)


CELL_NEW = 'pycel.excelutil:AddressCell.__new__'
RANGE_NEW = 'pycel.excelutil:AddressRange.__new__'

coord = Union(Int(), NoneT())
tuple4 = Tuple(Int(), Int(), Int(), Int())

CONTRACTS = [
    Contract(CELL_NEW, 'C11',
             params=dict(cls=Ref(CELL_CLS), address=Tuple(coord, coord, coord, coord), sheet=Str()),
             when=when_tuple, requires=[pre_cell_new], ensures=[post_cell_new],
             returns=cell_dom()),
    Contract(RANGE_NEW, 'C11',
             params=dict(cls=Ref(RANGE_CLS), address=Tuple(coord, coord, coord, coord), sheet=Str()),
             when=when_tuple, requires=[pre_range_new], ensures=[post_range_new],
             returns=range_dom(), modular=[CELL_NEW]),
    Contract(UI, 'C11', modular=[CELL_NEW, RANGE_NEW],
             params=[dict(self=addr_dom(), other=addr_dom(),
                          min_=Ref('builtins:max'), max_=Ref('builtins:min')),
                     dict(self=addr_dom(), other=addr_dom(),
                          min_=Ref('builtins:min'), max_=Ref('builtins:max'))],
             requires=[pre_ui], ensures=[post_ui, post_result_valid],
             returns=ui_result),
]

LEMMAS = []
